import sys, tempfile
from pathlib import Path
import numpy as np
from sedpack.io import Dataset, Metadata, DatasetStructure, Attribute
ok=True
bits = np.array([0x7f800001, 0x7fc00001, 0xff800001, 0x7fbfffff, 0x7fc00000, 0x7f800000, 0x80000000, 1], dtype=np.uint32)
vals = bits.view(np.float32)
for ft in ("tfrec","npz","fb"):
    with tempfile.TemporaryDirectory() as tmp:
        ds = Dataset.create(Path(tmp)/"d", Metadata(description="x"), DatasetStructure(saved_data_description=[Attribute(name="a", shape=(len(vals),), dtype="float32")], shard_file_type=ft, compression="" if ft!="npz" else "ZIP", examples_per_shard=4))
        with ds.filler() as f:
            f.write_example({"a": vals}, "train")
        got = [np.asarray(e["a"]) for e in ds.as_numpy_iterator(split="train", repeat=False, shuffle=0)][0]
        gb = got.astype(np.float32).view(np.uint32) if got.dtype!=np.float32 else got.view(np.uint32)
        if not np.array_equal(gb, bits):
            ok=False; print(ft, "MISMATCH", [hex(x) for x in bits], "->", [hex(x) for x in gb])
        else: print(ft,"identical")
print("PASS" if ok else "FAIL"); sys.exit(0 if ok else 1)
