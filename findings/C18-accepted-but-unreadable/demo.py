import sys, tempfile
from pathlib import Path
import numpy as np
from sedpack.io import Dataset, Metadata, DatasetStructure, Attribute
ok=True
# 1. tfrec: float array written to an int attribute
for ft, comp in (("tfrec",""),("fb",""),("npz","ZIP")):
    with tempfile.TemporaryDirectory() as tmp:
        ds = Dataset.create(Path(tmp)/"d", Metadata(description="x"), DatasetStructure(saved_data_description=[Attribute(name="a", shape=(2,), dtype="int32")], shard_file_type=ft, compression=comp, examples_per_shard=4))
        accepted=None
        try:
            with ds.filler() as f:
                f.write_example({"a": np.array([1,2],np.int32)}, "train")
                try:
                    f.write_example({"a": np.array([1.5,2.5],np.float64)}, "train")
                    accepted=True
                except Exception as e:
                    accepted=False; print(ft, "float into int32 rejected:", type(e).__name__)
                f.write_example({"a": np.array([3,4],np.int32)}, "train")
        except Exception as e:
            print(ft, "session failed:", type(e).__name__, str(e)[:100]); ok=False; continue
        try:
            got=[np.asarray(e["a"]).tolist() for e in ds.as_numpy_iterator(split="train", repeat=False, shuffle=0)]
            print(ft, "accepted" if accepted else "rejected", "read back", got)
            if accepted and got != [[1,2],[1.5,2.5],[3,4]]:
                ok=False
        except Exception as e:
            print(ft, "accepted=",accepted, "READ FAILED:", type(e).__name__, str(e)[:120]); ok=False
# 2. fb writer with str / bytes attribute
for dt, val in (("str","hello"),("bytes",b"ab\x00")):
    with tempfile.TemporaryDirectory() as tmp:
        try:
            ds = Dataset.create(Path(tmp)/"d", Metadata(description="x"), DatasetStructure(saved_data_description=[Attribute(name="a", shape=(), dtype=dt)], shard_file_type="fb", compression="", examples_per_shard=4))
        except Exception as e:
            print("fb", dt, "structure rejected:", type(e).__name__, str(e)[:100]); continue
        try:
            with ds.filler() as f:
                f.write_example({"a": val}, "train")
            print("fb", dt, "write accepted")
        except Exception as e:
            print("fb", dt, "write rejected:", type(e).__name__, str(e)[:100]); continue
        try:
            got=[e["a"] for e in ds.as_numpy_iterator(split="train", repeat=False, shuffle=0)]
            print("fb", dt, "read back", got)
            if got != [val]: ok=False
        except Exception as e:
            print("fb", dt, "READ FAILED:", type(e).__name__, str(e)[:120]); ok=False
print("PASS" if ok else "FAIL"); sys.exit(0 if ok else 1)
