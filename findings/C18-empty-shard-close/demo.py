"""A rejected write that carries a new custom_metadata value leaves an empty,
labelled shard open; the next valid write with another label then fails
(closing the empty shard) - or, for tfrec, raises 'not open'."""
import sys, tempfile
from pathlib import Path
import numpy as np
from sedpack.io import Dataset, Metadata, DatasetStructure, Attribute

ok = True
for ft in ("npz", "fb", "tfrec"):
    with tempfile.TemporaryDirectory() as tmp:
        ds = Dataset.create(Path(tmp) / "d", Metadata(description="x"),
                            DatasetStructure(saved_data_description=[
                                Attribute(name="a", shape=(2,), dtype="float32")],
                                shard_file_type=ft, compression="" if ft != "npz" else "ZIP",
                                examples_per_shard=4))
        try:
            with ds.filler() as filler:
                filler.write_example({"a": np.zeros(2, np.float32)}, "train", custom_metadata={"k": "A"})
                try:
                    filler.write_example({"a": np.zeros(3, np.float32)}, "train", custom_metadata={"k": "B"})
                    print(ft, "rejected write was accepted?!"); ok = False
                except ValueError:
                    pass
                filler.write_example({"a": np.ones(2, np.float32)}, "train", custom_metadata={"k": "A"})
            got = [e["a"].tolist() for e in ds.as_numpy_iterator(split="train", repeat=False, shuffle=0)]
            if got != [[0.0, 0.0], [1.0, 1.0]]:
                print(ft, "read back", got); ok = False
            sizes = [s.number_of_examples for s in ds.shard_info_iterator("train")]
            if 0 in sizes:
                print(ft, "empty shard recorded", sizes); ok = False
        except Exception as e:  # noqa
            print(ft, "valid write after a rejected one failed:", type(e).__name__, str(e)[:100]); ok = False
print("PASS" if ok else "FAIL"); sys.exit(0 if ok else 1)
