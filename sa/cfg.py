"""E3/E4 - statement/call level control-flow graph with optional constant
specialisation (partial evaluation of branch conditions).

Granularity: one node per *event*. A simple statement expands into the calls
it evaluates (in evaluation order) followed by the statement itself (its
stores / return / raise). Compound statements contribute a `test` node (if /
while / match subject), a `for` node (one pull from the iterable + binding of
the target), `with` enter nodes, `except` handler entry nodes.

Edges carry a label: next | true | false | exc | loop | break | continue.
Exceptional edges go from every node that may raise to the innermost
enclosing handlers (all of them - handler matching is not modelled, except
that a handler is skipped when `exc_filter` says the raised class cannot match)
and/or to the function's RAISE exit.
"""
from __future__ import annotations

import ast
from dataclasses import dataclass, field
from typing import Callable, Iterable, Iterator

from sa.model import AnalysisError, FunctionInfo, short

UNKNOWN = object()


@dataclass(eq=False)
class Node:
    id: int
    kind: str  # entry exit raise stmt call test for with withexit except yield case
    ast: ast.AST | None = None
    conditional: bool = False  # evaluated only on some executions of its statement
    in_comp: bool = False  # inside a comprehension (0..n times)
    stmt: ast.AST | None = None  # the statement this event belongs to
    succ: list[tuple["Node", str]] = field(default_factory=list)
    pred: list[tuple["Node", str]] = field(default_factory=list)

    @property
    def lineno(self) -> int:
        return getattr(self.ast, "lineno", 0) or getattr(self.stmt, "lineno", 0)

    def __repr__(self) -> str:
        return f"<{self.id}:{self.kind}:{short(self.ast, 50)}>"

    def __hash__(self) -> int:
        return self.id


def const_eval(expr: ast.AST, env: dict[str, object]) -> object:
    """Three valued evaluation of simple expressions. `env` maps dotted
    names (e.g. "shuffle", "self._repeat") to Python constants or to the
    markers TRUTHY / FALSY."""
    if isinstance(expr, ast.Constant):
        return expr.value
    from sa.model import dotted
    d = dotted(expr)
    if d is not None and d in env:
        return env[d]
    if isinstance(expr, ast.UnaryOp) and isinstance(expr.op, ast.Not):
        v = truth(expr.operand, env)
        return UNKNOWN if v is None else (not v)
    if isinstance(expr, ast.BoolOp):
        vals = [truth(v, env) for v in expr.values]
        if isinstance(expr.op, ast.And):
            if any(v is False for v in vals):
                return False
            if all(v is True for v in vals):
                return True
        else:
            if any(v is True for v in vals):
                return True
            if all(v is False for v in vals):
                return False
        return UNKNOWN
    if isinstance(expr, ast.IfExp):
        t = truth(expr.test, env)
        if t is True:
            return const_eval(expr.body, env)
        if t is False:
            return const_eval(expr.orelse, env)
        a, b = const_eval(expr.body, env), const_eval(expr.orelse, env)
        if a is not UNKNOWN and a == b and type(a) is type(b):
            return a
        return UNKNOWN
    if isinstance(expr, ast.Compare) and len(expr.ops) == 1:
        a = const_eval(expr.left, env)
        b = const_eval(expr.comparators[0], env)
        op = expr.ops[0]
        if isinstance(op, (ast.Is, ast.IsNot)):
            # an EMPTY value ({} / [] / ""): falsy but not None
            if (a is EMPTY and b is None) or (b is EMPTY and a is None):
                return isinstance(op, ast.IsNot)
            if a is EMPTY or b is EMPTY:
                return UNKNOWN
            if a is UNKNOWN or b is UNKNOWN:
                # TRUTHY values are not None
                if b is None and a in (TRUTHY, ) or a is None and b in (TRUTHY, ):
                    return isinstance(op, ast.IsNot)
                return UNKNOWN
            if a in (TRUTHY, FALSY) or b in (TRUTHY, FALSY):
                if (a is None or b is None) and (a is TRUTHY or b is TRUTHY):
                    return isinstance(op, ast.IsNot)
                return UNKNOWN
            r = a is b if not isinstance(a, (int, str)) else a == b
            return r if isinstance(op, ast.Is) else not r
        if a is UNKNOWN or b is UNKNOWN or a in (TRUTHY, FALSY, EMPTY) or \
                b in (TRUTHY, FALSY, EMPTY):
            return UNKNOWN
        try:
            if isinstance(op, ast.Eq):
                return a == b
            if isinstance(op, ast.NotEq):
                return a != b
            if isinstance(op, ast.Lt):
                return a < b
            if isinstance(op, ast.LtE):
                return a <= b
            if isinstance(op, ast.Gt):
                return a > b
            if isinstance(op, ast.GtE):
                return a >= b
            if isinstance(op, ast.In):
                return a in b
            if isinstance(op, ast.NotIn):
                return a not in b
        except TypeError:
            return UNKNOWN
    if isinstance(expr, ast.Call) and isinstance(
            expr.func, ast.Name) and expr.func.id == "isinstance" and len(
                expr.args) == 2:
        v = const_eval(expr.args[0], env)
        if v is not UNKNOWN and v not in (TRUTHY, FALSY, EMPTY):
            names = {"int": int, "str": str, "bool": bool, "float": float}
            t = expr.args[1]
            if isinstance(t, ast.Name) and t.id in names:
                return isinstance(v, names[t.id])
    if isinstance(expr, (ast.List, ast.Tuple)):
        vals = [const_eval(e, env) for e in expr.elts]
        if all(v is not UNKNOWN and v not in (TRUTHY, FALSY, EMPTY) for v in vals):
            return vals if isinstance(expr, ast.List) else tuple(vals)
    return UNKNOWN


class _Marker:

    def __init__(self, name: str):
        self.name = name

    def __repr__(self) -> str:
        return self.name


TRUTHY = _Marker("TRUTHY")
FALSY = _Marker("FALSY")
EMPTY = _Marker("EMPTY")   # an empty container / string: falsy, not None


def truth(expr: ast.AST, env: dict[str, object]) -> bool | None:
    v = const_eval(expr, env)
    if v is UNKNOWN:
        return None
    if v is TRUTHY:
        return True
    if v is FALSY or v is EMPTY:
        return False
    try:
        return bool(v)
    except Exception:
        return None


def _may_raise_expr(e: ast.AST | None) -> bool:
    if e is None:
        return False
    for n in ast.walk(e):
        if isinstance(n, (ast.Call, ast.Subscript, ast.Await, ast.BinOp)):
            return True
    return False


class CFG:

    def __init__(self, fn: FunctionInfo, env: dict[str, object] | None = None,
                 oracle: Callable[[ast.AST], "bool | None"] | None = None):
        self.fn = fn
        self.env = dict(env or {})
        # a single-definition local that names an expression the environment
        # fixes (`order = sys.byteorder`) has that value too
        if self.env and not isinstance(fn.node, ast.Lambda):
            try:
                from sa.valuation import single_defs as _sd
                from sa.model import dotted as _dt
                for name_, val_ in _sd(fn).items():
                    d_ = _dt(val_) if isinstance(
                        val_, (ast.Name, ast.Attribute)) else None
                    if d_ is not None and d_ in self.env and \
                            name_ not in self.env and name_ not in fn.params():
                        self.env[name_] = self.env[d_]
            except Exception:  # pylint: disable=broad-exception-caught
                pass
        self.oracle = oracle
        self.nodes: list[Node] = []
        self.entry = self._new("entry")
        self.exit = self._new("exit")
        self.raise_exit = self._new("raise")
        self._handlers: list[list[Node]] = []  # stack of handler entry lists
        self._finally: list[ast.Try] = []
        self._loops: list[tuple[Node, list[Node]]] = []  # (head, break sources)
        self.pruned: list[tuple[ast.AST, str]] = []
        body = fn.node.body if not isinstance(fn.node, ast.Lambda) else [
            ast.Return(value=fn.node.body)
        ]
        ends = self._block(body, [(self.entry, "next")])
        for n, lab in ends:
            self._edge(n, self.exit, lab)

    def _truth(self, expr: ast.AST) -> "bool | None":
        if self.oracle is not None:
            v = self.oracle(expr)
            if v is not None:
                return v
        return truth(expr, self.env)

    # -- construction -------------------------------------------------------
    def _new(self, kind: str, node: ast.AST | None = None,
             stmt: ast.AST | None = None, **kw) -> Node:
        n = Node(len(self.nodes), kind, node, stmt=stmt or node, **kw)
        self.nodes.append(n)
        return n

    @staticmethod
    def _edge(a: Node, b: Node, label: str) -> None:
        a.succ.append((b, label))
        b.pred.append((a, label))

    def _link(self, preds: list[tuple[Node, str]], n: Node) -> None:
        for p, lab in preds:
            self._edge(p, n, lab)

    def _exc_edge(self, n: Node, label: str = "exc") -> None:
        """Node n may raise: connect to enclosing handlers or RAISE."""
        if self._handlers:
            for h in self._handlers[-1]:
                self._edge(n, h, label)
            # an exception not matched by these handlers propagates further;
            # modelled through the handler group's `unmatched` node (last)
        else:
            self._edge(n, self.raise_exit, label)

    def _events(self, expr: ast.AST | None, stmt: ast.AST,
                preds: list[tuple[Node, str]], conditional: bool = False,
                in_comp: bool = False) -> list[tuple[Node, str]]:
        """Emit call/yield/await events of `expr` in evaluation order."""
        if expr is None:
            return preds
        if isinstance(expr, (ast.Lambda, ast.FunctionDef, ast.AsyncFunctionDef,
                             ast.ClassDef)):
            return preds
        if isinstance(expr, ast.BoolOp):
            preds = self._events(expr.values[0], stmt, preds, conditional,
                                 in_comp)
            for v in expr.values[1:]:
                preds = self._events(v, stmt, preds, True, in_comp)
            return preds
        if isinstance(expr, ast.IfExp):
            preds = self._events(expr.test, stmt, preds, conditional, in_comp)
            t = self._truth(expr.test)
            if t is True:
                return self._events(expr.body, stmt, preds, conditional,
                                    in_comp)
            if t is False:
                return self._events(expr.orelse, stmt, preds, conditional,
                                    in_comp)
            preds = self._events(expr.body, stmt, preds, True, in_comp)
            return self._events(expr.orelse, stmt, preds, True, in_comp)
        if isinstance(expr, (ast.ListComp, ast.SetComp, ast.GeneratorExp,
                             ast.DictComp)):
            for i, gen in enumerate(expr.generators):
                preds = self._events(gen.iter, stmt, preds,
                                     conditional or i > 0, in_comp or i > 0)
                for c in gen.ifs:
                    preds = self._events(c, stmt, preds, True, True)
            if isinstance(expr, ast.DictComp):
                preds = self._events(expr.key, stmt, preds, True, True)
                preds = self._events(expr.value, stmt, preds, True, True)
            else:
                preds = self._events(expr.elt, stmt, preds, True, True)
            return preds
        if isinstance(expr, ast.Call):
            preds = self._events(expr.func, stmt, preds, conditional, in_comp)
            for a in expr.args:
                preds = self._events(a, stmt, preds, conditional, in_comp)
            for k in expr.keywords:
                preds = self._events(k.value, stmt, preds, conditional,
                                     in_comp)
            n = self._new("call", expr, stmt, conditional=conditional,
                          in_comp=in_comp)
            self._link(preds, n)
            self._exc_edge(n)
            return [(n, "next")]
        if isinstance(expr, (ast.Yield, ast.YieldFrom)):
            preds = self._events(expr.value, stmt, preds, conditional, in_comp)
            n = self._new("yield", expr, stmt, conditional=conditional,
                          in_comp=in_comp)
            self._link(preds, n)
            if isinstance(expr, ast.YieldFrom):
                self._exc_edge(n)
            return [(n, "next")]
        if isinstance(expr, ast.Await):
            preds = self._events(expr.value, stmt, preds, conditional, in_comp)
            return preds
        for child in ast.iter_child_nodes(expr):
            if isinstance(child, (ast.expr, ast.keyword, ast.comprehension)):
                preds = self._events(child, stmt, preds, conditional, in_comp)
        return preds

    def _simple(self, stmt: ast.stmt,
                preds: list[tuple[Node, str]]) -> list[tuple[Node, str]]:
        for child in ast.iter_child_nodes(stmt):
            if isinstance(child, ast.expr):
                # targets are evaluated after the value but calls in targets
                # are rare; order is immaterial for the rules here
                pass
        exprs: list[ast.AST] = []
        if isinstance(stmt, ast.Assign):
            exprs = [stmt.value] + list(stmt.targets)
        elif isinstance(stmt, ast.AugAssign):
            exprs = [stmt.target, stmt.value]
        elif isinstance(stmt, ast.AnnAssign):
            exprs = [e for e in (stmt.value, stmt.target) if e is not None]
        else:
            exprs = [c for c in ast.iter_child_nodes(stmt)
                     if isinstance(c, ast.expr)]
        for e in exprs:
            preds = self._events(e, stmt, preds)
        n = self._new("stmt", stmt, stmt)
        self._link(preds, n)
        subs = any(
            isinstance(x, (ast.Subscript, ast.BinOp))
            for e in exprs
            for x in ast.walk(e)) or isinstance(
                stmt, (ast.Assert, ast.Delete, ast.Import, ast.ImportFrom))
        if subs and not isinstance(stmt, (ast.Raise, ast.Return)):
            self._exc_edge(n)
        return [(n, "next")]

    def _block(self, body: Iterable[ast.stmt],
               preds: list[tuple[Node, str]]) -> list[tuple[Node, str]]:
        for stmt in body:
            if not preds:
                break  # unreachable code
            preds = self._stmt(stmt, preds)
        return preds

    def _stmt(self, stmt: ast.stmt,
              preds: list[tuple[Node, str]]) -> list[tuple[Node, str]]:
        if isinstance(stmt, (ast.FunctionDef, ast.AsyncFunctionDef,
                             ast.ClassDef)):
            n = self._new("stmt", stmt, stmt)
            self._link(preds, n)
            return [(n, "next")]
        if isinstance(stmt, ast.Return):
            ends = self._simple(stmt, preds)
            for n, lab in ends:
                self._edge(n, self.exit, "return")
            return []
        if isinstance(stmt, ast.Raise):
            ends = self._simple(stmt, preds)
            for n, _ in ends:
                self._exc_edge(n, "raise")
            return []
        if isinstance(stmt, ast.Break):
            n = self._new("stmt", stmt, stmt)
            self._link(preds, n)
            if not self._loops:
                raise AnalysisError("break outside loop")
            self._loops[-1][1].append(n)
            return []
        if isinstance(stmt, ast.Continue):
            n = self._new("stmt", stmt, stmt)
            self._link(preds, n)
            self._edge(n, self._loops[-1][0], "continue")
            return []
        if isinstance(stmt, ast.If):
            preds = self._events(stmt.test, stmt, preds)
            t = self._new("test", stmt.test, stmt)
            self._link(preds, t)
            if _may_raise_expr(stmt.test):
                self._exc_edge(t)
            v = self._truth(stmt.test)
            ends: list[tuple[Node, str]] = []
            if v is not False:
                ends += self._block(stmt.body, [(t, "true")])
            else:
                self.pruned.append((stmt, "true-branch"))
            if v is not True:
                ends += self._block(stmt.orelse, [(t, "false")])
            else:
                self.pruned.append((stmt, "false-branch"))
            return ends
        if isinstance(stmt, ast.While):
            loop_head = self._new("loop", stmt, stmt)
            self._link(preds, loop_head)
            pre = self._events(stmt.test, stmt, [(loop_head, "next")])
            head = self._new("test", stmt.test, stmt)
            self._link(pre, head)
            if _may_raise_expr(stmt.test):
                self._exc_edge(head)
            v = self._truth(stmt.test)
            breaks: list[Node] = []
            self._loops.append((loop_head, breaks))
            if v is not False:
                body_ends = self._block(stmt.body, [(head, "true")])
                for n, lab in body_ends:
                    self._edge(n, loop_head, "loop")
            self._loops.pop()
            out: list[tuple[Node, str]] = []
            if v is not True:
                out += self._block(stmt.orelse, [(head, "false")])
            out += [(b, "break") for b in breaks]
            return out
        if isinstance(stmt, (ast.For, ast.AsyncFor)):
            preds = self._events(stmt.iter, stmt, preds)
            head = self._new("for", stmt, stmt)
            self._link(preds, head)
            self._exc_edge(head)  # pulling from the iterable may raise
            breaks = []
            self._loops.append((head, breaks))
            body_ends = self._block(stmt.body, [(head, "true")])
            for n, lab in body_ends:
                self._edge(n, head, "loop")
            self._loops.pop()
            out = self._block(stmt.orelse, [(head, "false")])
            out += [(b, "break") for b in breaks]
            return out
        if isinstance(stmt, (ast.With, ast.AsyncWith)):
            for item in stmt.items:
                preds = self._events(item.context_expr, stmt, preds)
                n = self._new("with", item, stmt)
                self._link(preds, n)
                self._exc_edge(n)
                preds = [(n, "next")]
            ends = self._block(stmt.body, preds)
            x = self._new("withexit", stmt, stmt)
            self._link(ends, x)
            return [(x, "next")] if ends else []
        if isinstance(stmt, ast.Try):
            handler_nodes = [self._new("except", h, stmt) for h in stmt.handlers]
            # exceptions not matched by any handler propagate outwards
            unmatched = self._new("unmatched", stmt, stmt)
            outer = self._handlers[-1] if self._handlers else None
            group = handler_nodes + [unmatched]
            if any(handler_catches_all(h) for h in stmt.handlers) and \
                    not stmt.finalbody:
                group = handler_nodes
            self._handlers.append(group)
            body_ends = self._block(stmt.body, preds)
            self._handlers.pop()
            if outer is not None:
                for h in outer:
                    self._edge(unmatched, h, "exc")
            else:
                self._edge(unmatched, self.raise_exit, "exc")
            ends = self._block(stmt.orelse, body_ends)
            for h, hn in zip(stmt.handlers, handler_nodes):
                ends += self._block(h.body, [(hn, "next")])
            if stmt.finalbody:
                # finally runs on the normal path and on the exceptional
                # path (approximated: unmatched -> finalbody -> propagate)
                f_ends = self._block(stmt.finalbody, ends + [(unmatched, "exc")])
                for n, _ in f_ends:
                    if outer is not None:
                        for h in outer:
                            self._edge(n, h, "exc")
                    else:
                        self._edge(n, self.raise_exit, "exc")
                return f_ends
            return ends
        if isinstance(stmt, ast.Match):
            preds = self._events(stmt.subject, stmt, preds)
            subj = self._new("test", stmt.subject, stmt)
            self._link(preds, subj)
            sval = const_eval(stmt.subject, self.env)
            ends = []
            has_default = False
            taken = False
            for case in stmt.cases:
                lits = case_literals(case.pattern)
                is_default = lits is None and isinstance(
                    case.pattern, ast.MatchAs) and case.pattern.pattern is None
                if sval is not UNKNOWN and sval not in (TRUTHY, FALSY):
                    if taken:
                        continue
                    matches = is_default or (lits is not None and sval in lits)
                    if lits is None and not is_default:
                        pm_ = pattern_matches(case.pattern, sval)
                        if pm_ is not None:
                            # a decidable structural pattern (tuple of
                            # literals / wildcards / alternatives)
                            matches = pm_
                            lits = []      # decided: skip when no match
                    if matches and case.guard is not None:
                        # `case x if guard`: the capture is bound to the subject
                        env2 = dict(self.env)
                        if isinstance(case.pattern, ast.MatchAs) and \
                                case.pattern.name:
                            env2[case.pattern.name] = sval
                        guard = case.guard
                        if isinstance(case.pattern, ast.MatchAs) and \
                                case.pattern.name:
                            # read the guard over the subject expression
                            from sa.model import clone
                            cap = case.pattern.name
                            subj_expr = stmt.subject

                            class _S(ast.NodeTransformer):

                                def visit_Name(self, node):
                                    return clone(subj_expr) if node.id == cap \
                                        else node

                            guard = ast.fix_missing_locations(
                                _S().visit(clone(case.guard)))
                        g = self.oracle(guard) if self.oracle else None
                        if g is None:
                            g = truth(case.guard, env2)
                        if g is False:
                            continue
                        if g is None:
                            matches = None  # may or may not be taken
                    if matches:
                        taken = True
                    elif matches is None:
                        pass
                    elif lits is not None or is_default:
                        continue
                c = self._new("case", case, stmt)
                self._edge(subj, c, "case")
                ends += self._block(case.body, [(c, "next")])
                if is_default and case.guard is None:
                    has_default = True
            if not has_default and not taken:
                ends.append((subj, "nomatch"))
            return ends
        if isinstance(stmt, (ast.Expr, ast.Assign, ast.AugAssign, ast.AnnAssign,
                             ast.Assert, ast.Delete, ast.Pass, ast.Import,
                             ast.ImportFrom, ast.Global, ast.Nonlocal)):
            ends = self._simple(stmt, preds)
            if isinstance(stmt, ast.Assert):
                self._exc_edge(ends[0][0])
            return ends
        raise AnalysisError(
            f"statement kind not modelled: {type(stmt).__name__} at "
            f"{self.fn.loc(stmt)}")

    # -- queries --------------------------------------------------------------
    def reachable(self, start: Iterable[Node], avoiding: Iterable[Node] = (),
                  follow: Callable[[Node, Node, str], bool] | None = None,
                  strict: bool = False) -> set[Node]:
        """Nodes reachable from `start` without entering a node of
        `avoiding`. With strict=True only nodes reached through at least one
        edge are returned (start nodes only if they lie on a cycle)."""
        avoid = set(avoiding)
        seen: set[Node] = set()
        stack: list[Node] = []
        if strict:
            for s in start:
                for m, lab in s.succ:
                    if m not in avoid and (follow is None or follow(s, m, lab)):
                        stack.append(m)
        else:
            stack = [s for s in start if s not in avoid]
        while stack:
            n = stack.pop()
            if n in seen:
                continue
            seen.add(n)
            for m, lab in n.succ:
                if m in avoid or m in seen:
                    continue
                if follow is not None and not follow(n, m, lab):
                    continue
                stack.append(m)
        return seen

    def live_nodes(self) -> set[Node]:
        return self.reachable([self.entry])

    def find(self, pred: Callable[[Node], bool]) -> list[Node]:
        live = self.live_nodes()
        return [n for n in self.nodes if n in live and pred(n)]

    def calls(self, pred: Callable[[ast.Call], bool] | None = None) -> list[Node]:
        return self.find(lambda n: n.kind == "call" and
                         (pred is None or pred(n.ast)))  # type: ignore[arg-type]

    def always_before(self, first: Iterable[Node], then: Iterable[Node],
                      normal_only: bool = False) -> list[Node]:
        """Nodes of `then` that can be reached from entry without passing a
        (non-conditional) node of `first`. Empty list == `first` dominates."""
        blockers = {n for n in first if not n.conditional}
        follow = None
        if normal_only:
            follow = lambda a, b, lab: lab != "exc"  # noqa: E731
        reach = self.reachable([self.entry], avoiding=blockers, follow=follow)
        return [n for n in then if n in reach]

    def path_to(self, target: Node, avoiding: Iterable[Node] = ()) -> list[Node]:
        """A witness path entry -> target avoiding the given nodes."""
        avoid = set(avoiding)
        prev: dict[Node, Node | None] = {self.entry: None}
        queue = [self.entry]
        while queue:
            n = queue.pop(0)
            if n is target:
                break
            for m, _ in n.succ:
                if m in avoid or m in prev:
                    continue
                prev[m] = n
                queue.append(m)
        if target not in prev:
            return []
        out = []
        cur: Node | None = target
        while cur is not None:
            out.append(cur)
            cur = prev[cur]
        return list(reversed(out))

    def describe_path(self, path: list[Node]) -> str:
        parts = []
        for n in path:
            if n.kind in ("entry", "exit", "raise"):
                parts.append(n.kind)
            elif n.kind in ("test", "for", "case", "except"):
                parts.append(f"L{n.lineno}:{n.kind}")
            elif n.kind == "stmt":
                parts.append(f"L{n.lineno}")
        # collapse duplicates
        out: list[str] = []
        for p in parts:
            if not out or out[-1] != p:
                out.append(p)
        return " -> ".join(out)


CATCH_ALL = {"BaseException"}


def handler_names(h: ast.ExceptHandler) -> list[str]:
    from sa.model import dotted
    if h.type is None:
        return ["<bare>"]
    elts = h.type.elts if isinstance(h.type, ast.Tuple) else [h.type]
    return [dotted(e) or short(e) for e in elts]


def handler_catches_all(h: ast.ExceptHandler) -> bool:
    return any(n == "<bare>" or n.rsplit(".", 1)[-1] in CATCH_ALL
               for n in handler_names(h))


def case_literals(pattern: ast.pattern) -> list[object] | None:
    """Literals matched by a case pattern: MatchValue / MatchOr of values."""
    if isinstance(pattern, ast.MatchValue) and isinstance(
            pattern.value, ast.Constant):
        return [pattern.value.value]
    if isinstance(pattern, ast.MatchSingleton):
        return [pattern.value]
    if isinstance(pattern, ast.MatchOr):
        out: list[object] = []
        for p in pattern.patterns:
            sub = case_literals(p)
            if sub is None:
                return None
            out += sub
        return out
    return None


def pattern_matches(pattern: ast.pattern, value: object) -> bool | None:
    """Does a known constant value match the pattern? None: not decidable
    (captures with sub-patterns, class / mapping patterns, star patterns)."""
    if isinstance(pattern, ast.MatchValue) and isinstance(
            pattern.value, ast.Constant):
        return value == pattern.value.value and (
            type(value) is type(pattern.value.value) or not isinstance(
                value, bool))
    if isinstance(pattern, ast.MatchSingleton):
        return value is pattern.value
    if isinstance(pattern, ast.MatchAs):
        if pattern.pattern is None:
            return True               # wildcard / bare capture
        return pattern_matches(pattern.pattern, value)
    if isinstance(pattern, ast.MatchOr):
        res = [pattern_matches(p, value) for p in pattern.patterns]
        if any(r is True for r in res):
            return True
        if all(r is False for r in res):
            return False
        return None
    if isinstance(pattern, ast.MatchSequence):
        if any(isinstance(p, ast.MatchStar) for p in pattern.patterns):
            return None
        if not isinstance(value, (tuple, list)):
            return False
        if len(value) != len(pattern.patterns):
            return False
        res = [pattern_matches(p, v) for p, v in zip(pattern.patterns, value)]
        if any(r is False for r in res):
            return False
        if all(r is True for r in res):
            return True
        return None
    return None


def contains(node: ast.AST, sub: ast.AST) -> bool:
    return any(n is sub for n in ast.walk(node))
