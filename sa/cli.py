"""./check <ID> [--tier quick|thorough] [--replay path]"""
from __future__ import annotations

import argparse
import importlib
import json
import os
import sys
import traceback

from sa.context import Context
from sa.model import AnalysisError
from sa.report import Report, finish, load_known


def main(argv: list[str] | None = None) -> int:
    ap = argparse.ArgumentParser()
    ap.add_argument("pid")
    ap.add_argument("--tier", default=os.environ.get("VERIF_TIER", "quick"),
                    choices=["quick", "thorough"])
    ap.add_argument("--replay", default=None)
    ap.add_argument("--no-selftest", action="store_true")
    args = ap.parse_args(argv)
    pid = args.pid.upper()
    try:
        seed = int(os.environ.get("VERIF_SEED", "0"))
    except ValueError:
        seed = 0
    try:
        mod = importlib.import_module(f"sa.rules.{pid.lower()}")
    except ModuleNotFoundError:
        print(f"ANALYSIS-ERROR property={pid} no rule module")
        return 2
    rep = Report(pid, args.tier)
    try:
        ctx = Context(tier=args.tier)
        rep.analysed = ctx.analysed()
        from sa.report import run_rules
        run_rules(mod, ctx, rep, pid)
        if rep.unmet_floors() and not rep.violations:
            raise AnalysisError("instance floor not met (rule matched fewer "
                                "sites than confirmed by hand): " +
                                "; ".join(rep.unmet_floors()))
        ctx.check_resolution_floor()
        rep.analysed = ctx.analysed()
        known = {f["key"] for f in load_known().get("findings", [])}
        unlisted = [v for v in rep.violations if v.key(pid) not in known]
        if args.tier == "thorough" and not args.no_selftest and not unlisted:
            from sa.selftest import run_selftests
            run_selftests(pid, mod, rep)
        if args.replay:
            want = json.loads(open(args.replay).read())["key"]
            hit = [v for v in rep.violations if v.key(pid) == want]
            print(f"REPLAY property={pid} key={want} "
                  f"{'still present' if hit else 'no longer present'}")
        return finish(rep, seed)
    except AnalysisError as e:
        print(f"ANALYSIS-ERROR property={pid} {e}")
        return 2
    except Exception:  # pylint: disable=broad-exception-caught
        tb = traceback.format_exc()
        print(f"ANALYSIS-ERROR property={pid} internal error in the checker")
        print(tb)
        return 2


if __name__ == "__main__":
    sys.exit(main())
