"""Flow-sensitive constant propagation for locals on the event CFG, used to
decide tests on flag variables (`problem = None ... if problem is not None`):
the CFG is rebuilt with the tests that became decidable until nothing
changes. Nothing is executed."""
from __future__ import annotations

import ast

from sa.cfg import CFG, FALSY, TRUTHY, UNKNOWN, const_eval, truth
from sa.model import FunctionInfo

TOP = object()


def _states(cfg: CFG, env: dict) -> dict:
    """node -> {local: constant} holding *before* the node."""
    before: dict = {cfg.entry: {}}
    work = [cfg.entry]
    while work:
        n = work.pop()
        st = dict(before[n])
        a = n.ast
        if n.kind == "stmt" and isinstance(a, (ast.Assign, ast.AnnAssign)) \
                and getattr(a, "value", None) is not None:
            tgts = a.targets if isinstance(a, ast.Assign) else [a.target]
            v = const_eval(a.value, {**env, **{k: x for k, x in st.items()
                                                if x is not TOP}})
            for t in tgts:
                if isinstance(t, ast.Name):
                    st[t.id] = TOP if v in (UNKNOWN, TRUTHY, FALSY) else v
                else:
                    for x in ast.walk(t):
                        if isinstance(x, ast.Name) and isinstance(
                                x.ctx, ast.Store):
                            st[x.id] = TOP
        elif a is not None and n.kind in ("stmt", "for", "with", "except",
                                          "test", "call"):
            if isinstance(a, ast.AugAssign):
                for x in ast.walk(a.target):
                    if isinstance(x, ast.Name):
                        st[x.id] = TOP
            if n.kind in ("for", "with", "except"):
                tg = getattr(a, "target", None)
                for x in ast.walk(tg) if tg is not None else []:
                    if isinstance(x, ast.Name):
                        st[x.id] = TOP
                if isinstance(a, ast.ExceptHandler) and a.name:
                    st[a.name] = TOP
            for w in ast.walk(a) if isinstance(a, ast.expr) else []:
                if isinstance(w, ast.NamedExpr) and isinstance(
                        w.target, ast.Name):
                    st[w.target.id] = TOP
        for m, _lab in n.succ:
            old = before.get(m)
            if old is None:
                before[m] = dict(st)
                work.append(m)
                continue
            new = {}
            for k in set(old) | set(st):
                a_, b_ = old.get(k, TOP), st.get(k, TOP)
                same = a_ is not TOP and b_ is not TOP and type(a_) is type(
                    b_) and a_ == b_
                new[k] = a_ if same else TOP
            if any(new.get(k) is not old.get(k) and new.get(k) != old.get(k)
                   or (new.get(k) is TOP) != (old.get(k, TOP) is TOP)
                   for k in new):
                before[m] = new
                work.append(m)
    return before


def refine(fn: FunctionInfo, env: dict | None = None, oracle=None,
           rounds: int = 4) -> CFG:
    """CFG of `fn` specialised on `env` / `oracle`, with tests on constant
    locals decided as well."""
    env = dict(env or {})
    decided: dict[int, bool] = {}

    def orc(e):
        if id(e) in decided:
            return decided[id(e)]
        return oracle(e) if oracle is not None else None

    cfg = CFG(fn, env=env, oracle=orc)
    for _ in range(rounds):
        states = _states(cfg, env)
        live = cfg.live_nodes()
        new = {}
        for n in cfg.nodes:
            if n.kind != "test" or n not in live or n.ast is None or \
                    id(n.ast) in decided or n not in states:
                continue
            if orc(n.ast) is not None:
                continue
            st = {k: v for k, v in states[n].items() if v is not TOP}
            if not st:
                continue
            v = truth(n.ast, {**env, **st})
            if v is not None:
                new[id(n.ast)] = v
        if not new:
            break
        decided.update(new)
        cfg = CFG(fn, env=env, oracle=orc)
    return cfg
