"""Evaluation of predicates over a declared dtype *name* (a string such as
"int16"), used to read dispatch on `attribute.dtype` whatever its syntactic
form: literal comparison, membership in a module-level table, NumPy type
hierarchy tests.  The NumPy facts are a frozen table; nothing is imported
or executed."""
from __future__ import annotations

import ast

from sa.model import dotted

# name -> (kind, itemsize)
DTYPES = {
    "bool": ("b", 1),
    "int8": ("i", 1), "int16": ("i", 2), "int32": ("i", 4), "int64": ("i", 8),
    "uint8": ("u", 1), "uint16": ("u", 2), "uint32": ("u", 4),
    "uint64": ("u", 8),
    "float16": ("f", 2), "float32": ("f", 4), "float64": ("f", 8),
    "float128": ("f", 16),
    "complex64": ("c", 8), "complex128": ("c", 16),
    "str": ("U", 0), "bytes": ("S", 0),
}
# abstract scalar types -> kinds
HIERARCHY = {
    "generic": "biufcSU", "number": "iufc", "integer": "iu",
    "signedinteger": "i", "unsignedinteger": "u", "inexact": "fc",
    "floating": "f", "complexfloating": "c", "bool_": "b", "flexible": "SU",
    "character": "SU", "str_": "U", "bytes_": "S",
}
UNKNOWN = object()


class DtypeEval:

    def __init__(self, subject: str, name: str, module_globals: dict):
        self.subject = subject      # dotted text of the dtype expression
        self.name = name            # the dtype name under evaluation
        self.globals = module_globals

    def mentions(self, e: ast.AST) -> bool:
        return any(dotted(n) == self.subject for n in ast.walk(e)
                   if isinstance(n, (ast.Name, ast.Attribute)))

    def ev(self, e: ast.AST):
        if isinstance(e, ast.Constant):
            return e.value
        d = dotted(e) if isinstance(e, (ast.Name, ast.Attribute)) else None
        if d == self.subject:
            return self.name
        if isinstance(e, ast.Name) and e.id in self.globals:
            return self.ev(self.globals[e.id])
        if d is not None and d.split(".")[-1] in HIERARCHY and d.split(
                ".")[0] in ("np", "numpy"):
            return ("abstract", d.split(".")[-1])
        if d is not None and d.split(".")[0] in ("np", "numpy") and \
                d.split(".")[-1] in DTYPES:
            return ("dtype", d.split(".")[-1])
        if isinstance(e, (ast.List, ast.Tuple, ast.Set)):
            vals = [self.ev(x) for x in e.elts]
            return UNKNOWN if any(v is UNKNOWN for v in vals) else vals
        if isinstance(e, ast.Dict):
            vals = [self.ev(k) for k in e.keys if k is not None]
            return UNKNOWN if any(v is UNKNOWN for v in vals) else vals
        if isinstance(e, ast.Attribute):
            base = self.ev(e.value)
            if isinstance(base, tuple) and base[0] == "dtype" and \
                    base[1] in DTYPES:
                kind, size = DTYPES[base[1]]
                if e.attr == "kind":
                    return kind
                if e.attr == "itemsize" and size:
                    return size
                if e.attr == "name":
                    return base[1]
            return UNKNOWN
        if isinstance(e, ast.UnaryOp) and isinstance(e.op, ast.Not):
            v = self.ev(e.operand)
            return UNKNOWN if v is UNKNOWN else (not v)
        if isinstance(e, ast.BoolOp):
            vals = [self.ev(v) for v in e.values]
            if isinstance(e.op, ast.And):
                if any(v is not UNKNOWN and not v for v in vals):
                    return False
                return UNKNOWN if any(v is UNKNOWN for v in vals) else True
            if any(v is not UNKNOWN and v for v in vals):
                return True
            return UNKNOWN if any(v is UNKNOWN for v in vals) else False
        if isinstance(e, ast.Compare) and len(e.ops) == 1:
            a, b = self.ev(e.left), self.ev(e.comparators[0])
            if a is UNKNOWN or b is UNKNOWN:
                return UNKNOWN
            op = e.ops[0]
            try:
                if isinstance(op, ast.Eq):
                    return a == b
                if isinstance(op, ast.NotEq):
                    return a != b
                if isinstance(op, ast.In):
                    return a in b
                if isinstance(op, ast.NotIn):
                    return a not in b
                if isinstance(op, ast.Lt):
                    return a < b
                if isinstance(op, ast.LtE):
                    return a <= b
                if isinstance(op, ast.Gt):
                    return a > b
                if isinstance(op, ast.GtE):
                    return a >= b
            except TypeError:
                return UNKNOWN
            return UNKNOWN
        if isinstance(e, ast.Call):
            f = dotted(e.func) or ""
            last = f.split(".")[-1]
            if last == "dtype" and f.split(".")[0] in ("np", "numpy") and \
                    len(e.args) == 1:
                v = self.ev(e.args[0])
                if isinstance(v, str):
                    return ("dtype", v) if v in DTYPES else UNKNOWN
                return v if isinstance(v, tuple) else UNKNOWN
            if last == "issubdtype" and len(e.args) == 2:
                a, b = self.ev(e.args[0]), self.ev(e.args[1])
                if isinstance(a, str) and a in DTYPES:
                    a = ("dtype", a)
                if isinstance(a, tuple) and a[0] == "dtype" and \
                        a[1] in DTYPES and isinstance(b, tuple):
                    kind = DTYPES[a[1]][0]
                    if b[0] == "abstract":
                        return kind in HIERARCHY[b[1]]
                    if b[0] == "dtype":
                        return a[1] == b[1]
                return UNKNOWN
            if isinstance(e.func, ast.Attribute) and e.func.attr in (
                    "startswith", "endswith") and len(e.args) == 1:
                s, p = self.ev(e.func.value), self.ev(e.args[0])
                if isinstance(s, str) and isinstance(p, (str, list)):
                    p = tuple(p) if isinstance(p, list) else p
                    return getattr(s, e.func.attr)(p)
                return UNKNOWN
            if last in ("frozenset", "set", "tuple", "list") and \
                    len(e.args) == 1:
                return self.ev(e.args[0])
            if last == "str" and len(e.args) == 1:
                return self.ev(e.args[0])
        return UNKNOWN

    def oracle(self, e: ast.AST):
        """CFG oracle: truth of a test that mentions the subject."""
        if not self.mentions(e):
            return None
        v = self.ev(e)
        if v is UNKNOWN:
            return None
        return bool(v)
