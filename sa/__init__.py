"""Static analysis machinery for the sedpack properties (see DESIGN.md)."""
