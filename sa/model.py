"""E1/E2 - program model of /repo/src/sedpack built from source text only.

Nothing here imports or executes sedpack. Every module is parsed with `ast`,
parents are linked, imports are resolved to dotted names, classes get an MRO
and functions (incl. nested ones) get a qualified name.
"""
from __future__ import annotations

import ast
import hashlib
import os
from pathlib import Path
from typing import Iterable, Iterator


class AnalysisError(Exception):
    """The analysis cannot proceed (anchor vanished, shape not understood).
    Reported as ANALYSIS-ERROR / exit 2, never as a violation."""


def repo_root() -> Path:
    return Path(os.environ.get("VERIF_REPO", "/repo"))


PKG = "sedpack"
SRC = "src"

# Generated FlatBuffers readers (consulted as data only).
GENERATED_PREFIXES = ("sedpack.io.flatbuffer.shardfile",
                      "sedpack.io.flatbuffer.unit_tests")


def link_parents(tree: ast.AST) -> None:
    for node in ast.walk(tree):
        for child in ast.iter_child_nodes(node):
            child._parent = node  # type: ignore[attr-defined]


def clone(node):
    """Deep copy of a syntax (sub)tree. Unlike copy.deepcopy it does not
    follow the `_parent` link of the root (which would copy the whole
    module); parent links inside the copy are set."""
    if isinstance(node, ast.AST):
        new = node.__class__()
        for f in node._fields:
            if hasattr(node, f):
                v = clone(getattr(node, f))
                setattr(new, f, v)
                # parent links inside the copy (the copy's root has none)
                for c in (v if isinstance(v, list) else [v]):
                    if isinstance(c, ast.AST):
                        c._parent = new  # type: ignore[attr-defined]
        for a in node._attributes:
            if hasattr(node, a):
                setattr(new, a, getattr(node, a))
        return new
    if isinstance(node, list):
        return [clone(x) for x in node]
    return node


def parent(node: ast.AST) -> ast.AST | None:
    return getattr(node, "_parent", None)


def ancestors(node: ast.AST) -> Iterator[ast.AST]:
    p = parent(node)
    while p is not None:
        yield p
        p = parent(p)


def src(node: ast.AST | None) -> str:
    if node is None:
        return "<none>"
    try:
        return ast.unparse(node)
    except Exception:  # pragma: no cover
        return f"<{type(node).__name__}>"


def short(node: ast.AST | None, n: int = 90) -> str:
    s = " ".join(src(node).split())
    return s if len(s) <= n else s[:n - 3] + "..."


def dotted(expr: ast.AST) -> str | None:
    """`a.b.c` -> "a.b.c" for Name/Attribute chains, else None."""
    parts: list[str] = []
    while isinstance(expr, ast.Attribute):
        parts.append(expr.attr)
        expr = expr.value
    if isinstance(expr, ast.Name):
        parts.append(expr.id)
        return ".".join(reversed(parts))
    return None


class FunctionInfo:

    def __init__(self, module: "Module", qualname: str,
                 node: ast.FunctionDef | ast.AsyncFunctionDef | ast.Lambda,
                 cls: "ClassInfo | None", outer: "FunctionInfo | None"):
        self.module = module
        self.qualname = qualname
        self.node = node
        self.cls = cls
        self.outer = outer

    @property
    def name(self) -> str:
        return self.qualname.rsplit(".", 1)[-1]

    @property
    def fq(self) -> str:
        return f"{self.module.name}:{self.qualname}"

    @property
    def path(self) -> str:
        return self.module.relpath

    @property
    def lineno(self) -> int:
        return self.node.lineno

    def loc(self, node: ast.AST | None = None) -> str:
        line = getattr(node, "lineno", None) or self.node.lineno
        return f"{self.module.relpath}:{line}"

    @property
    def decorators(self) -> list[str]:
        if isinstance(self.node, ast.Lambda):
            return []
        return [dotted(d) or short(d) for d in self.node.decorator_list]

    def is_generator(self) -> bool:
        return any(isinstance(n, (ast.Yield, ast.YieldFrom))
                   for n in self.body_nodes())

    @property
    def is_static(self) -> bool:
        return "staticmethod" in self.decorators

    @property
    def is_classmethod(self) -> bool:
        return "classmethod" in self.decorators

    def params(self) -> list[str]:
        a = self.node.args
        names = [x.arg for x in a.posonlyargs + a.args]
        if a.vararg:
            names.append(a.vararg.arg)
        names += [x.arg for x in a.kwonlyargs]
        if a.kwarg:
            names.append(a.kwarg.arg)
        return names

    def param_annotation(self, name: str) -> ast.AST | None:
        a = self.node.args
        for x in a.posonlyargs + a.args + a.kwonlyargs:
            if x.arg == name:
                return x.annotation
        return None

    def param_default(self, name: str) -> ast.AST | None:
        a = self.node.args
        pos = a.posonlyargs + a.args
        for i, x in enumerate(pos):
            if x.arg == name:
                j = i - (len(pos) - len(a.defaults))
                return a.defaults[j] if j >= 0 else None
        for x, d in zip(a.kwonlyargs, a.kw_defaults):
            if x.arg == name:
                return d
        return None

    def body_nodes(self) -> Iterator[ast.AST]:
        """All nodes of this function, not descending into nested defs,
        lambdas or classes."""
        if isinstance(self.node, ast.Lambda):
            stack: list[ast.AST] = [self.node.body]
        else:
            stack = list(reversed(self.node.body))
        while stack:
            n = stack.pop()
            yield n
            for c in reversed(list(ast.iter_child_nodes(n))):
                if isinstance(c, (ast.FunctionDef, ast.AsyncFunctionDef,
                                  ast.Lambda, ast.ClassDef)):
                    continue
                stack.append(c)

    def calls(self) -> list[ast.Call]:
        return [n for n in self.body_nodes() if isinstance(n, ast.Call)]

    def __repr__(self) -> str:
        return f"<fn {self.fq}>"


class ClassInfo:

    def __init__(self, module: "Module", name: str, node: ast.ClassDef):
        self.module = module
        self.name = name
        self.node = node
        self.methods: dict[str, FunctionInfo] = {}
        self.base_names: list[str] = []  # canonical dotted names
        # field name -> annotation node (class level and self.x: T in methods)
        self.fields: dict[str, ast.AST] = {}
        self.field_defaults: dict[str, ast.AST] = {}

    @property
    def fq(self) -> str:
        return f"{self.module.name}.{self.name}"

    def __repr__(self) -> str:
        return f"<class {self.fq}>"


class Module:

    def __init__(self, name: str, relpath: str, source: str,
                 tree: ast.Module | None = None):
        self.name = name
        self.relpath = relpath
        self.source = source
        self.tree = tree if tree is not None else ast.parse(source,
                                                            filename=relpath)
        link_parents(self.tree)
        self.imports: dict[str, str] = {}
        self.functions: dict[str, FunctionInfo] = {}
        self.classes: dict[str, ClassInfo] = {}
        self.globals: dict[str, ast.AST] = {}  # module-level NAME = expr
        self.is_package = relpath.endswith("__init__.py")
        self._index()

    # -- indexing ---------------------------------------------------------
    def _index(self) -> None:
        pkg = self.name if self.is_package else self.name.rpartition(".")[0]
        for node in ast.walk(self.tree):
            if isinstance(node, ast.Import):
                for a in node.names:
                    if a.asname:
                        self.imports[a.asname] = a.name
                    else:
                        top = a.name.split(".")[0]
                        self.imports.setdefault(top, top)
            elif isinstance(node, ast.ImportFrom):
                base = node.module or ""
                if node.level:
                    parts = pkg.split(".")
                    up = parts[:len(parts) - (node.level - 1)]
                    base = ".".join(up + ([node.module] if node.module else []))
                for a in node.names:
                    self.imports[a.asname or a.name] = f"{base}.{a.name}"
        for stmt in self.tree.body:
            if isinstance(stmt, ast.Assign) and len(stmt.targets) == 1 \
                    and isinstance(stmt.targets[0], ast.Name):
                self.globals[stmt.targets[0].id] = stmt.value
            elif isinstance(stmt, ast.AnnAssign) and isinstance(
                    stmt.target, ast.Name) and stmt.value is not None:
                self.globals[stmt.target.id] = stmt.value
        self._index_body(self.tree.body, prefix="", cls=None, outer=None)

    def _index_body(self, body: Iterable[ast.AST], prefix: str,
                    cls: ClassInfo | None, outer: FunctionInfo | None) -> None:
        for stmt in body:
            for node in self._defs_in(stmt):
                if isinstance(node, ast.ClassDef):
                    ci = ClassInfo(self, prefix + node.name, node)
                    self.classes[ci.name] = ci
                    for item in node.body:
                        if isinstance(item, ast.AnnAssign) and isinstance(
                                item.target, ast.Name):
                            ci.fields[item.target.id] = item.annotation
                            if item.value is not None:
                                ci.field_defaults[item.target.id] = item.value
                    self._index_body(node.body, prefix + node.name + ".", ci,
                                     outer)
                elif isinstance(node, (ast.FunctionDef, ast.AsyncFunctionDef)):
                    fi = FunctionInfo(self, prefix + node.name, node, cls,
                                      outer)
                    self.functions[fi.qualname] = fi
                    if cls is not None and prefix == cls.name + ".":
                        cls.methods[node.name] = fi
                        self._collect_self_fields(fi, cls)
                    self._index_body(node.body,
                                     prefix + node.name + ".<locals>.", None,
                                     fi)
                    # lambdas get a synthetic name by line/col
                    for sub in fi.body_nodes():
                        pass
            # lambdas directly inside this statement (not inside nested defs)
        # lambdas are indexed lazily by lambdas_in()

    @staticmethod
    def _defs_in(stmt: ast.AST) -> Iterator[ast.AST]:
        """Function / class definitions at this statement, looking through
        compound statements (if/try/with/for) but not into other defs."""
        if isinstance(stmt,
                      (ast.FunctionDef, ast.AsyncFunctionDef, ast.ClassDef)):
            yield stmt
            return
        for child in ast.iter_child_nodes(stmt):
            if isinstance(child, ast.stmt):
                yield from Module._defs_in(child)
            elif isinstance(child, (ast.ExceptHandler, ast.match_case)):
                for s in child.body:
                    yield from Module._defs_in(s)

    @staticmethod
    def _collect_self_fields(fi: FunctionInfo, cls: ClassInfo) -> None:
        for n in fi.body_nodes():
            if isinstance(n, ast.AnnAssign) and isinstance(
                    n.target, ast.Attribute) and isinstance(
                        n.target.value, ast.Name) and n.target.value.id == "self":
                cls.fields.setdefault(n.target.attr, n.annotation)
            elif isinstance(n, ast.Assign) and len(n.targets) == 1 and \
                    isinstance(n.targets[0], ast.Attribute) and isinstance(
                        n.targets[0].value, ast.Name) and \
                    n.targets[0].value.id == "self" and isinstance(
                        n.value, ast.Name) and fi.name == "__init__":
                ann = fi.param_annotation(n.value.id)
                if ann is not None:
                    cls.fields.setdefault(n.targets[0].attr, ann)

    def func(self, qualname: str) -> FunctionInfo:
        try:
            return self.functions[qualname]
        except KeyError:
            raise AnalysisError(
                f"anchor vanished: function {self.name}:{qualname}") from None

    def cls(self, name: str) -> ClassInfo:
        try:
            return self.classes[name]
        except KeyError:
            raise AnalysisError(
                f"anchor vanished: class {self.name}.{name}") from None


class Repo:
    """All Python modules of the package (with optional in-memory overlay)."""

    def __init__(self, root: Path | None = None,
                 overlay: dict[str, str] | None = None,
                 trees: dict[str, ast.Module] | None = None):
        self.root = Path(root) if root else repo_root()
        self.overlay = dict(overlay or {})
        self.trees = trees or {}
        self.modules: dict[str, Module] = {}
        self.parse_errors: list[str] = []
        base = self.root / SRC
        files = sorted((base / PKG).rglob("*.py"))
        if not files:
            raise AnalysisError(f"no python sources under {base / PKG}")
        for f in files:
            rel = str(f.relative_to(self.root))
            parts = list(f.relative_to(base).with_suffix("").parts)
            if parts[-1] == "__init__":
                parts = parts[:-1]
            name = ".".join(parts)
            text = self.overlay.get(rel)
            if text is None:
                text = f.read_text(encoding="utf-8")
            try:
                self.modules[name] = Module(name, rel, text,
                                            tree=self.trees.get(name))
            except SyntaxError as e:
                raise AnalysisError(f"cannot parse {rel}: {e}") from e
        self._resolve_bases()

    # -- digest of what was analysed ------------------------------------
    def digest(self) -> str:
        h = hashlib.sha256()
        for name in sorted(self.modules):
            h.update(name.encode())
            h.update(self.modules[name].source.encode())
        return h.hexdigest()[:16]

    def hand_written(self) -> list[Module]:
        return [
            m for n, m in sorted(self.modules.items())
            if not n.startswith(GENERATED_PREFIXES)
        ]

    def stats(self) -> dict[str, int]:
        mods = self.hand_written()
        return {
            "modules": len(self.modules),
            "hand_written_modules": len(mods),
            "functions": sum(len(m.functions) for m in mods),
            "classes": sum(len(m.classes) for m in mods),
            "call_sites": sum(
                len(f.calls()) for m in mods for f in m.functions.values()),
        }

    # -- lookup -----------------------------------------------------------
    def module(self, name: str) -> Module:
        try:
            return self.modules[name]
        except KeyError:
            raise AnalysisError(f"anchor vanished: module {name}") from None

    def func(self, fq: str) -> FunctionInfo:
        mod, _, qual = fq.partition(":")
        try:
            return self.module(mod).func(qual)
        except AnalysisError:
            # moved to another module (see inline.normalise_function_renames)
            from sa.inline import MOVED
            for new_fq, old_fq in MOVED.items():
                if old_fq == fq:
                    m2, _, q2 = new_fq.partition(":")
                    return self.module(m2).func(q2)
            raise

    def cls(self, fq: str) -> ClassInfo:
        mod, _, name = fq.partition(":")
        return self.module(mod).cls(name)

    def all_functions(self, hand_written: bool = True) -> list[FunctionInfo]:
        mods = self.hand_written() if hand_written else list(
            self.modules.values())
        return [f for m in mods for f in m.functions.values()]

    # -- name resolution --------------------------------------------------
    def canonical(self, name: str, _depth: int = 0) -> str:
        """Follow re-exports: sedpack.io.itertools.LazyPool ->
        sedpack.io.itertools.lazy_pool.LazyPool. External names unchanged."""
        if _depth > 10:
            return name
        parts = name.split(".")
        # longest module prefix
        for i in range(len(parts), 0, -1):
            modname = ".".join(parts[:i])
            if modname in self.modules:
                rest = parts[i:]
                if not rest:
                    return modname
                mod = self.modules[modname]
                head = rest[0]
                if head in mod.classes or head in mod.functions or \
                        head in mod.globals:
                    return name
                if head in mod.imports:
                    target = mod.imports[head]
                    return self.canonical(".".join([target] + rest[1:]),
                                          _depth + 1)
                return name
        return name

    def qualify(self, module: Module, expr: ast.AST) -> str | None:
        """Dotted canonical name an expression refers to, through the
        module's imports. None when the head is not an imported/global name."""
        d = dotted(expr)
        if d is None:
            return None
        head, _, rest = d.partition(".")
        if head in module.imports:
            full = module.imports[head] + ("." + rest if rest else "")
            return self.canonical(full)
        if head in module.classes or head in module.functions or \
                head in module.globals:
            return self.canonical(f"{module.name}.{d}")
        return None

    def lookup(self, canonical_name: str):
        """canonical dotted name -> FunctionInfo | ClassInfo | None."""
        parts = canonical_name.split(".")
        for i in range(len(parts), 0, -1):
            modname = ".".join(parts[:i])
            if modname in self.modules:
                mod = self.modules[modname]
                rest = ".".join(parts[i:])
                if rest in mod.functions:
                    return mod.functions[rest]
                if rest in mod.classes:
                    return mod.classes[rest]
                # Class.method
                head, _, tail = rest.partition(".")
                if head in mod.classes and tail:
                    return self.find_method(mod.classes[head], tail)
                return None
        return None

    def _resolve_bases(self) -> None:
        for mod in self.modules.values():
            for ci in mod.classes.values():
                for b in ci.node.bases:
                    base = b.value if isinstance(b, ast.Subscript) else b
                    q = self.qualify(mod, base)
                    ci.base_names.append(q or (dotted(base) or short(base)))

    def mro(self, ci: ClassInfo) -> list[ClassInfo]:
        """Linearisation good enough for single/mixin inheritance here:
        depth-first, left to right, duplicates keep their last position
        (which is what C3 gives for the diamond Dataset has)."""
        order: list[ClassInfo] = []

        def visit(c: ClassInfo) -> None:
            order.append(c)
            for b in c.base_names:
                t = self.lookup(b)
                if isinstance(t, ClassInfo):
                    visit(t)

        visit(ci)
        seen: set[str] = set()
        out: list[ClassInfo] = []
        for c in reversed(order):
            if c.fq not in seen:
                seen.add(c.fq)
                out.append(c)
        return list(reversed(out))

    def find_method(self, ci: ClassInfo, name: str) -> FunctionInfo | None:
        for c in self.mro(ci):
            if name in c.methods:
                return c.methods[name]
        return None

    def find_field(self, ci: ClassInfo, name: str) -> ast.AST | None:
        for c in self.mro(ci):
            if name in c.fields:
                return c.fields[name]
        return None

    def subclasses(self, ci: ClassInfo) -> list[ClassInfo]:
        out = []
        for mod in self.modules.values():
            for c in mod.classes.values():
                if c is not ci and ci in self.mro(c):
                    out.append(c)
        return out

    def external_bases(self, ci: ClassInfo) -> list[str]:
        out: list[str] = []
        for c in self.mro(ci):
            for b in c.base_names:
                if not isinstance(self.lookup(b), ClassInfo):
                    out.append(b)
        return out
