"""E1/E2 - annotation driven type inference and call resolution.

The package is fully annotated (ships py.typed); mypy is not available in
this sandbox, so receivers are typed from the repository's own annotations.
Anything not described by an annotation stays unresolved and is counted.
"""
from __future__ import annotations

import ast
from dataclasses import dataclass, field

from sa.model import (ClassInfo, FunctionInfo, Module, Repo, dotted, short,
                      src)


@dataclass(frozen=True)
class TypeRef:
    name: str  # canonical dotted name ("sedpack.io...ShardsList", "pathlib.Path", "dict")
    args: tuple["TypeRef", ...] = ()

    def __str__(self) -> str:
        if self.args:
            return f"{self.name}[{', '.join(map(str, self.args))}]"
        return self.name


@dataclass
class Target:
    kind: str  # internal | class | external | method | unknown
    name: str
    fn: FunctionInfo | None = None
    cls: ClassInfo | None = None
    recv_type: TypeRef | None = None
    recv_src: str = ""

    def __str__(self) -> str:
        return f"{self.kind}:{self.name}"


BUILTIN_CONTAINERS = {
    "list", "dict", "set", "tuple", "frozenset", "defaultdict", "Iterable",
    "Iterator", "AsyncIterator", "AsyncIterable", "Sequence", "Mapping",
    "Generator", "deque"
}

BUILTINS = {
    "len", "list", "dict", "set", "tuple", "sorted", "reversed", "zip", "map",
    "filter", "enumerate", "range", "iter", "next", "aiter", "anext", "open",
    "str", "int", "float", "bool", "bytes", "bytearray", "memoryview",
    "isinstance", "issubclass", "type", "sum", "min", "max", "any", "all",
    "print", "repr", "hash", "id", "getattr", "setattr", "hasattr", "super",
    "abs", "round", "divmod", "vars", "dir", "callable", "frozenset",
    "ValueError", "TypeError", "KeyError", "IndexError", "RuntimeError",
    "NotImplementedError", "FileNotFoundError", "FileExistsError",
    "StopIteration", "StopAsyncIteration", "AssertionError", "Exception",
    "BaseException", "OSError",
}


class Resolver:

    def __init__(self, repo: Repo):
        self.repo = repo
        self._env_cache: dict[str, dict[str, TypeRef]] = {}
        self.stats = {"calls": 0, "resolved": 0, "unresolved": []}

    # -- annotations ------------------------------------------------------
    def ann_type(self, module: Module, ann: ast.AST | None) -> TypeRef | None:
        if ann is None:
            return None
        if isinstance(ann, ast.Constant):
            if isinstance(ann.value, str):
                try:
                    return self.ann_type(module,
                                         ast.parse(ann.value, mode="eval").body)
                except SyntaxError:
                    return None
            return None
        if isinstance(ann, ast.BinOp) and isinstance(ann.op, ast.BitOr):
            left = self.ann_type(module, ann.left)
            right = self.ann_type(module, ann.right)
            for t in (left, right):
                if t is not None and t.name != "None":
                    return t
            return None
        if isinstance(ann, ast.Subscript):
            base = dotted(ann.value)
            if base in ("Optional", "typing.Optional"):
                return self.ann_type(module, ann.slice)
            if base in ("Union", "typing.Union"):
                elts = ann.slice.elts if isinstance(ann.slice,
                                                    ast.Tuple) else [ann.slice]
                for e in elts:
                    t = self.ann_type(module, e)
                    if t is not None and t.name != "None":
                        return t
                return None
            head = self.ann_type(module, ann.value)
            if head is None:
                return None
            elts = ann.slice.elts if isinstance(ann.slice,
                                                ast.Tuple) else [ann.slice]
            args = []
            for e in elts:
                if isinstance(e, ast.Constant) and e.value is Ellipsis:
                    continue
                t = self.ann_type(module, e)
                args.append(t if t is not None else TypeRef("?"))
            return TypeRef(head.name, tuple(args))
        d = dotted(ann)
        if d is None:
            return None
        if d == "None":
            return TypeRef("None")
        q = self.repo.qualify(module, ann)
        if q is not None:
            # type alias defined as a module global? keep the name
            return TypeRef(q)
        return TypeRef(d)

    def class_of(self, t: TypeRef | None) -> ClassInfo | None:
        if t is None:
            return None
        obj = self.repo.lookup(t.name)
        return obj if isinstance(obj, ClassInfo) else None

    # -- local environment ------------------------------------------------
    def env(self, fn: FunctionInfo) -> dict[str, TypeRef]:
        key = fn.fq
        if key in self._env_cache:
            return self._env_cache[key]
        env: dict[str, TypeRef] = {}
        self._env_cache[key] = env
        if fn.outer is not None:
            env.update(self.env(fn.outer))
        mod = fn.module
        params = fn.params()
        for p in params:
            t = self.ann_type(mod, fn.param_annotation(p))
            if t is not None:
                env[p] = t
        if fn.cls is not None and params and not fn.is_static:
            first = params[0]
            if first in ("self", "cls", "slf"):
                env[first] = TypeRef(fn.cls.fq)
        # two passes so that later inference can use earlier bindings
        for _ in range(2):
            for n in fn.body_nodes():
                if isinstance(n, ast.AnnAssign) and isinstance(
                        n.target, ast.Name):
                    t = self.ann_type(mod, n.annotation)
                    if t is not None:
                        env.setdefault(n.target.id, t)
                elif isinstance(n, ast.Assign) and len(
                        n.targets) == 1 and isinstance(n.targets[0], ast.Name):
                    name = n.targets[0].id
                    if name not in env:
                        t = self.infer(fn, n.value, env)
                        if t is not None:
                            env[name] = t
                elif isinstance(n, (ast.For, ast.AsyncFor, ast.comprehension)):
                    it = self.infer(fn, n.iter, env)
                    self._bind_iter_target(n.target, it, env)
                elif isinstance(n, (ast.With, ast.AsyncWith)):
                    for item in n.items:
                        if isinstance(item.optional_vars, ast.Name):
                            t = self.infer(fn, item.context_expr, env)
                            if t is not None:
                                env.setdefault(item.optional_vars.id, t)
        return env

    def _bind_iter_target(self, target: ast.AST, it: TypeRef | None,
                          env: dict[str, TypeRef]) -> None:
        if it is None:
            return
        elem: TypeRef | None = None
        if it.name in ("dict_items", ) and len(it.args) == 2:
            elem = TypeRef("tuple", it.args)
        elif it.args and it.name.rsplit(".", 1)[-1] in BUILTIN_CONTAINERS:
            if it.name.rsplit(".", 1)[-1] in ("dict", "defaultdict",
                                               "Mapping"):
                elem = it.args[0]
            else:
                elem = it.args[0] if it.name != "tuple" else it.args[0]
        if elem is None:
            return
        if isinstance(target, ast.Name):
            env.setdefault(target.id, elem)
        elif isinstance(target, ast.Tuple) and elem.name == "tuple":
            for sub, t in zip(target.elts, elem.args):
                if isinstance(sub, ast.Name) and t.name != "?":
                    env.setdefault(sub.id, t)

    # -- expression types -------------------------------------------------
    def infer(self, fn: FunctionInfo, expr: ast.AST,
              env: dict[str, TypeRef] | None = None) -> TypeRef | None:
        if env is None:
            env = self.env(fn)
        mod = fn.module
        if isinstance(expr, ast.Name):
            if expr.id in env:
                return env[expr.id]
            q = self.repo.qualify(mod, expr)
            if q is not None:
                obj = self.repo.lookup(q)
                if isinstance(obj, ClassInfo):
                    return TypeRef("type", (TypeRef(obj.fq), ))
            return None
        if isinstance(expr, ast.Attribute):
            base = self.infer(fn, expr.value, env)
            ci = self.class_of(base)
            if base is not None and base.name == "type" and base.args:
                ci = self.class_of(base.args[0])
            if ci is not None:
                ann = self.repo.find_field(ci, expr.attr)
                if ann is not None:
                    owner = next(c for c in self.repo.mro(ci)
                                 if expr.attr in c.fields)
                    return self.ann_type(owner.module, ann)
                m = self.repo.find_method(ci, expr.attr)
                if m is not None and "property" in m.decorators:
                    return self.ann_type(m.module, m.node.returns)
            return None
        if isinstance(expr, ast.Subscript):
            base = self.infer(fn, expr.value, env)
            if base is not None and base.args:
                tail = base.name.rsplit(".", 1)[-1]
                if tail in ("dict", "defaultdict", "Mapping") and len(
                        base.args) == 2:
                    return base.args[1]
                if tail in ("list", "Sequence", "tuple") and not isinstance(
                        expr.slice, ast.Slice):
                    return base.args[0]
                if isinstance(expr.slice, ast.Slice):
                    return base
            return None
        if isinstance(expr, ast.Call):
            f = expr.func
            if isinstance(f, ast.Attribute) and f.attr in ("values", "items",
                                                           "keys"):
                base = self.infer(fn, f.value, env)
                if base is not None and len(base.args) == 2:
                    if f.attr == "values":
                        return TypeRef("list", (base.args[1], ))
                    if f.attr == "keys":
                        return TypeRef("list", (base.args[0], ))
                    return TypeRef("dict_items", base.args)
            for t in self.resolve_call(fn, expr, count=False):
                if t.kind == "class" and t.cls is not None:
                    return TypeRef(t.cls.fq)
                if t.kind == "internal" and t.fn is not None and not isinstance(
                        t.fn.node, ast.Lambda):
                    rt = self.ann_type(t.fn.module, t.fn.node.returns)
                    if rt is not None and rt.name.endswith("Self") and \
                            t.fn.cls is not None:
                        return TypeRef(t.fn.cls.fq)
                    return rt
                if t.kind == "external":
                    if t.name in ("list", "sorted") and expr.args:
                        inner = self.infer(fn, expr.args[0], env)
                        if inner is not None and inner.args:
                            return TypeRef("list", (inner.args[0], ))
                    if t.name in ("pathlib.Path", ):
                        return TypeRef("pathlib.Path")
            return None
        if isinstance(expr, ast.BinOp) and isinstance(expr.op, ast.Div):
            left = self.infer(fn, expr.left, env)
            if left is not None and left.name == "pathlib.Path":
                return left
            right = self.infer(fn, expr.right, env)
            if right is not None and right.name == "pathlib.Path":
                return right
        if isinstance(expr, ast.Await):
            return self.infer(fn, expr.value, env)
        return None

    # -- calls --------------------------------------------------------------
    def resolve_ref(self, fn: FunctionInfo, expr: ast.AST) -> list[Target]:
        """What function/class/external name does `expr` denote?"""
        mod = fn.module
        env = self.env(fn)
        if isinstance(expr, ast.Lambda):
            return [Target("lambda", f"<lambda@{expr.lineno}>")]
        if isinstance(expr, ast.Name):
            # local nested function?
            f: FunctionInfo | None = fn
            while f is not None:
                q = f"{f.qualname}.<locals>.{expr.id}"
                if q in mod.functions:
                    return [Target("internal", mod.functions[q].fq,
                                   fn=mod.functions[q])]
                f = f.outer
            if expr.id in env:
                t = env[expr.id]
                return [Target("value", expr.id, recv_type=t)]
            # a local bound once to a function reference (possibly a
            # conditional expression of references)
            fdefs = self._all_defs(fn, expr.id)
            if fdefs:
                refs: list[ast.AST] = []
                for d in fdefs:
                    r = self._function_refs(d)
                    if not r:
                        refs = []
                        break
                    refs += r
                if refs:
                    out: list[Target] = []
                    for r in refs:
                        if isinstance(r, ast.Name) and r.id == expr.id:
                            continue
                        out += self.resolve_ref(fn, r)
                    if out and all(t.kind in ("internal", "class", "external")
                                   for t in out):
                        return out
            q = self.repo.qualify(mod, expr)
            if q is not None:
                return [self._target_of_name(q)]
            if expr.id in BUILTINS:
                return [Target("external", expr.id)]
            return [Target("unknown", expr.id)]
        if isinstance(expr, ast.Attribute):
            q = self.repo.qualify(mod, expr)
            head = dotted(expr)
            if q is not None and head is not None and head.split(
                    ".")[0] not in env:
                return [self._target_of_name(q)]
            recv = self.infer(fn, expr.value, env)
            rsrc = short(expr.value, 60)
            if isinstance(expr.value, ast.Call) and isinstance(
                    expr.value.func, ast.Name) and expr.value.func.id == "super" \
                    and fn.cls is not None:
                mro = self.repo.mro(fn.cls)[1:]
                for c in mro:
                    if expr.attr in c.methods:
                        return [Target("internal", c.methods[expr.attr].fq,
                                       fn=c.methods[expr.attr])]
                return [Target("method", expr.attr, recv_src="super()")]
            ci = self.class_of(recv)
            if recv is not None and recv.name == "type" and recv.args:
                ci = self.class_of(recv.args[0])
            if ci is not None:
                out: list[Target] = []
                m = self.repo.find_method(ci, expr.attr)
                if m is not None:
                    out.append(Target("internal", m.fq, fn=m, recv_type=recv))
                for sub in self.repo.subclasses(ci):
                    if expr.attr in sub.methods:
                        out.append(
                            Target("internal", sub.methods[expr.attr].fq,
                                   fn=sub.methods[expr.attr], recv_type=recv))
                if out:
                    return out
                ext = self.repo.external_bases(ci)
                return [
                    Target("method", expr.attr, recv_type=recv, recv_src=rsrc)
                ] if ext or True else []
            return [Target("method", expr.attr, recv_type=recv, recv_src=rsrc)]
        if isinstance(expr, ast.Subscript):
            # e.g. _SHARD_FILE_TYPE_TO_CLASS[...](...), queue.Queue[U]()
            while isinstance(expr.value, ast.Subscript):
                expr = expr.value      # Alias[T][U]: parametrised twice
            q = self.repo.qualify(mod, expr.value)
            if q is not None:
                obj = self.repo.lookup(q)
                if obj is None:
                    owner, _, gname = q.rpartition(".")
                    gm = self.repo.modules.get(owner)
                    if gm is not None and isinstance(gm.globals.get(gname),
                                                     ast.Dict):
                        out = []
                        for v in gm.globals[gname].values:
                            out += self.resolve_ref_in_module(gm, v)
                        if out:
                            return out
                return [self._target_of_name(q)]
        return [Target("unknown", short(expr, 60))]

    def _all_defs(self, fn: FunctionInfo, name: str) -> list[ast.AST]:
        """Values of all plain assignments to the local `name`; [] when it
        is also bound in another way (parameter, loop target, ...)."""
        if name in fn.params():
            return []
        out: list[ast.AST] = []
        for n in fn.body_nodes():
            tgts: list[ast.AST] = []
            val = None
            if isinstance(n, ast.Assign):
                tgts, val = n.targets, n.value
            elif isinstance(n, ast.AnnAssign):
                tgts, val = [n.target], n.value
            elif isinstance(n, (ast.For, ast.AsyncFor, ast.AugAssign)):
                tgts, val = [n.target], None
            elif isinstance(n, (ast.With, ast.AsyncWith)):
                tgts = [i.optional_vars for i in n.items if i.optional_vars]
            for t in tgts:
                if isinstance(t, ast.Name) and t.id == name:
                    if val is None:
                        return []
                    out.append(val)
                elif any(isinstance(x, ast.Name) and x.id == name
                         for x in ast.walk(t)):
                    return []
        return out

    @staticmethod
    def _function_refs(e: ast.AST) -> list[ast.AST]:
        if isinstance(e, ast.IfExp):
            a = Resolver._function_refs(e.body)
            b = Resolver._function_refs(e.orelse)
            return a + b if a and b else []
        if isinstance(e, ast.Attribute) or (isinstance(e, ast.Name)):
            return [e]
        return []

    def resolve_ref_in_module(self, mod: Module, expr: ast.AST) -> list[Target]:
        q = self.repo.qualify(mod, expr)
        if q is None:
            return []
        return [self._target_of_name(q)]

    def _target_of_name(self, q: str) -> Target:
        obj = self.repo.lookup(q)
        if isinstance(obj, FunctionInfo):
            return Target("internal", obj.fq, fn=obj)
        if isinstance(obj, ClassInfo):
            return Target("class", obj.fq, cls=obj)
        return Target("external", q)

    def resolve_call(self, fn: FunctionInfo, call: ast.Call,
                     count: bool = True) -> list[Target]:
        targets = self.resolve_ref(fn, call.func)
        # a local that only ever names functions (`f = np.savez` in one
        # branch, `f = np.savez_compressed` in the other): the union of what
        # its definitions name
        if isinstance(call.func, ast.Name) and not isinstance(
                fn.node, ast.Lambda) and not any(
                    t.kind in ("internal", "class", "external")
                    for t in targets):
            name = call.func.id
            vals = []
            plain = True
            for n in ast.walk(fn.node):
                tg = None
                if isinstance(n, ast.Assign):
                    tg, v = n.targets, n.value
                elif isinstance(n, ast.AnnAssign):
                    tg, v = [n.target], n.value
                if tg and any(isinstance(t, ast.Name) and t.id == name
                              for t in tg):
                    if v is None:
                        continue      # bare annotation
                    if isinstance(v, (ast.Name, ast.Attribute)) and len(tg) == 1:
                        vals.append(v)
                    else:
                        plain = False
                elif isinstance(n, (ast.For, ast.comprehension, ast.withitem,
                                    ast.NamedExpr, ast.arg)) and any(
                        isinstance(x, ast.Name) and x.id == name and
                        isinstance(getattr(x, "ctx", None), ast.Store)
                        for x in ast.walk(n)) and not isinstance(n, ast.arg):
                    pass
            if name in fn.params():
                plain = False
            if plain and vals and not any(
                    isinstance(v, ast.Name) and v.id == name for v in vals):
                union: list[Target] = []
                for v in vals:
                    union += self.resolve_ref(fn, v)
                if any(t.kind in ("internal", "class", "external")
                       for t in union):
                    targets = union
        conv: list[Target] = []
        for t in targets:
            if t.kind == "value":
                ci = self.class_of(t.recv_type)
                m = self.repo.find_method(ci, "__call__") if ci else None
                if m is not None:
                    conv.append(Target("internal", m.fq, fn=m,
                                       recv_type=t.recv_type))
                    continue
                if t.recv_type is not None and t.recv_type.name == "type" \
                        and t.recv_type.args:
                    c2 = self.class_of(t.recv_type.args[0])
                    if c2 is not None:
                        conv.append(Target("class", c2.fq, cls=c2))
                        continue
            conv.append(t)
        targets = conv
        if count:
            self.stats["calls"] += 1
            if any(t.kind in ("internal", "class", "external") or
                   (t.kind == "method" and t.recv_type is not None)
                   for t in targets):
                self.stats["resolved"] += 1
            else:
                self.stats["unresolved"].append(
                    f"{fn.loc(call)} {short(call.func, 60)}")
        return targets

    def call_name(self, fn: FunctionInfo, call: ast.Call) -> str:
        """A single printable name for the callee (first target)."""
        ts = self.resolve_call(fn, call, count=False)
        t = ts[0]
        if t.kind == "method":
            rt = t.recv_type.name if t.recv_type else "?"
            return f"{rt}.{t.name}"
        return t.name

    def callee_names(self, fn: FunctionInfo, call: ast.Call) -> set[str]:
        out = set()
        for t in self.resolve_call(fn, call, count=False):
            if t.kind == "method":
                rt = t.recv_type.name if t.recv_type else "?"
                out.add(f"{rt}.{t.name}")
            elif t.kind == "class":
                out.add(t.name)
            else:
                out.add(t.name.replace(":", "."))
        return out


@dataclass
class CallGraph:
    edges: dict[str, set[str]] = field(default_factory=dict)  # fq -> fq
    refs: dict[str, set[str]] = field(default_factory=dict)  # passes fn as value
    sites: dict[tuple[str, str], list[ast.Call]] = field(default_factory=dict)

    def callees(self, fq: str, with_refs: bool = True) -> set[str]:
        out = set(self.edges.get(fq, ()))
        if with_refs:
            out |= self.refs.get(fq, set())
        return out

    def reachable(self, roots: list[str], with_refs: bool = True) -> set[str]:
        seen: set[str] = set()
        stack = list(roots)
        while stack:
            f = stack.pop()
            if f in seen:
                continue
            seen.add(f)
            stack.extend(self.callees(f, with_refs) - seen)
        return seen

    def callers(self, fq: str) -> set[str]:
        return {a for a, bs in self.edges.items() if fq in bs} | {
            a for a, bs in self.refs.items() if fq in bs
        }


def build_callgraph(repo: Repo, res: Resolver) -> CallGraph:
    cg = CallGraph()
    for fn in repo.all_functions():
        e = cg.edges.setdefault(fn.fq, set())
        r = cg.refs.setdefault(fn.fq, set())
        for call in fn.calls():
            for t in res.resolve_call(fn, call):
                if t.kind == "internal" and t.fn is not None:
                    e.add(t.fn.fq)
                    cg.sites.setdefault((fn.fq, t.fn.fq), []).append(call)
                elif t.kind == "class" and t.cls is not None:
                    init = repo.find_method(t.cls, "__init__")
                    if init is not None:
                        e.add(init.fq)
                        cg.sites.setdefault((fn.fq, init.fq), []).append(call)
                    for hook in ("__post_init__", ):
                        h = repo.find_method(t.cls, hook)
                        if h is not None:
                            e.add(h.fq)
            # function values passed as arguments
            for a in list(call.args) + [k.value for k in call.keywords]:
                if isinstance(a, (ast.Name, ast.Attribute)):
                    for t in res.resolve_ref(fn, a):
                        if t.kind == "internal" and t.fn is not None:
                            r.add(t.fn.fq)
        # nested functions / lambdas defined here run on behalf of fn
        for q, other in fn.module.functions.items():
            if other.outer is fn:
                r.add(other.fq)
        # context managers: with X(...) as y -> __enter__/__exit__
        for n in fn.body_nodes():
            if isinstance(n, (ast.With, ast.AsyncWith)):
                for item in n.items:
                    t = res.infer(fn, item.context_expr)
                    ci = res.class_of(t)
                    if ci is not None:
                        for nm in ("__enter__", "__exit__", "__aenter__",
                                   "__aexit__"):
                            m = repo.find_method(ci, nm)
                            if m is not None:
                                e.add(m.fq)
    return cg
