"""Collection algebra: a small abstract interpreter that turns list/dict
processing code (comprehensions, append/extend loops, group-by loops, dict
comprehensions, `.values()` iteration) into one normal form, so that rules
about *what ends up in a collection and in which order* do not depend on
whether the code uses a loop, a comprehension, `extend(genexp)` or fused
loops.  Nothing is executed.

Terms (nested tuples):
  ("src", text)                     an input collection (parameter, attribute
                                    as it was on entry / at first read)
  ("empty",)                        []
  ("emptydict", kind)               {} / dict() / defaultdict(list) / ...
  ("filter", base, pred)            pred = (text, refs) over the element
  ("map", base, elt_text, refs)     one output per input, in order
  ("concat", a, b)
  ("group", d, base, key, elt)      d[key(x)].append(elt(x)) for x in base
  ("dictmap", d, base, key, val)    d[key(x)] = val(x) for x in base
  ("items", d) ("values", d) ("keys", d)
  ("set", base)                     membership only
  ("op", name, base, extra)         sorted / reversed / set-as-sequence / ...
  ("lit", texts)                    list literal with elements
  ("flatmap", base, gen_text)       yield from gen(x) for x in base
  ("gen", text)                     the stream of a generator call
  ("opaque", why)
The pseudo variable "<yield>" holds the stream a generator function yields.
Element variables are renamed: `_` (single target), `_k` / `_v` (dict items).
`refs` is a tuple of (name, term) for tracked collections mentioned in the
text (e.g. the set a membership test reads), snapshotted at that point.
"""
from __future__ import annotations

from sa.model import clone as _clone

import ast
import copy

from sa.model import FunctionInfo, dotted

ORDER_PRESERVING_WRAPPERS = {"list", "tuple", "iter"}
REORDERING = {"sorted", "reversed", "set", "frozenset", "shuffle", "sample"}
DICT_CTORS = {"dict", "defaultdict", "OrderedDict", "collections.defaultdict",
              "collections.OrderedDict"}
MUTATORS = {"append", "extend", "insert", "pop", "remove", "clear", "sort",
            "reverse", "update", "add", "discard", "setdefault", "popitem",
            "appendleft", "extendleft"}


def pretty(t, depth: int = 0) -> str:
    if not isinstance(t, tuple):
        return str(t)
    k = t[0]
    if k == "src":
        return t[1]
    if k == "empty":
        return "[]"
    if k == "emptydict":
        return t[1] if t[1].endswith(")") else f"{t[1]}()"
    if k == "filter":
        return f"filter({pretty(t[1])}, {t[2][0]})"
    if k == "map":
        return f"map({pretty(t[1])}, {t[2]})"
    if k == "concat":
        return f"{pretty(t[1])} ++ {pretty(t[2])}"
    if k == "group":
        return f"group({pretty(t[2])} by {t[3]} into {pretty(t[1])})"
    if k == "dictmap":
        return f"dict({t[3]}: {t[4]} for {pretty(t[2])} into {pretty(t[1])})"
    if k in ("items", "values", "keys", "set"):
        return f"{k}({pretty(t[1])})"
    if k == "op":
        return f"{t[1]}({pretty(t[2])}{', ' + t[3] if t[3] else ''})"
    if k == "lit":
        return "[" + ", ".join(t[1]) + "]"
    if k == "flatmap":
        return f"flatmap({pretty(t[1])}, {t[2]})"
    if k == "slice":
        return f"{pretty(t[1])}[{t[2]}]"
    if k == "gen":
        return f"gen({t[1]})"
    return f"<{k}: {t[1] if len(t) > 1 else ''}>"


def subterms(t):
    if not isinstance(t, tuple):
        return
    yield t
    for x in t[1:]:
        if isinstance(x, tuple):
            if x and isinstance(x[0], str) and x[0] in (
                    "src", "empty", "emptydict", "filter", "map", "concat",
                    "group", "dictmap", "items", "values", "keys", "set", "op",
                    "lit", "opaque", "flatmap", "gen", "slice"):
                yield from subterms(x)
            else:
                # pred = (text, refs) or refs = ((name, term), ...)
                for y in x:
                    if isinstance(y, tuple):
                        for z in y:
                            if isinstance(z, tuple):
                                yield from subterms(z)


def spine(t):
    """Sub-terms on the *data path* of t (bases; not the refs of predicates)."""
    if not isinstance(t, tuple):
        return
    yield t
    k = t[0]
    if k in ("filter", "map", "items", "values", "keys", "set", "flatmap",
             "slice"):
        yield from spine(t[1])
    elif k == "concat":
        yield from spine(t[1])
        yield from spine(t[2])
    elif k in ("group", "dictmap"):
        yield from spine(t[1])
        yield from spine(t[2])
    elif k == "op":
        yield from spine(t[2])


def concat_parts(t) -> list:
    if isinstance(t, tuple) and t[0] == "concat":
        return concat_parts(t[1]) + concat_parts(t[2])
    if isinstance(t, tuple) and t[0] == "empty":
        return []
    return [t]


class _Subst(ast.NodeTransformer):

    def __init__(self, rename: dict[str, str], temps: dict[str, ast.AST]):
        self.rename = rename
        self.temps = temps
        self.depth = 0

    def visit_Name(self, node: ast.Name):
        if node.id in self.rename:
            return ast.copy_location(ast.Name(id=self.rename[node.id],
                                              ctx=ast.Load()), node)
        if node.id in self.temps and self.depth < 8:
            self.depth += 1
            out = self.visit(_clone(self.temps[node.id]))
            self.depth -= 1
            return out
        return node


class CollAlg:
    """Interpret the body of `fn`; `env` maps a variable / dotted attribute
    path to its term at the end; `returns` the returned expressions;
    `snapshots[(name, lineno)]` terms at definition points."""

    def __init__(self, fn: FunctionInfo, consts: dict | None = None):
        self.fn = fn
        self.consts = consts or {}   # dotted name -> constant / TRUTHY / FALSY
        self.env: dict[str, tuple] = {}
        self.returns: list[ast.AST] = []
        self.notes: list[str] = []
        self.aliases: dict[str, set[str]] = {}
        self._fn_defs = None
        self.done = False
        # flow-sensitive: latest straight-line definition of a plain local
        self.plain: dict[str, ast.AST] = {}
        self.block(fn.node.body)

    # -- expressions ------------------------------------------------------------
    def fn_temps(self, temps) -> dict[str, ast.AST]:
        """Loop-body temporaries plus the function's single-definition
        locals that are not tracked collections (so `x = a.b[c]; f(x)` reads
        `f(a.b[c])`)."""
        if self._fn_defs is None:
            from sa.valuation import single_defs
            self._fn_defs = single_defs(self.fn)
        out = {k: v for k, v in self._fn_defs.items()
               if (k not in self.env or self.env[k][0] == "opaque") and
               self.lookup_kind(v) == "plain"}
        out.update(self.plain)
        out.update(temps or {})
        return out

    def lookup_kind(self, v: ast.AST) -> str:
        if isinstance(v, (ast.ListComp, ast.SetComp, ast.DictComp,
                          ast.GeneratorExp, ast.List, ast.Dict, ast.Set)):
            return "collection"
        return "plain"

    def text(self, e: ast.AST, rename=None, temps=None) -> str:
        x = _Subst(rename or {}, self.fn_temps(temps)).visit(_clone(e))
        return ast.unparse(ast.fix_missing_locations(x))

    def refs(self, e: ast.AST, rename=None, temps=None) -> tuple:
        x = _Subst(rename or {}, temps or {}).visit(_clone(e))
        out = {}
        for n in ast.walk(x):
            d = dotted(n) if isinstance(n, (ast.Name, ast.Attribute)) else None
            if d is not None and d in self.env:
                out[d] = self.env[d]
        return tuple(sorted(out.items(), key=lambda kv: kv[0]))

    def lookup(self, e: ast.AST):
        d = dotted(e)
        if d is not None:
            if d in self.env:
                return self.env[d]
            return ("src", d)
        return None

    def target_rename(self, target: ast.AST, kind: str) -> dict[str, str] | None:
        """Loop/comprehension target -> canonical element names."""
        if isinstance(target, ast.Name):
            return {target.id: {"items": "_kv", "values": "_v", "keys": "_k"
                                }.get(kind, "_")}
        if isinstance(target, ast.Tuple) and kind == "items" and len(
                target.elts) == 2 and all(isinstance(x, ast.Name)
                                          for x in target.elts):
            return {target.elts[0].id: "_k", target.elts[1].id: "_v"}
        if isinstance(target, ast.Tuple) and kind == "elem" and all(
                isinstance(x, ast.Name) for x in target.elts):
            # components of a tuple element: `_[i]`
            return {x.id: f"_[{i}]" for i, x in enumerate(target.elts)}
        return None

    def iter_base(self, it: ast.AST):
        """(base term, kind) for an iterable expression; kind tells how the
        target binds: elem | items | values | keys."""
        if isinstance(it, ast.Call) and isinstance(it.func, ast.Attribute) and \
                it.func.attr in ("items", "values", "keys") and not it.args:
            d = self.term(it.func.value)
            if isinstance(d, tuple) and d[0] == "dictmap" and \
                    d[1][0] == "emptydict" and d[3] == "_k" and \
                    it.func.attr == "values":
                # values of {k: f(v) for k, v in D.items()}: one per entry of
                # D, in D's order (keys are D's keys, hence unique)
                return ("map", d[2], d[4], ()), "elem"
            return ("items", d), it.func.attr
        t = self.term(it)
        if isinstance(t, tuple) and t[0] == "op" and isinstance(
                t[2], tuple) and t[2][0] == "items":
            return t, "items"
        if isinstance(t, tuple) and t[0] in ("emptydict", "group", "dictmap"):
            return ("items", t), "keys"
        return t, "elem"

    def comp(self, e, make_set=False):
        if len(e.generators) == 2 and not isinstance(e, ast.DictComp):
            # [x for g in D.values() for x in g...]: the groups one after the
            # other - a different order than the one the groups were filled in
            outer = self.iter_base(e.generators[0].iter)[0]
            if any(t[0] in ("group", "dictmap", "emptydict")
                   for t in spine(outer)):
                return ("op", "flatten-groups", outer, "")
        if len(e.generators) != 1 or e.generators[0].is_async:
            return ("opaque", "nested comprehension")
        g = e.generators[0]
        base, kind = self.iter_base(g.iter)
        ren = self.target_rename(g.target, kind)
        if ren is None:
            return ("opaque", "comprehension target")
        for cond in g.ifs:
            base = ("filter", base, (self.text(cond, ren), self.refs(cond, ren)))
        if isinstance(e, ast.DictComp):
            return ("dictmap", ("emptydict", "dict"), base,
                    self.text(e.key, ren), self.text(e.value, ren))
        elt = self.text(e.elt, ren)
        ident = {"elem": "_", "values": "_v", "keys": "_k"}.get(kind)
        if elt != ident:
            base = mk_map(base, elt, self.refs(e.elt, ren))
        elif kind in ("values", "keys"):
            base = ("map", base, elt, ())
        return ("set", base) if make_set else base

    def term(self, e: ast.AST | None):
        if e is None:
            return ("opaque", "none")
        got = self.lookup(e)
        if got is not None:
            return got
        if isinstance(e, ast.IfExp):
            from sa.cfg import truth
            t = truth(e.test, self.consts)
            if t is True:
                return self.term(e.body)
            if t is False:
                return self.term(e.orelse)
            return ("opaque", "conditional expression")
        if isinstance(e, (ast.List, ast.Tuple)):
            return ("empty", ) if not e.elts else ("lit", tuple(
                self.text(x) for x in e.elts))
        if isinstance(e, ast.Dict) and not e.keys:
            return ("emptydict", "dict")
        if isinstance(e, (ast.ListComp, ast.GeneratorExp, ast.DictComp)):
            return self.comp(e)
        if isinstance(e, ast.SetComp):
            return self.comp(e, make_set=True)
        if isinstance(e, ast.BinOp) and isinstance(e.op, ast.Add):
            return ("concat", self.term(e.left), self.term(e.right))
        if isinstance(e, ast.Subscript) and isinstance(e.slice, ast.Slice):
            sl = e.slice
            base = self.term(e.value)
            if sl.step is None or (isinstance(sl.step, ast.Constant) and
                                   sl.step.value == 1):
                return ("slice", base, self.text(sl))
            return ("op", "slice-with-step", base, self.text(sl))
        if isinstance(e, ast.Call):
            name = dotted(e.func) or ""
            short_name = name.rsplit(".", 1)[-1]
            if isinstance(e.func, ast.Attribute) and e.func.attr in (
                    "items", "values", "keys") and not e.args:
                d = self.term(e.func.value)
                return self.norm_view(e.func.attr, d)
            if isinstance(e.func, ast.Attribute) and e.func.attr == "copy" \
                    and not e.args:
                return self.term(e.func.value)
            if name in ORDER_PRESERVING_WRAPPERS and len(e.args) == 1 and \
                    not e.keywords:
                return self.term(e.args[0])
            if name in ORDER_PRESERVING_WRAPPERS and not e.args:
                return ("empty", )
            if short_name in DICT_CTORS and name in DICT_CTORS and (
                    not e.args or (len(e.args) == 1 and dotted(e.args[0]) in (
                        "list", "set", "dict", "int"))):
                return ("emptydict", short_name + (
                    f"({dotted(e.args[0])})" if e.args else ""))
            if name == "filter" and len(e.args) == 2 and not e.keywords:
                f = e.args[0]
                if isinstance(f, ast.Constant) and f.value is None:
                    ptxt = "_"
                elif isinstance(f, ast.Lambda) and len(f.args.args) == 1:
                    ptxt = self.text(f.body, {f.args.args[0].arg: "_"})
                else:
                    ptxt = f"{self.text(f)}(_)"
                return ("filter", self.term(e.args[1]), (ptxt, ()))
            if short_name == "islice" and len(e.args) == 2 and not e.keywords:
                return ("slice", self.term(e.args[0]),
                        ":" + self.text(e.args[1]))
            if name == "map" and len(e.args) == 2 and not e.keywords:
                return ("map", self.term(e.args[1]),
                        f"{self.text(e.args[0])}(_)", ())
            if short_name in REORDERING and e.args:
                if short_name in ("set", "frozenset"):
                    return ("set", self.term(e.args[0]))
                extra = ", ".join(f"{k.arg}={ast.unparse(k.value)}"
                                  for k in e.keywords)
                return ("op", short_name, self.term(e.args[0]), extra)
            if isinstance(e.func, ast.Attribute) and dotted(
                    e.func.value) == "self" and "iter" in e.func.attr:
                return ("gen", self.text(e))
            return ("opaque", f"call {ast.unparse(e)[:60]}")
        return ("opaque", ast.unparse(e)[:60])

    def norm_view(self, view: str, d):
        if isinstance(d, tuple) and d[0] == "dictmap" and d[1][0] == "emptydict":
            _, _d0, base, key, val = d
            txt = {"items": f"({key}, {val})", "values": val, "keys": key}[view]
            return ("map", base, txt, ())
        ident = {"values": "_v", "keys": "_k"}.get(view)
        if ident is None:
            return ("items", d)
        return ("map", ("items", d), ident, ())

    # -- statements -------------------------------------------------------------------
    def emit(self, t) -> None:
        # flatmap over a literal tuple: one generator call per element
        if t[0] == "flatmap" and t[1][0] == "lit":
            for x in t[1][1]:
                self.emit(("gen", _replace_elem(t[2], x)))
            return
        if t[0] == "flatmap" and t[1][0] == "map":
            # flatmap(map(B, m), g) = flatmap(B, g[_ := m])
            self.emit(("flatmap", t[1][1], _replace_elem(t[2], t[1][2])))
            return
        cur = self.env.get("<yield>", ("empty", ))
        self.env["<yield>"] = ("concat", cur, t)

    def stream(self, e: ast.AST):
        """Term of the operand of `yield from`."""
        t = self.term(e)
        if t[0] == "opaque" and isinstance(e, ast.Call):
            return ("gen", self.text(e))
        return t

    def opaque_all(self, names, why: str) -> None:
        for n in names:
            self.env[n] = ("opaque", why)
            self.plain.pop(n, None)

    def assigned_in(self, stmts) -> set[str]:
        out = set()
        for s in stmts:
            for n in ast.walk(s):
                if isinstance(n, (ast.Assign, ast.AnnAssign, ast.AugAssign)):
                    tg = n.targets if isinstance(n, ast.Assign) else [n.target]
                    for t in tg:
                        d = dotted(t)
                        if d:
                            out.add(d)
                elif isinstance(n, ast.Call) and isinstance(
                        n.func, ast.Attribute) and n.func.attr in MUTATORS:
                    d = dotted(n.func.value)
                    if d:
                        out.add(d)
                    elif isinstance(n.func.value, ast.Subscript):
                        d = dotted(n.func.value.value)
                        if d:
                            out.add(d)
        return out

    def block(self, stmts) -> None:
        for s in stmts:
            if self.done:
                return
            self.stmt(s)

    def mutate(self, call: ast.Call, base=None, ren=None, temps=None,
               guard=None) -> bool:
        """Apply a collection mutation `X.append(e)` etc. Outside loops
        base is None. Returns True when the call was a tracked mutation."""
        f = call.func
        if not (isinstance(f, ast.Attribute) and f.attr in MUTATORS):
            return False
        recv = f.value
        # D.setdefault(k, []).append(e): group-by, like D[k].append(e)
        if isinstance(recv, ast.Call) and isinstance(
                recv.func, ast.Attribute) and recv.func.attr == "setdefault" \
                and len(recv.args) == 2 and dotted(recv.func.value):
            recv = ast.Subscript(value=recv.func.value, slice=recv.args[0],
                                 ctx=ast.Load())
        # D[k].append(e): group-by
        if isinstance(recv, ast.Subscript):
            d = dotted(recv.value)
            if d is None:
                return False
            cur = self.env.get(d, ("src", d))
            if f.attr == "append" and len(call.args) == 1 and base is not None:
                b = base
                for g in guard or []:
                    b = ("filter", b, g)
                self.env[d] = ("group", cur, b, self.text(recv.slice, ren, temps),
                               self.text(call.args[0], ren, temps))
            else:
                self.env[d] = ("opaque", f"{ast.unparse(call)[:50]}")
            return True
        d = dotted(recv)
        if d is None:
            return False
        known = d in self.env or d.endswith(("_lists", "_files")) or \
            f.attr in ("append", "extend")
        if not known:
            return False
        cur = self.env.get(d, ("src", d))
        if f.attr == "append" and len(call.args) == 1:
            if base is None:
                new = ("lit", (self.text(call.args[0]), ))
            else:
                b = base
                for g in guard or []:
                    b = ("filter", b, g)
                elt = self.text(call.args[0], ren, temps)
                new = b if elt == "_" else mk_map(b, elt,
                                            self.refs(call.args[0], ren, temps))
            self.env[d] = ("concat", cur, new)
        elif f.attr == "extend" and len(call.args) == 1 and base is None:
            self.env[d] = ("concat", cur, self.term(call.args[0]))
        elif f.attr in ("sort", "reverse"):
            self.env[d] = ("op", f.attr, cur, ", ".join(
                f"{k.arg}={ast.unparse(k.value)}" for k in call.keywords))
        else:
            self.env[d] = ("opaque", f"{ast.unparse(call)[:50]}")
        return True

    def stmt(self, s: ast.stmt) -> None:
        if isinstance(s, (ast.Assign, ast.AnnAssign)):
            if s.value is None:
                return
            tgts = s.targets if isinstance(s, ast.Assign) else [s.target]
            for t in tgts:
                d = dotted(t)
                if d is None:
                    if isinstance(t, ast.Subscript) and dotted(t.value):
                        self.env[dotted(t.value)] = ("opaque", "item assignment")
                    continue
                self.env[d] = self.term(s.value)
                if isinstance(t, ast.Name):
                    if self.env[d][0] == "opaque" and self.lookup_kind(
                            s.value) == "plain":
                        # resolve now: later rebinding of names it mentions
                        # must not change its meaning
                        self.plain[d] = _Subst({}, self.fn_temps(None)).visit(
                            _clone(s.value))
                    else:
                        self.plain.pop(d, None)
            return
        if isinstance(s, ast.Expr) and isinstance(s.value, ast.Call):
            self.mutate(s.value)
            return
        if isinstance(s, ast.Expr) and isinstance(s.value, ast.YieldFrom):
            self.emit(self.stream(s.value.value))
            return
        if isinstance(s, ast.Expr) and isinstance(s.value, ast.Yield):
            self.emit(("lit", (self.text(s.value.value)
                               if s.value.value is not None else "None", )))
            return
        if isinstance(s, ast.Return):
            if s.value is not None:
                self.returns.append(s.value)
            self.done = True  # reached only on the path being interpreted
            return
        if isinstance(s, (ast.For, ast.AsyncFor)):
            self.loop(s)
            return
        if isinstance(s, ast.If):
            from sa.context import raises_in
            from sa.cfg import truth
            t = truth(s.test, self.consts)
            if t is True:
                self.block(s.body)
                return
            if t is False:
                self.block(s.orelse)
                return
            if raises_in(s.body) and not s.orelse:
                return  # validation
            if any(isinstance(x, ast.Return) for b in s.body + s.orelse
                   for x in ast.walk(b)):
                self.notes.append(f"L{s.lineno}: return under a condition "
                                  "that is not constant here")
                self.opaque_all(["<yield>"], "conditional return")
            touched = self.assigned_in(s.body) | self.assigned_in(s.orelse)
            # a collection (re)bound under a condition is, afterwards, "the
            # value of that variable": a source of its own
            for n in touched:
                self.env[n] = ("src", n)
                self.plain.pop(n, None)
            return
        if isinstance(s, (ast.With, ast.AsyncWith)):
            self.block(s.body)
            return
        if isinstance(s, ast.Try):
            self.block(s.body)
            return
        if isinstance(s, ast.While):
            self.opaque_all(self.assigned_in(s.body), "while loop")
            return
        if isinstance(s, ast.AugAssign):
            d = dotted(s.target)
            if d in self.env:
                self.env[d] = ("opaque", "augmented assignment")
            return

    def loop(self, s) -> None:
        base, kind = self.iter_base(s.iter)
        ren = self.target_rename(s.target, kind)
        if kind == "values":
            pass
        touched = self.assigned_in(s.body)
        for n in list(self.plain):
            if n in touched or n in (ren or {}):
                self.plain.pop(n)
        if ren is None or s.orelse:
            self.opaque_all(touched, "loop shape")
            return
        temps: dict[str, ast.AST] = {}
        ok = self.loop_body(s.body, base, ren, temps, [])
        if not ok:
            self.opaque_all([t for t in touched if t not in temps],
                            "loop body not understood")

    def loop_body(self, stmts, base, ren, temps, guard) -> bool:
        from sa.context import raises_in
        guard = list(guard)
        for s in stmts:
            if isinstance(s, (ast.Assign, ast.AnnAssign)) and s.value is not None:
                tgts = s.targets if isinstance(s, ast.Assign) else [s.target]
                if len(tgts) == 1 and isinstance(tgts[0], ast.Name) and \
                        tgts[0].id not in self.env and tgts[0].id not in ren:
                    temps[tgts[0].id] = s.value
                    continue
                if len(tgts) == 1 and isinstance(tgts[0], ast.Subscript) and \
                        dotted(tgts[0].value):
                    d = dotted(tgts[0].value)
                    b = base
                    for g in guard:
                        b = ("filter", b, g)
                    self.env[d] = ("dictmap", self.env.get(d, ("src", d)), b,
                                   self.text(tgts[0].slice, ren, temps),
                                   self.text(s.value, ren, temps))
                    continue
                return False
            if isinstance(s, ast.AugAssign):
                d = dotted(s.target)
                if d in self.env or d in temps:
                    return False
                continue  # numeric accounting: not a collection effect
            if isinstance(s, ast.Expr) and isinstance(s.value, ast.Call):
                self.mutate(s.value, base, ren, temps, guard)
                continue
            if isinstance(s, ast.Expr) and isinstance(
                    s.value, (ast.Yield, ast.YieldFrom)):
                b = base
                for g in guard:
                    b = ("filter", b, g)
                v = s.value.value
                txt = self.text(v, ren, temps) if v is not None else "None"
                if isinstance(s.value, ast.YieldFrom):
                    self.emit(("flatmap", b, txt))
                else:
                    self.emit(b if txt == "_" else mk_map(b, txt, ()))
                continue
            if isinstance(s, ast.Expr):
                continue
            if isinstance(s, ast.If):
                cond = (self.text(s.test, ren, temps),
                        self.refs(s.test, ren, temps))
                ncond = (self.text(ast.UnaryOp(op=ast.Not(), operand=s.test),
                                   ren, temps), cond[1])
                if raises_in(s.body) and not s.orelse:
                    continue  # validation of the element
                if len(s.body) == 1 and isinstance(s.body[0], ast.Continue) \
                        and not s.orelse:
                    guard.append(ncond)
                    continue
                if not self.loop_body(s.body, base, ren, dict(temps),
                                      guard + [cond]):
                    return False
                if s.orelse and not self.loop_body(s.orelse, base, ren,
                                                   dict(temps), guard + [ncond]):
                    return False
                continue
            if isinstance(s, (ast.Assert, ast.Pass)):
                continue
            return False
        return True


def reordering_on_path(t) -> list[str]:
    """Constructs on the data path of `t` that do not preserve order."""
    out = []
    for x in spine(t):
        if x[0] == "op":
            out.append(f"{x[1]}({pretty(x[2])[:40]})")
        elif x[0] == "set":
            out.append(f"set({pretty(x[1])[:40]}) iterated")
        elif x[0] == "opaque":
            out.append(f"not understood: {x[1]}")
        elif x[0] == "emptydict" and not x[1].startswith(
                ("dict", "defaultdict", "OrderedDict")):
            out.append(f"mapping {x[1]}")
    return out


def sources(t) -> set[str]:
    return {x[1] for x in spine(t) if x[0] == "src"}


def _replace_elem(text: str, value: str) -> str:
    """`text` with the element variable `_` replaced by the expression
    `value`."""
    e = ast.parse(text, mode="eval").body
    v = ast.parse(value, mode="eval").body

    class R(ast.NodeTransformer):

        def visit_Name(self, node):
            return _clone(v) if node.id == "_" else node

    return ast.unparse(ast.fix_missing_locations(R().visit(e)))


def mk_map(base, elt: str, refs=()):
    """map(base, elt) with map-of-map composed: map(map(B, m), e) =
    map(B, e[_ := m]) (only when the outer element variable is `_`)."""
    if isinstance(base, tuple) and base[0] == "map" and "_" in {
            n.id for n in ast.walk(ast.parse(elt, mode="eval"))
            if isinstance(n, ast.Name)}:
        try:
            return ("map", base[1], _replace_elem(elt, base[2]),
                    tuple(base[3]) + tuple(refs))
        except SyntaxError:
            pass
    return ("map", base, elt, refs)
