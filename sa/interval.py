"""E7/A1 - interval analysis of d = counter - limit over the CFG.

Bounds are integers or None (= infinite). `limit >= limit_min` is a side
fact (the property's quantifier: examples_per_shard >= 1).
"""
from __future__ import annotations

import ast
from typing import Callable

from sa.cfg import CFG, Node
from sa.valuation import single_defs

Interval = tuple  # (lo | None, hi | None)
BOTTOM = "bottom"
TOP: Interval = (None, None)


def _min(a, b):
    if a is None:
        return b
    if b is None:
        return a
    return min(a, b)


def _max(a, b):
    if a is None:
        return b
    if b is None:
        return a
    return max(a, b)


def hull(a, b):
    if a == BOTTOM:
        return b
    if b == BOTTOM:
        return a
    lo = None if a[0] is None or b[0] is None else min(a[0], b[0])
    hi = None if a[1] is None or b[1] is None else max(a[1], b[1])
    return (lo, hi)


def meet(a, b):
    if a == BOTTOM or b == BOTTOM:
        return BOTTOM
    lo = _max(a[0], b[0])
    hi = _min(a[1], b[1])
    if lo is not None and hi is not None and lo > hi:
        return BOTTOM
    return (lo, hi)


def leq(iv, bound: int) -> bool:
    """iv subset of (-inf, bound]"""
    return iv == BOTTOM or (iv[1] is not None and iv[1] <= bound)


def geq(iv, bound: int) -> bool:
    return iv == BOTTOM or (iv[0] is not None and iv[0] >= bound)


def fmt(iv) -> str:
    if iv == BOTTOM:
        return "unreachable"
    lo = "-inf" if iv[0] is None else str(iv[0])
    hi = "+inf" if iv[1] is None else str(iv[1])
    return f"[{lo}, {hi}]"


class CounterInterval:

    def __init__(self, cfg: CFG, is_counter: Callable[[ast.AST], bool],
                 is_limit: Callable[[ast.AST], bool], entry: Interval,
                 limit_min: int = 1,
                 fresh_value: Callable[[ast.AST], int | None] | None = None):
        self.cfg = cfg
        # fresh_value(stmt): the counter's value after a statement that binds
        # the record to a newly constructed one (None: not such a statement)
        self.fresh_value = fresh_value
        self.is_counter = is_counter
        self.is_limit = is_limit
        self.limit_min = limit_min
        self.defs = single_defs(cfg.fn)
        self.before: dict[Node, object] = {}
        self.size_atoms: list[ast.Compare] = []
        self._run(entry)

    # -- refinement -----------------------------------------------------------
    def compare_atom(self, e: ast.AST):
        """(op, flipped) when e is `counter OP limit` or `limit OP counter`."""
        if isinstance(e, ast.Compare) and len(e.ops) == 1:
            l, r = e.left, e.comparators[0]
            if self.is_counter(l) and self.is_limit(r):
                return e.ops[0], False
            if self.is_limit(l) and self.is_counter(r):
                return e.ops[0], True
        return None

    def refine(self, e: ast.AST, branch: bool, iv, depth: int = 0,
               opaque_bottom: bool = False):
        """Refine `iv` by `e == branch`. With opaque_bottom=True an operand
        that says nothing about the counter is assumed NOT to have the
        branch value (used to ask: what does the size test alone imply)."""
        if iv == BOTTOM:
            return BOTTOM
        atom = self.compare_atom(e)
        if atom is not None:
            if e not in self.size_atoms:
                self.size_atoms.append(e)  # type: ignore[arg-type]
            op, flipped = atom
            # normalise to d OP 0
            kinds = {ast.Lt: "<", ast.LtE: "<=", ast.Gt: ">", ast.GtE: ">=",
                     ast.Eq: "==", ast.NotEq: "!="}
            k = kinds.get(type(op))
            if k is None:
                return iv
            if flipped:
                k = {"<": ">", "<=": ">=", ">": "<", ">=": "<=", "==": "==",
                     "!=": "!="}[k]
            if not branch:
                k = {"<": ">=", "<=": ">", ">": "<=", ">=": "<", "==": "!=",
                     "!=": "=="}[k]
            if k == "<":
                return meet(iv, (None, -1))
            if k == "<=":
                return meet(iv, (None, 0))
            if k == ">":
                return meet(iv, (1, None))
            if k == ">=":
                return meet(iv, (0, None))
            if k == "==":
                return meet(iv, (0, 0))
            if k == "!=":
                lo, hi = iv
                if hi == 0:
                    hi = -1
                if lo == 0:
                    lo = 1
                if lo is not None and hi is not None and lo > hi:
                    return BOTTOM
                return (lo, hi)
        if isinstance(e, ast.UnaryOp) and isinstance(e.op, ast.Not):
            return self.refine(e.operand, not branch, iv, depth, opaque_bottom)
        if isinstance(e, ast.Call) and isinstance(e.func, ast.Name) and \
                e.func.id in ("all", "any") and len(e.args) == 1 and \
                not e.keywords and isinstance(e.args[0], (ast.Tuple, ast.List)) \
                and e.args[0].elts and not any(
                    isinstance(x, ast.Starred) for x in e.args[0].elts):
            # all((a, b, ...)) / any([a, b, ...]) over a display: a BoolOp
            e = ast.BoolOp(op=ast.And() if e.func.id == "all" else ast.Or(),
                           values=list(e.args[0].elts))
        if isinstance(e, ast.BoolOp):
            is_or = isinstance(e.op, ast.Or)
            if is_or != branch:
                # or/False, and/True: every operand has the branch value
                out = iv
                for v in e.values:
                    # a conjunct that says nothing about the counter (the
                    # metadata flag; C10.close admits no other) is assumed
                    # false under opaque_bottom, so the conjunction is too
                    out = self.refine(v, branch, out, depth, opaque_bottom)
                return out
            out = BOTTOM
            for v in e.values:
                out = hull(out, self.refine(v, branch, iv, depth,
                                            opaque_bottom))
            return out
        if isinstance(e, ast.Name) and e.id in self.defs and depth < 6:
            return self.refine(self.defs[e.id], branch, iv, depth + 1,
                               opaque_bottom)
        return BOTTOM if opaque_bottom and not self.mentions_counter(e) else iv

    def mentions_counter(self, e: ast.AST, depth: int = 0) -> bool:
        """Does e (looking through single-definition locals) read the
        counter?"""
        for x in ast.walk(e):
            if self.is_counter(x):
                return True
            if isinstance(x, ast.Name) and x.id in self.defs and depth < 6 \
                    and self.mentions_counter(self.defs[x.id], depth + 1):
                return True
        return False

    # -- transfer ----------------------------------------------------------------
    def transfer(self, n: Node, iv):
        if iv == BOTTOM:
            return BOTTOM
        a = n.ast
        if n.kind == "stmt":
            if isinstance(a, (ast.Assign, ast.AnnAssign)):
                tgts = a.targets if isinstance(a, ast.Assign) else [a.target]
                val = a.value
                if self.fresh_value is not None:
                    fv = self.fresh_value(a)
                    if fv is not None:
                        return (None, fv - self.limit_min)
                if any(self.is_counter(t) for t in tgts):
                    if isinstance(val, ast.Constant) and isinstance(
                            val.value, int):
                        return (None, val.value - self.limit_min)
                    return TOP
            elif isinstance(a, ast.AugAssign) and self.is_counter(a.target):
                if isinstance(a.value, ast.Constant) and isinstance(
                        a.value.value, int) and isinstance(
                            a.op, (ast.Add, ast.Sub)):
                    k = a.value.value if isinstance(a.op,
                                                    ast.Add) else -a.value.value
                    lo, hi = iv
                    return (None if lo is None else lo + k,
                            None if hi is None else hi + k)
                return TOP
        return iv

    def _run(self, entry: Interval) -> None:
        cfg = self.cfg
        self.before = {cfg.entry: entry}
        visits: dict[Node, int] = {}
        work = [cfg.entry]
        while work:
            n = work.pop()
            out = self.transfer(n, self.before[n])
            for m, lab in n.succ:
                o = out
                if n.kind == "test" and lab in ("true", "false") and \
                        isinstance(n.ast, ast.expr):
                    o = self.refine(n.ast, lab == "true", out)
                if o == BOTTOM:
                    continue
                cur = self.before.get(m, BOTTOM)
                new = hull(cur, o)
                if new != cur:
                    visits[m] = visits.get(m, 0) + 1
                    if visits[m] > 12:  # widening
                        lo = new[0] if cur != BOTTOM and new[0] == cur[0] else None
                        hi = new[1] if cur != BOTTOM and new[1] == cur[1] else None
                        new = (lo, hi)
                    self.before[m] = new
                    work.append(m)

    def at(self, n: Node):
        return self.before.get(n, BOTTOM)
