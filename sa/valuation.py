"""E7/A3 - evaluation of a condition under abstract valuations of its atoms.

Atoms are identified by predicates over AST nodes (data-flow roles), not by
spelling. Local names with a single definition in the function are inlined,
so `flag = all((a, b, a != b)); if size or flag:` evaluates through `flag`.
Three valued: UNKNOWN propagates unless the connective is decided anyway.
"""
from __future__ import annotations

import ast
from typing import Callable

from sa.cfg import FALSY, TRUTHY, UNKNOWN
from sa.model import FunctionInfo, dotted

AtomFn = Callable[[ast.AST], "str | None"]


def single_defs(fn: FunctionInfo) -> dict[str, ast.AST]:
    """Local names assigned exactly once (plain or annotated assignment)."""
    count: dict[str, int] = {}
    defs: dict[str, ast.AST] = {}
    for n in fn.body_nodes():
        tgts: list[ast.AST] = []
        val = None
        if isinstance(n, ast.Assign):
            tgts, val = n.targets, n.value
        elif isinstance(n, ast.AnnAssign) and n.value is not None:
            tgts, val = [n.target], n.value
        elif isinstance(n, ast.AugAssign):
            tgts, val = [n.target], None
        elif isinstance(n, (ast.For, ast.AsyncFor)):
            tgts, val = [n.target], None
        elif isinstance(n, ast.NamedExpr):
            tgts, val = [n.target], n.value
        for t in tgts:
            for x in ast.walk(t):
                if isinstance(x, ast.Name) and isinstance(x.ctx, ast.Store):
                    count[x.id] = count.get(x.id, 0) + 1
                    if val is not None and t is x:
                        defs[x.id] = val
                    else:
                        defs.pop(x.id, None)
    params = set(fn.params())
    return {k: v for k, v in defs.items() if count.get(k) == 1 and
            k not in params}


class Valuation:

    def __init__(self, fn: FunctionInfo, atom: AtomFn,
                 values: dict[str, object], inline: bool = True):
        self.fn = fn
        self.atom = atom
        self.values = values
        self.defs = single_defs(fn) if inline else {}
        self._depth = 0
        self.seen_atoms: set[str] = set()

    def ev(self, e: ast.AST) -> object:
        name = self.atom(e)
        if name is not None:
            self.seen_atoms.add(name)
            if name in self.values:
                return self.values[name]
            return UNKNOWN
        if isinstance(e, ast.Constant):
            return e.value
        if isinstance(e, ast.Name):
            if e.id in self.values:
                return self.values[e.id]
            if e.id in self.defs and self._depth < 8:
                self._depth += 1
                try:
                    return self.ev(self.defs[e.id])
                finally:
                    self._depth -= 1
            return UNKNOWN
        if isinstance(e, ast.Attribute):
            d = dotted(e)
            if d is not None and d in self.values:
                return self.values[d]
            return UNKNOWN
        if isinstance(e, ast.UnaryOp) and isinstance(e.op, ast.Not):
            t = self.truth(e.operand)
            return UNKNOWN if t is None else (not t)
        if isinstance(e, ast.BoolOp):
            return self._bool(isinstance(e.op, ast.And), e.values)
        if isinstance(e, ast.IfExp):
            t = self.truth(e.test)
            if t is True:
                return self.ev(e.body)
            if t is False:
                return self.ev(e.orelse)
            return UNKNOWN
        if isinstance(e, ast.Call) and isinstance(e.func, ast.Name):
            if e.func.id in ("all", "any") and len(e.args) == 1 and isinstance(
                    e.args[0], (ast.Tuple, ast.List)):
                return self._bool(e.func.id == "all", e.args[0].elts)
            if e.func.id == "bool" and len(e.args) == 1:
                t = self.truth(e.args[0])
                return UNKNOWN if t is None else t
        if isinstance(e, ast.Compare) and len(e.ops) == 1:
            a, b = self.ev(e.left), self.ev(e.comparators[0])
            op = e.ops[0]
            marks = (UNKNOWN, TRUTHY, FALSY)
            if isinstance(op, (ast.Is, ast.IsNot)):
                if (a is None and b is TRUTHY) or (b is None and a is TRUTHY):
                    return isinstance(op, ast.IsNot)
                if a is None and b is None:
                    return isinstance(op, ast.Is)
                return UNKNOWN
            if any(a is m for m in marks) or any(b is m for m in marks):
                return UNKNOWN
            try:
                if isinstance(op, ast.Eq):
                    return a == b
                if isinstance(op, ast.NotEq):
                    return a != b
                if isinstance(op, ast.Lt):
                    return a < b
                if isinstance(op, ast.LtE):
                    return a <= b
                if isinstance(op, ast.Gt):
                    return a > b
                if isinstance(op, ast.GtE):
                    return a >= b
                if isinstance(op, ast.In):
                    return a in b
                if isinstance(op, ast.NotIn):
                    return a not in b
            except TypeError:
                return UNKNOWN
        return UNKNOWN

    def _bool(self, is_and: bool, exprs) -> object:
        vals = [self.truth(v) for v in exprs]
        if is_and:
            if any(v is False for v in vals):
                return False
            if all(v is True for v in vals):
                return True
        else:
            if any(v is True for v in vals):
                return True
            if all(v is False for v in vals):
                return False
        return UNKNOWN

    def truth(self, e: ast.AST) -> bool | None:
        v = self.ev(e)
        if v is UNKNOWN:
            return None
        if v is TRUTHY:
            return True
        if v is FALSY:
            return False
        try:
            return bool(v)
        except Exception:  # pylint: disable=broad-exception-caught
            return None
