"""Path-specialised expression resolution: what a function returns when some
names have known constant values.  The CFG is specialised on `env` (dead
branches / match arms removed); the returned expression is then resolved by
substituting locals that have exactly one live definition (tuple unpacking
included), `functools.partial(f, ...)(x)` is rewritten to `f(x, ...)`, and
calls of module-level single-return helpers are replaced by their body.
Nothing is executed."""
from __future__ import annotations

from sa.model import clone as _clone

import ast
import copy

from sa.cfg import CFG
from sa.model import FunctionInfo, dotted

RAISES = "RAISES"


def _bindings(stmt: ast.stmt):
    """name -> defining expression for one assignment statement."""
    out: dict[str, ast.AST] = {}
    if isinstance(stmt, ast.AnnAssign) and stmt.value is not None and \
            isinstance(stmt.target, ast.Name):
        out[stmt.target.id] = stmt.value
    elif isinstance(stmt, ast.Assign):
        for t in stmt.targets:
            if isinstance(t, ast.Name):
                out[t.id] = stmt.value
            elif isinstance(t, (ast.Tuple, ast.List)) and isinstance(
                    stmt.value, (ast.Tuple, ast.List)) and len(t.elts) == len(
                        stmt.value.elts):
                for a, b in zip(t.elts, stmt.value.elts):
                    if isinstance(a, ast.Name):
                        out[a.id] = b
            elif isinstance(t, (ast.Tuple, ast.List)):
                for a in t.elts:
                    if isinstance(a, ast.Name):
                        out[a.id] = None  # bound, value not syntactic
    return out


def returned_on(ctx, fn: FunctionInfo, env: dict) -> list[ast.AST] | str:
    """Resolved expressions `fn` can return under `env`, or RAISES when no
    return is reachable without an exception edge."""
    cfg = CFG(fn, env=env)
    live = cfg.reachable([cfg.entry], follow=lambda a, b, lab: lab != "exc")
    rets = [n for n in cfg.nodes if n in live and n.kind == "stmt" and
            isinstance(n.ast, ast.Return)]
    if not rets and cfg.exit not in live:
        return RAISES
    defs: dict[str, list] = {}
    for n in cfg.nodes:
        if n in live and n.kind == "stmt" and isinstance(
                n.ast, (ast.Assign, ast.AnnAssign)):
            for name, val in _bindings(n.ast).items():
                defs.setdefault(name, []).append(val)
    params = set(fn.params())

    class Sub(ast.NodeTransformer):
        depth = 0

        def visit_Name(self, node: ast.Name):
            if isinstance(node.ctx, ast.Load) and node.id not in params and \
                    len(defs.get(node.id, [])) == 1 and \
                    defs[node.id][0] is not None and Sub.depth < 8:
                Sub.depth += 1
                out = self.visit(_clone(defs[node.id][0]))
                Sub.depth -= 1
                return out
            return node

    out = []
    for r in rets:
        if r.ast.value is None:
            out.append(ast.Constant(value=None))
            continue
        e = Sub().visit(_clone(r.ast.value))
        e = simplify(ctx, fn, e)
        out.append(ast.fix_missing_locations(e))
    return out


def simplify(ctx, fn: FunctionInfo, e: ast.AST, depth: int = 4) -> ast.AST:
    class S(ast.NodeTransformer):

        def visit_Call(self, node: ast.Call):
            self.generic_visit(node)
            f = node.func
            # partial(g, *a, **kw)(*b, **kw2) -> g(*a, *b, **kw, **kw2)
            if isinstance(f, ast.Call) and (dotted(f.func) or "").split(
                    ".")[-1] == "partial" and f.args:
                return ast.Call(func=f.args[0], args=f.args[1:] + node.args,
                                keywords=f.keywords + node.keywords)
            # module-level single-return helper
            if isinstance(f, ast.Name) and depth > 0:
                h = fn.module.functions.get(f.id)
                if h is not None and not node.keywords and len(node.args) == \
                        len(h.params()):
                    body = [s for s in h.node.body if not (
                        isinstance(s, ast.Expr) and isinstance(
                            s.value, ast.Constant))]
                    if len(body) == 1 and isinstance(body[0], ast.Return) and \
                            body[0].value is not None:
                        m = dict(zip(h.params(), node.args))

                        class P(ast.NodeTransformer):

                            def visit_Name(self, n):
                                return _clone(m[n.id]) if n.id in m \
                                    else n

                        return simplify(ctx, fn, P().visit(_clone(
                            body[0].value)), depth - 1)
            return node

    return S().visit(e)
