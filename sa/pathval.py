"""Path-specialised expression resolution: what a function returns when some
names have known constant values.  The CFG is specialised on `env` (dead
branches / match arms removed); the returned expression is then resolved by
substituting locals that have exactly one live definition (tuple unpacking
included), `functools.partial(f, ...)(x)` is rewritten to `f(x, ...)`, and
calls of module-level single-return helpers are replaced by their body.
Nothing is executed."""
from __future__ import annotations

from sa.model import clone as _clone

import ast
import copy

from sa.cfg import CFG
from sa.model import FunctionInfo, dotted

RAISES = "RAISES"


def _bindings(stmt: ast.stmt):
    """name -> defining expression for one assignment statement."""
    out: dict[str, ast.AST] = {}
    if isinstance(stmt, ast.AnnAssign) and stmt.value is not None and \
            isinstance(stmt.target, ast.Name):
        out[stmt.target.id] = stmt.value
    elif isinstance(stmt, ast.Assign):
        for t in stmt.targets:
            if isinstance(t, ast.Name):
                out[t.id] = stmt.value
            elif isinstance(t, (ast.Tuple, ast.List)) and isinstance(
                    stmt.value, (ast.Tuple, ast.List)) and len(t.elts) == len(
                        stmt.value.elts):
                for a, b in zip(t.elts, stmt.value.elts):
                    if isinstance(a, ast.Name):
                        out[a.id] = b
            elif isinstance(t, (ast.Tuple, ast.List)):
                for a in t.elts:
                    if isinstance(a, ast.Name):
                        out[a.id] = None  # bound, value not syntactic
    return out


def returned_on(ctx, fn: FunctionInfo, env: dict) -> list[ast.AST] | str:
    """Resolved expressions `fn` can return under `env`, or RAISES when no
    return is reachable without an exception edge."""
    # a local that only ever holds one of the specialised values carries it
    env = dict(env)
    from sa.valuation import single_defs
    for name, val in single_defs(fn).items():
        d = dotted(val) if isinstance(val, (ast.Name, ast.Attribute)) else None
        if d is not None and d in env and name not in env:
            env[name] = env[d]
    cfg = CFG(fn, env=env)
    live = cfg.reachable([cfg.entry], follow=lambda a, b, lab: lab != "exc")
    rets = [n for n in cfg.nodes if n in live and n.kind == "stmt" and
            isinstance(n.ast, ast.Return)]
    if not rets and cfg.exit not in live:
        return RAISES
    defs: dict[str, list] = {}
    for n in cfg.nodes:
        if n in live and n.kind == "stmt" and isinstance(
                n.ast, (ast.Assign, ast.AnnAssign)):
            for name, val in _bindings(n.ast).items():
                defs.setdefault(name, []).append(val)
    params = set(fn.params())

    class Sub(ast.NodeTransformer):
        depth = 0

        def visit_Name(self, node: ast.Name):
            if isinstance(node.ctx, ast.Load) and node.id not in params and \
                    len(defs.get(node.id, [])) == 1 and \
                    defs[node.id][0] is not None and Sub.depth < 8:
                Sub.depth += 1
                out = self.visit(_clone(defs[node.id][0]))
                Sub.depth -= 1
                return out
            return node

    out = []
    for r in rets:
        if r.ast.value is None:
            out.append(ast.Constant(value=None))
            continue
        e = Sub().visit(_clone(r.ast.value))
        e = simplify(ctx, fn, e)
        out.append(ast.fix_missing_locations(e))
    return out


def simplify(ctx, fn: FunctionInfo, e: ast.AST, depth: int = 4) -> ast.AST:
    class S(ast.NodeTransformer):

        def visit_Call(self, node: ast.Call):
            self.generic_visit(node)
            f = node.func
            # partial(g, *a, **kw)(*b, **kw2) -> g(*a, *b, **kw, **kw2)
            if isinstance(f, ast.Call) and (dotted(f.func) or "").split(
                    ".")[-1] == "partial" and f.args:
                return ast.Call(func=f.args[0], args=f.args[1:] + node.args,
                                keywords=f.keywords + node.keywords)
            # module-level single-return helper
            if isinstance(f, ast.Name) and depth > 0:
                h = fn.module.functions.get(f.id)
                if h is not None and not node.keywords and len(node.args) == \
                        len(h.params()):
                    body = [s for s in h.node.body if not (
                        isinstance(s, ast.Expr) and isinstance(
                            s.value, ast.Constant))]
                    if len(body) == 1 and isinstance(body[0], ast.Return) and \
                            body[0].value is not None:
                        m = dict(zip(h.params(), node.args))

                        class P(ast.NodeTransformer):

                            def visit_Name(self, n):
                                return _clone(m[n.id]) if n.id in m \
                                    else n

                        return simplify(ctx, fn, P().visit(_clone(
                            body[0].value)), depth - 1)
            return node

    return S().visit(e)


def call_oracle(ctx, fn: FunctionInfo, env: dict, depth: int = 2):
    """CFG oracle: a test that is a call of an internal function whose
    result, specialised on the constants the call passes (and the global
    constants of `env`), is one constant - that constant's truth."""
    from sa.rules.common import passed_expr

    def value_of(e):
        if isinstance(e, ast.Constant):
            return True, e.value
        d = dotted(e) if isinstance(e, (ast.Name, ast.Attribute)) else None
        if d is not None and d in env:
            return True, env[d]
        return False, None

    def oracle(test: ast.AST):
        neg = False
        while isinstance(test, ast.UnaryOp) and isinstance(test.op, ast.Not):
            neg = not neg
            test = test.operand
        if not isinstance(test, ast.Call) or depth <= 0:
            return None
        targets = [t for t in ctx.internal_targets(fn, test)
                   if not isinstance(t.node, ast.Lambda)]
        if len(targets) != 1:
            return None
        callee = targets[0]
        # globals (dotted names with a module prefix) stay valid in the callee
        env2 = {k: v for k, v in env.items() if "." in k and
                not k.startswith(("self.", "cls."))}
        for p in callee.params():
            a = passed_expr(test, callee, p)
            if a is None:
                continue
            known, v = value_of(a)
            if known:
                env2[p] = v
        r = returned_on(ctx, callee, env2)
        if r == RAISES:
            return None
        vals = set()
        for x in r:
            if isinstance(x, ast.Constant):
                vals.add(bool(x.value))
            else:
                return None
        if len(vals) != 1:
            return None
        v = vals.pop()
        return (not v) if neg else v

    return oracle


def expr_oracle(fn: FunctionInfo, env: dict):
    """CFG oracle: evaluate a test after substituting single-definition
    locals and the constants of `env`; understands dict / list / tuple / set
    literals (`in`, `.get(k)`, `[k]`), `is None`, `==`."""
    from sa.norm import expand

    UNK = object()

    def ev(e):
        if isinstance(e, ast.Constant):
            return e.value
        d = dotted(e) if isinstance(e, (ast.Name, ast.Attribute)) else None
        if d is not None and d in env:
            return env[d]
        if isinstance(e, ast.Dict):
            out = {}
            for k, v in zip(e.keys, e.values):
                kk = ev(k) if k is not None else UNK
                if kk is UNK:
                    return UNK
                out[kk] = v
            return out
        if isinstance(e, (ast.List, ast.Tuple, ast.Set)):
            vals = [ev(x) for x in e.elts]
            return UNK if any(v is UNK for v in vals) else vals
        if isinstance(e, ast.Call) and isinstance(e.func, ast.Attribute) and \
                e.func.attr == "get" and 1 <= len(e.args) <= 2:
            tbl, k = ev(e.func.value), ev(e.args[0])
            if isinstance(tbl, dict) and k is not UNK:
                if k in tbl:
                    return ("value", tbl[k])
                return ev(e.args[1]) if len(e.args) == 2 else None
            return UNK
        if isinstance(e, ast.Subscript):
            tbl, k = ev(e.value), ev(e.slice)
            if isinstance(tbl, dict) and k is not UNK and k in tbl:
                return ("value", tbl[k])
            return UNK
        if isinstance(e, ast.UnaryOp) and isinstance(e.op, ast.Not):
            v = ev(e.operand)
            return UNK if v is UNK else (not v)
        if isinstance(e, ast.Compare) and len(e.ops) == 1:
            a, b = ev(e.left), ev(e.comparators[0])
            op = e.ops[0]
            if a is UNK or b is UNK:
                return UNK
            if isinstance(op, ast.Is):
                return a is b if (a is None or b is None) else UNK
            if isinstance(op, ast.IsNot):
                return a is not b if (a is None or b is None) else UNK
            if isinstance(a, tuple) or isinstance(b, tuple) and not \
                    isinstance(op, (ast.In, ast.NotIn)):
                return UNK
            try:
                if isinstance(op, ast.Eq):
                    return a == b
                if isinstance(op, ast.NotEq):
                    return a != b
                if isinstance(op, ast.In):
                    return a in b
                if isinstance(op, ast.NotIn):
                    return a not in b
            except TypeError:
                return UNK
        return UNK

    def oracle(test: ast.AST):
        v = ev(expand(fn, test))
        if v is UNK:
            return None
        if isinstance(v, tuple) and v and v[0] == "value":
            return None  # some object: truthiness unknown here
        return bool(v)

    return oracle
