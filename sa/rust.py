"""E8 - Rust facts: syn syntax trees of rust/src/*.rs as JSON (see
/verif/rsfacts). Rules over the facts are written in Python."""
from __future__ import annotations

import json
import os
import subprocess
from pathlib import Path
from typing import Callable, Iterator

from sa.model import AnalysisError

TOOL_DIR = Path(__file__).resolve().parent.parent / "rsfacts"
BINARY = TOOL_DIR / "target" / "release" / "rsfacts"
RUST_FILES = ["rust/src/lib.rs", "rust/src/parallel_map.rs",
              "rust/src/example_iteration.rs", "rust/src/shard_generated.rs"]


def ensure_tool() -> Path:
    src_files = [TOOL_DIR / "src" / "main.rs", TOOL_DIR / "Cargo.toml"]
    if BINARY.exists() and all(
            BINARY.stat().st_mtime >= s.stat().st_mtime for s in src_files):
        return BINARY
    env = dict(os.environ, CARGO_NET_OFFLINE="true")
    try:
        r = subprocess.run(["cargo", "build", "--offline", "--release"],
                           cwd=TOOL_DIR, env=env, capture_output=True,
                           text=True, timeout=600)
    except (OSError, subprocess.TimeoutExpired) as e:
        raise AnalysisError(f"rsfacts build failed: {e}") from e
    if r.returncode != 0 or not BINARY.exists():
        raise AnalysisError("rsfacts build failed: " + r.stderr[-800:])
    return BINARY


def walk(node) -> Iterator[dict]:
    """All dict nodes (pre-order)."""
    if isinstance(node, dict):
        yield node
        for v in node.values():
            if isinstance(v, (dict, list)):
                yield from walk(v)
    elif isinstance(node, list):
        for x in node:
            yield from walk(x)


def walk_no_closure(node) -> Iterator[dict]:
    if isinstance(node, dict):
        yield node
        if node.get("k") == "Closure":
            return
        for v in node.values():
            if isinstance(v, (dict, list)):
                yield from walk_no_closure(v)
    elif isinstance(node, list):
        for x in node:
            yield from walk_no_closure(x)


def kind(n, k: str) -> bool:
    return isinstance(n, dict) and n.get("k") == k


def text(n) -> str:
    return n.get("text", "") if isinstance(n, dict) else ""


def norm(t: str) -> str:
    return "".join(t.split())


class RustFn:

    def __init__(self, file: str, node: dict):
        self.file = file
        self.node = node
        self.qual: str = node["qual"]
        self.name: str = node["name"]
        self.line: int = node["line"]
        self.body: list = node["body"]

    def loc(self, n=None) -> str:
        return f"{self.file}:{(n or self.node).get('line', self.line)}"

    def find(self, pred: Callable[[dict], bool], closures: bool = True):
        it = walk(self.body) if closures else walk_no_closure(self.body)
        return [n for n in it if pred(n)]

    def method_calls(self, method: str | None = None, closures: bool = True):
        return self.find(lambda n: kind(n, "MethodCall") and
                         (method is None or n["method"] == method), closures)

    def macros(self, name: str | None = None):
        return self.find(lambda n: n.get("k") in ("Macro", "MacroStmt") and
                         (name is None or n["path"] == name))


class RustFacts:

    def __init__(self, repo_root: Path, overlay: dict[str, str] | None = None):
        tool = ensure_tool()
        overlay = overlay or {}
        self.files: dict[str, list] = {}
        for rel in RUST_FILES:
            p = Path(repo_root) / rel
            if rel in overlay:
                r = subprocess.run([str(tool), "--stdin", rel],
                                   input=overlay[rel], capture_output=True,
                                   text=True, timeout=60)
            else:
                if not p.exists():
                    raise AnalysisError(f"anchor vanished: {rel}")
                r = subprocess.run([str(tool), str(p)], capture_output=True,
                                   text=True, timeout=60)
            if r.returncode != 0:
                raise AnalysisError(f"rsfacts failed on {rel}: {r.stderr[-400:]}")
            data = json.loads(r.stdout)["files"]
            self.files[rel] = next(iter(data.values()))
        self.functions: dict[str, RustFn] = {}
        self.enums: dict[str, dict] = {}
        self.consts: dict[str, list[tuple[str, dict]]] = {}
        self.statics: dict[str, dict] = {}
        for rel, items in self.files.items():
            self._index(rel, items)
        self.inline_log: list[str] = []
        ref_file = Path(__file__).parent / "reference_functions.json"
        reference = set(json.loads(ref_file.read_text()).get(
            "rust_functions", []))
        if reference:
            self.inline_log = inline_helpers(self, reference)

    def _index(self, rel: str, items) -> None:
        for it in items or []:
            k = it.get("k")
            if k == "Fn":
                self.functions[f"{rel}::{it['qual']}"] = RustFn(rel, it)
            elif k == "Impl":
                for sub in it["items"]:
                    if sub.get("k") == "Fn":
                        self.functions[f"{rel}::{sub['qual']}"] = RustFn(rel, sub)
                    elif sub.get("k") == "Const":
                        self.consts.setdefault(sub["name"], []).append(
                            (f"{rel}::{it['self_ty']}", sub))
            elif k == "Mod":
                self._index(rel, it.get("items"))
            elif k == "Enum":
                self.enums[it["name"]] = dict(it, file=rel)
            elif k == "Const":
                self.consts.setdefault(it["name"], []).append((rel, it))
            elif k == "Static":
                self.statics[it["name"]] = dict(it, file=rel)

    def fn(self, file: str, qual: str) -> RustFn:
        key = f"{file}::{qual}"
        if key not in self.functions:
            raise AnalysisError(f"anchor vanished: rust function {key}")
        return self.functions[key]

    def non_test_functions(self) -> list[RustFn]:
        return [f for k, f in self.functions.items()
                if "::tests::" not in k and not f.qual.startswith("tests::")
                and "shard_generated" not in k]


# ---------------------------------------------------------------------------
# Normalisation by inlining (Rust side): functions that are not in the
# reference decomposition (reference_functions.json, "rust_functions") are
# helpers somebody extracted; their body is spliced into the call sites on
# the syntax tree (parameters substituted, texts of rebuilt expressions
# regenerated) so the rules see the shape they were confirmed on.

def _retext(n) -> str:
    """Token text of an expression node rebuilt from its children (spacing
    is irrelevant: rules compare texts through norm())."""
    if not isinstance(n, dict):
        return ""
    k = n.get("k")
    if k == "Path":
        return n["path"]
    if k == "Field":
        return f"{_retext(n['base'])}.{n['member']}"
    if k == "Index":
        return f"{_retext(n['base'])}[{_retext(n['index'])}]"
    if k == "MethodCall":
        return (f"{_retext(n['recv'])}.{n['method']}{n.get('turbofish') or ''}"
                f"({', '.join(_retext(a) for a in n['args'])})")
    if k == "Call":
        return f"{_retext(n['func'])}({', '.join(_retext(a) for a in n['args'])})"
    if k == "Ref":
        return "&" + ("mut " if n.get("mutable") else "") + _retext(n["expr"])
    if k == "Unary":
        return f"{n['op']}{_retext(n['expr'])}"
    if k == "Try":
        return f"{_retext(n['expr'])}?"
    if k == "Binary":
        return f"{_retext(n['left'])} {n['op']} {_retext(n['right'])}"
    if k == "Assign":
        return f"{_retext(n['left'])} = {_retext(n['right'])}"
    if k == "Tuple":
        return "(" + ", ".join(_retext(a) for a in n["elems"]) + ")"
    if k == "Cast":
        return f"{_retext(n['expr'])} as {n['ty']}"
    if k == "Lit":
        return n["value"]
    return n.get("text", "")


_RETEXT_KINDS = {"Path", "Field", "Index", "MethodCall", "Call", "Ref", "Unary",
                 "Try", "Binary", "Assign", "Tuple", "Cast"}


def _substitute(node, mapping: dict[str, dict]):
    """Deep copy of `node` with Path nodes naming a parameter replaced by
    the argument node; returns (copy, changed)."""
    import copy as _copy
    if isinstance(node, list):
        out, ch = [], False
        for x in node:
            y, c = _substitute(x, mapping)
            out.append(y)
            ch = ch or c
        return out, ch
    if not isinstance(node, dict):
        return node, False
    if node.get("k") == "Path" and node.get("path") in mapping:
        return _copy.deepcopy(mapping[node["path"]]), True
    if node.get("k") == "Closure":
        # closure parameters shadow
        shadow = {p.get("name") for p in walk(node.get("inputs"))
                  if isinstance(p, dict) and p.get("k") == "PIdent"}
        mapping = {k: v for k, v in mapping.items() if k not in shadow}
    out = {}
    changed = False
    for key, v in node.items():
        if isinstance(v, (dict, list)):
            out[key], c = _substitute(v, mapping)
            changed = changed or c
        else:
            out[key] = v
    if changed and out.get("k") in _RETEXT_KINDS:
        out["text"] = _retext(out)
    elif changed and "text" in out:
        # statement / compound node: patch the text by plain replacement of
        # parameter identifiers is not reliable; rebuild from the expression
        # when there is exactly one
        inner = out.get("expr") or out.get("init")
        if isinstance(inner, dict) and out.get("k") in ("ExprStmt", ):
            out["text"] = _retext(inner) + (";" if out.get("semi") else "")
    return out, changed


def _has_return(body) -> bool:
    return any(kind(n, "Return") for n in walk_no_closure(body))


def _last_segment(path: str) -> str:
    p = path.replace(" ", "")
    # drop turbofish / generic arguments
    out, depth = "", 0
    for ch in p:
        if ch == "<":
            depth += 1
        elif ch == ">":
            depth -= 1
        elif depth == 0:
            out += ch
    return out.split("::")[-1]


def inline_helpers(facts: "RustFacts", reference: set[str]) -> list[str]:
    """Inline every non-reference, non-test function into its callers.
    Returns a log; helpers that were inlined and are no longer mentioned are
    removed from facts.functions."""
    log: list[str] = []
    for _round in range(3):
        helpers: dict[str, RustFn] = {}
        names_seen: dict[str, int] = {}
        for key, f in facts.functions.items():
            names_seen[f.name] = names_seen.get(f.name, 0) + 1
        for key, f in facts.functions.items():
            if key in reference or "::tests::" in key or \
                    f.qual.startswith("tests::") or "shard_generated" in key:
                continue
            if names_seen[f.name] != 1 or _has_return(f.body):
                continue
            if any(kind(n, "Call") and _last_segment(text(n["func"])) == f.name
                   or kind(n, "MethodCall") and n["method"] == f.name
                   for n in walk(f.body)):
                continue  # recursive
            helpers[f.name] = f
        changed_any = False

        # Type::name paths select among same-named associated functions
        by_qual: dict[str, RustFn] = {}
        for key, f in facts.functions.items():
            if key in reference or "::tests::" in key or \
                    f.qual.startswith("tests::") or "shard_generated" in key \
                    or _has_return(f.body):
                continue
            segs = [x for x in f.qual.replace("<", " ").replace(">", " ")
                    .replace(" for ", " ").split("::") if x]
            if len(segs) >= 2:
                by_qual["::".join(s_.strip() for s_ in segs[-2:])] = f

        def _qualified_helper(path: str):
            p = path.replace(" ", "")
            out_, depth_ = "", 0
            for ch in p:
                if ch == "<":
                    depth_ += 1
                elif ch == ">":
                    depth_ -= 1
                elif depth_ == 0:
                    out_ += ch
            segs = [x for x in out_.split("::") if x]
            if len(segs) >= 2 and "::".join(segs[-2:]) in by_qual:
                return by_qual["::".join(segs[-2:])]
            if segs and segs[-1] in helpers and len(segs) == 1:
                return helpers[segs[-1]]
            if len(segs) >= 2 and segs[-2] in ("Self", "self") and \
                    segs[-1] in helpers:
                return helpers[segs[-1]]
            return None

        def params_of(h: RustFn):
            ps = []
            for p in h.node.get("params", []):
                nm = p["name"].replace("mut ", "").strip()
                ps.append(nm)
            return ps

        def tx(node):
            nonlocal changed_any
            if isinstance(node, list):
                return [tx(x) for x in node]
            if not isinstance(node, dict):
                return node
            node = {k: (tx(v) if isinstance(v, (dict, list)) else v)
                    for k, v in node.items()}
            h = None
            args = None
            if node.get("k") == "MethodCall" and node["method"] in helpers:
                h = helpers[node["method"]]
                ps = params_of(h)
                if ps[:1] == ["self"] and len(node["args"]) == len(ps) - 1:
                    args = [node["recv"]] + node["args"]
                else:
                    h = None
            elif node.get("k") == "Call" and kind(node.get("func"), "Path") and \
                    _qualified_helper(node["func"]["path"]) is not None:
                h = _qualified_helper(node["func"]["path"])
                ps = params_of(h)
                if len(node["args"]) == len(ps):
                    args = node["args"]
                else:
                    h = None
            if h is None or args is None:
                return node
            ps = params_of(h)
            if any(not p.isidentifier() for p in ps):
                return node
            mapping = dict(zip(ps, args))
            # an argument passed by reference to a `&T` parameter is used
            # through auto-deref in the body: substitute the referent
            for p, a in list(mapping.items()):
                if kind(a, "Ref"):
                    mapping[p] = a["expr"]
            body, _ = _substitute(h.body, mapping)
            changed_any = True
            log.append(f"{h.qual} into a caller at line {node.get('line')}")
            return {"k": "Block", "line": node.get("line"),
                    "text": node.get("text", ""), "stmts": body,
                    "inlined": h.qual}

        used: set[str] = set()
        for key, f in list(facts.functions.items()):
            if f.name in helpers and facts.functions.get(key) is helpers[f.name]:
                # helpers are themselves transformed (nested helpers)
                pass
            new_body = tx(f.body)
            f.body = new_body
            f.node["body"] = new_body
        if not changed_any:
            break
        # drop helpers nobody mentions any more
        for name, h in helpers.items():
            mentioned = False
            for key, f in facts.functions.items():
                if f is h:
                    continue
                for n in walk(f.body):
                    if kind(n, "MethodCall") and n["method"] == name and \
                            not n.get("inlined"):
                        mentioned = True
                    if kind(n, "Path") and _last_segment(n["path"]) == name:
                        mentioned = True
            if not mentioned:
                for key in [k for k, f in facts.functions.items() if f is h]:
                    del facts.functions[key]
                    log.append(f"removed inlined helper {h.qual}")
    return log
