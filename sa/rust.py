"""E8 - Rust facts: syn syntax trees of rust/src/*.rs as JSON (see
/verif/rsfacts). Rules over the facts are written in Python."""
from __future__ import annotations

import json
import os
import subprocess
from pathlib import Path
from typing import Callable, Iterator

from sa.model import AnalysisError

TOOL_DIR = Path(__file__).resolve().parent.parent / "rsfacts"
BINARY = TOOL_DIR / "target" / "release" / "rsfacts"
RUST_FILES = ["rust/src/lib.rs", "rust/src/parallel_map.rs",
              "rust/src/example_iteration.rs", "rust/src/shard_generated.rs"]


def ensure_tool() -> Path:
    src_files = [TOOL_DIR / "src" / "main.rs", TOOL_DIR / "Cargo.toml"]
    if BINARY.exists() and all(
            BINARY.stat().st_mtime >= s.stat().st_mtime for s in src_files):
        return BINARY
    env = dict(os.environ, CARGO_NET_OFFLINE="true")
    try:
        r = subprocess.run(["cargo", "build", "--offline", "--release"],
                           cwd=TOOL_DIR, env=env, capture_output=True,
                           text=True, timeout=600)
    except (OSError, subprocess.TimeoutExpired) as e:
        raise AnalysisError(f"rsfacts build failed: {e}") from e
    if r.returncode != 0 or not BINARY.exists():
        raise AnalysisError("rsfacts build failed: " + r.stderr[-800:])
    return BINARY


def walk(node) -> Iterator[dict]:
    """All dict nodes (pre-order)."""
    if isinstance(node, dict):
        yield node
        for v in node.values():
            if isinstance(v, (dict, list)):
                yield from walk(v)
    elif isinstance(node, list):
        for x in node:
            yield from walk(x)


def walk_no_closure(node) -> Iterator[dict]:
    if isinstance(node, dict):
        yield node
        if node.get("k") == "Closure":
            return
        for v in node.values():
            if isinstance(v, (dict, list)):
                yield from walk_no_closure(v)
    elif isinstance(node, list):
        for x in node:
            yield from walk_no_closure(x)


def kind(n, k: str) -> bool:
    return isinstance(n, dict) and n.get("k") == k


def text(n) -> str:
    return n.get("text", "") if isinstance(n, dict) else ""


def norm(t: str) -> str:
    return "".join(t.split())


class RustFn:

    def __init__(self, file: str, node: dict):
        self.file = file
        self.node = node
        self.qual: str = node["qual"]
        self.name: str = node["name"]
        self.line: int = node["line"]
        self.body: list = node["body"]

    def loc(self, n=None) -> str:
        return f"{self.file}:{(n or self.node).get('line', self.line)}"

    def find(self, pred: Callable[[dict], bool], closures: bool = True):
        it = walk(self.body) if closures else walk_no_closure(self.body)
        return [n for n in it if pred(n)]

    def method_calls(self, method: str | None = None, closures: bool = True):
        return self.find(lambda n: kind(n, "MethodCall") and
                         (method is None or n["method"] == method), closures)

    def macros(self, name: str | None = None):
        return self.find(lambda n: n.get("k") in ("Macro", "MacroStmt") and
                         (name is None or n["path"] == name))


class RustFacts:

    def __init__(self, repo_root: Path, overlay: dict[str, str] | None = None):
        tool = ensure_tool()
        overlay = overlay or {}
        self.files: dict[str, list] = {}
        for rel in RUST_FILES:
            p = Path(repo_root) / rel
            if rel in overlay:
                r = subprocess.run([str(tool), "--stdin", rel],
                                   input=overlay[rel], capture_output=True,
                                   text=True, timeout=60)
            else:
                if not p.exists():
                    raise AnalysisError(f"anchor vanished: {rel}")
                r = subprocess.run([str(tool), str(p)], capture_output=True,
                                   text=True, timeout=60)
            if r.returncode != 0:
                raise AnalysisError(f"rsfacts failed on {rel}: {r.stderr[-400:]}")
            data = json.loads(r.stdout)["files"]
            self.files[rel] = next(iter(data.values()))
        self.functions: dict[str, RustFn] = {}
        self.enums: dict[str, dict] = {}
        self.consts: dict[str, list[tuple[str, dict]]] = {}
        self.statics: dict[str, dict] = {}
        for rel, items in self.files.items():
            self._index(rel, items)

    def _index(self, rel: str, items) -> None:
        for it in items or []:
            k = it.get("k")
            if k == "Fn":
                self.functions[f"{rel}::{it['qual']}"] = RustFn(rel, it)
            elif k == "Impl":
                for sub in it["items"]:
                    if sub.get("k") == "Fn":
                        self.functions[f"{rel}::{sub['qual']}"] = RustFn(rel, sub)
                    elif sub.get("k") == "Const":
                        self.consts.setdefault(sub["name"], []).append(
                            (f"{rel}::{it['self_ty']}", sub))
            elif k == "Mod":
                self._index(rel, it.get("items"))
            elif k == "Enum":
                self.enums[it["name"]] = dict(it, file=rel)
            elif k == "Const":
                self.consts.setdefault(it["name"], []).append((rel, it))
            elif k == "Static":
                self.statics[it["name"]] = dict(it, file=rel)

    def fn(self, file: str, qual: str) -> RustFn:
        key = f"{file}::{qual}"
        if key not in self.functions:
            raise AnalysisError(f"anchor vanished: rust function {key}")
        return self.functions[key]

    def non_test_functions(self) -> list[RustFn]:
        return [f for k, f in self.functions.items()
                if "::tests::" not in k and not f.qual.startswith("tests::")
                and "shard_generated" not in k]
