"""Shared analysis context: program model, resolver, call graph, CFG cache,
effect table (E5) and small AST query helpers used by the rules."""
from __future__ import annotations

import ast
from typing import Iterable, Iterator

from sa.cfg import CFG, Node
from sa.model import (AnalysisError, FunctionInfo, Repo, ancestors, dotted,
                      parent, short, src)
from sa.resolve import CallGraph, Resolver, Target, build_callgraph

# Floor for internal call resolution (measured on the pinned tree: 92%).
RESOLUTION_FLOOR = 0.85

WRITE_MODE_CHARS = set("wxa+")


class Context:

    def __init__(self, tier: str = "quick", overlay: dict[str, str] | None = None,
                 root=None, normalise_helpers: bool = True):
        self.tier = tier
        self.repo = Repo(root=root, overlay=overlay)
        self.inline_log: list[str] = []
        if normalise_helpers:
            from sa.inline import normalise
            self.repo, self.inline_log = normalise(self.repo, Resolver)
        self.res = Resolver(self.repo)
        self._cg: CallGraph | None = None
        self._cfgs: dict[tuple, CFG] = {}
        self._rust = None
        self.overlay = overlay or {}

    # -- basics -------------------------------------------------------------
    def fn(self, fq: str) -> FunctionInfo:
        return self.repo.func(fq)

    @property
    def cg(self) -> CallGraph:
        if self._cg is None:
            self._cg = build_callgraph(self.repo, self.res)
        return self._cg

    def cfg(self, fn: FunctionInfo, env: dict[str, object] | None = None) -> CFG:
        key = (fn.fq, tuple(sorted((k, repr(v)) for k, v in (env or {}).items())))
        if key not in self._cfgs:
            self._cfgs[key] = CFG(fn, env)
        return self._cfgs[key]

    def analysed(self) -> dict:
        d = dict(self.repo.stats())
        d["source_digest"] = self.repo.digest()
        d["repo"] = str(self.repo.root)
        if self.inline_log:
            d["normalised_helpers"] = self.inline_log[:20]
        if self._cg is not None:
            d["calls_total"] = self.res.stats["calls"]
            d["calls_resolved"] = self.res.stats["resolved"]
        if self._rust is not None:
            d["rust_functions"] = len(self._rust.functions)
            d["rust_files"] = sorted(self._rust.files)
        return d

    def check_resolution_floor(self) -> None:
        if self._cg is None:
            return
        total = self.res.stats["calls"]
        if total and self.res.stats["resolved"] / total < RESOLUTION_FLOOR:
            raise AnalysisError(
                f"call resolution {self.res.stats['resolved']}/{total} below "
                f"the floor {RESOLUTION_FLOOR}")

    @property
    def rust(self):
        if self._rust is None:
            from sa.rust import RustFacts
            self._rust = RustFacts(self.repo.root, self.overlay)
        return self._rust

    # -- call helpers -----------------------------------------------------------
    def names(self, fn: FunctionInfo, call: ast.Call) -> set[str]:
        return self.res.callee_names(fn, call)

    def is_call(self, fn: FunctionInfo, call: ast.AST, *names: str,
                method: str | None = None) -> bool:
        """Does `call` resolve to one of the dotted names (suffix match on
        "module.func" allowed), or is it a method call `.method(...)`?"""
        if not isinstance(call, ast.Call):
            return False
        if method is not None and isinstance(
                call.func, ast.Attribute) and call.func.attr == method:
            return True
        if not names:
            return False
        got = self.names(fn, call)
        for g in got:
            for n in names:
                if g == n or g.endswith("." + n) or g.endswith(":" + n):
                    return True
        return False

    def calls_in(self, fn: FunctionInfo, *names: str,
                 method: str | None = None) -> list[ast.Call]:
        return [c for c in fn.calls() if self.is_call(fn, c, *names,
                                                      method=method)]

    @staticmethod
    def arg(call: ast.Call, pos: int | None, name: str | None) -> ast.AST | None:
        if name is not None:
            for k in call.keywords:
                if k.arg == name:
                    return k.value
        if pos is not None and pos < len(call.args) and not any(
                isinstance(a, ast.Starred) for a in call.args[:pos + 1]):
            return call.args[pos]
        return None

    def internal_targets(self, fn: FunctionInfo,
                         call: ast.Call) -> list[FunctionInfo]:
        out = []
        for t in self.res.resolve_call(fn, call, count=False):
            if t.kind == "internal" and t.fn is not None:
                out.append(t.fn)
            elif t.kind == "class" and t.cls is not None:
                init = self.repo.find_method(t.cls, "__init__")
                if init is not None:
                    out.append(init)
        return out

    # -- effects (E5) -------------------------------------------------------------
    def effects(self, fn: FunctionInfo, call: ast.Call) -> set[str]:
        """Effect classes of one call site, from the frozen external table."""
        eff: set[str] = set()
        names = self.names(fn, call)
        f = call.func
        attr = f.attr if isinstance(f, ast.Attribute) else None
        recv_t = None
        if isinstance(f, ast.Attribute):
            recv_t = self.res.infer(fn, f.value)
        recv_name = recv_t.name if recv_t is not None else None

        def has(*suffixes: str) -> bool:
            return any(n == s or n.endswith("." + s) for n in names
                       for s in suffixes)

        # open()
        if has("open") and (names & {"open", "aiofiles.open", "io.open",
                                     "gzip.open", "bz2.open", "lzma.open"} or
                            attr == "open"):
            mode = self.arg(call, 1, "mode")
            if attr == "open" and not names & {"aiofiles.open", "io.open",
                                               "gzip.open", "bz2.open",
                                               "lzma.open"}:
                mode = self.arg(call, 0, "mode")  # Path.open(mode)
            m = mode.value if isinstance(mode, ast.Constant) and isinstance(
                mode.value, str) else ("r" if mode is None else "?")
            if m == "?" or set(m) & WRITE_MODE_CHARS:
                eff.add("FS_CREATE")
            else:
                eff.add("FS_READ")
        if attr in ("write_text", "write_bytes", "touch", "symlink_to",
                    "hardlink_to", "link_to"):
            eff.add("FS_CREATE")
        if has("numpy.save", "numpy.savez", "numpy.savez_compressed",
               "numpy.savetxt", "tensorflow.io.TFRecordWriter",
               "shutil.copy", "shutil.copy2", "shutil.copyfile",
               "shutil.copytree", "tempfile.NamedTemporaryFile",
               "tempfile.mkstemp"):
            eff.add("FS_CREATE")
        if attr == "tofile":
            eff.add("FS_CREATE")
        if attr in ("rename", ) and recv_name not in ("str", ):
            eff.add("FS_RENAME")
        if attr == "replace" and len(call.args) + len(call.keywords) == 1 \
                and recv_name not in ("str", ):
            eff.add("FS_RENAME")
        if has("os.replace", "os.rename", "os.renames", "shutil.move"):
            eff.add("FS_RENAME")
        if attr in ("unlink", "rmdir", "truncate") or has(
                "os.remove", "os.unlink", "os.rmdir", "os.removedirs",
                "shutil.rmtree", "os.truncate"):
            eff.add("FS_DELETE")
        if attr == "mkdir" or has("os.mkdir", "os.makedirs"):
            eff.add("FS_MKDIR")
        if attr in ("read_text", "read_bytes") or has(
                "numpy.load", "tensorflow.data.TFRecordDataset",
                "numpy.fromfile"):
            eff.add("FS_READ")
        if any(n.startswith(("random.", "numpy.random.", "secrets.")) or
               n.endswith(("itertools.initial_random_state", )) for n in names):
            eff.add("RANDOM")
        if attr in ("imap_unordered", ) or has("concurrent.futures.as_completed"):
            eff.add("UNORDERED")
        return eff

    def fs_sites(self) -> list[tuple[FunctionInfo, ast.Call, set[str]]]:
        out = []
        for fn in self.repo.all_functions():
            for call in fn.calls():
                e = self.effects(fn, call) & {
                    "FS_CREATE", "FS_RENAME", "FS_DELETE", "FS_MKDIR"
                }
                if e:
                    out.append((fn, call, e))
        return out


# -- free AST helpers ---------------------------------------------------------------


def names_in(expr: ast.AST | None) -> set[str]:
    if expr is None:
        return set()
    return {n.id for n in ast.walk(expr) if isinstance(n, ast.Name)}


def dotted_in(expr: ast.AST | None) -> set[str]:
    """All dotted Name/Attribute chains (maximal) in an expression."""
    out: set[str] = set()
    if expr is None:
        return out
    for n in ast.walk(expr):
        if isinstance(n, (ast.Name, ast.Attribute)):
            p = parent(n)
            if isinstance(p, ast.Attribute) and p.value is n:
                continue
            d = dotted(n)
            if d:
                out.add(d)
    return out


def enclosing_stmt(node: ast.AST) -> ast.stmt | None:
    cur: ast.AST | None = node
    while cur is not None and not isinstance(cur, ast.stmt):
        cur = parent(cur)
    return cur  # type: ignore[return-value]


def stmts_of(fn: FunctionInfo) -> Iterator[ast.stmt]:
    for n in fn.body_nodes():
        if isinstance(n, ast.stmt):
            yield n


def is_const(expr: ast.AST | None, value: object) -> bool:
    return isinstance(expr, ast.Constant) and expr.value == value and type(
        expr.value) is type(value)


def raises_in(body: Iterable[ast.stmt]) -> bool:
    """Does this block end by raising on every path (syntactic)?"""
    body = list(body)
    if not body:
        return False
    last = body[-1]
    if isinstance(last, ast.Raise):
        return True
    if isinstance(last, ast.If):
        return raises_in(last.body) and raises_in(last.orelse)
    return False


def const_str(expr: ast.AST | None) -> str | None:
    if isinstance(expr, ast.Constant) and isinstance(expr.value, str):
        return expr.value
    return None
