"""C06 - a writer crash never corrupts or loses committed data: effect
discipline, atomic publish, commit order."""
from __future__ import annotations

import ast
from typing import Callable

from sa.cfg import CFG, Node
from sa.context import Context, const_str, names_in, raises_in
from sa.dataflow import EMPTY, TagFlow
from sa.model import AnalysisError, FunctionInfo, dotted, parent, short

UTILS = "sedpack.io.utils"
SAFE_UPDATE = f"{UTILS}:safe_update_file"
FILLER = "sedpack.io.dataset_filler"
WHO_FLOOR = 7


def fresh_hook(ctx: Context, fn: FunctionInfo):
    def hook(e, state, rec):
        if isinstance(e, ast.Call) and ctx.is_call(fn, e, "uuid.uuid4",
                                                   "uuid.uuid1"):
            return frozenset({"fresh"})
        return None
    return hook


def must_precede(ctx: Context, rep, rule: str, fn: FunctionInfo,
                 first: Callable[[Node], bool], then: Callable[[Node], bool],
                 what: str, env=None, need_then: bool = True,
                 need_first: bool = True) -> None:
    cfg = ctx.cfg(fn, env)
    fnodes = cfg.find(first)
    tnodes = cfg.find(then)
    if need_then and not tnodes:
        raise AnalysisError(f"{rule}: anchor not found in {fn.qualname}: "
                            f"second event of '{what}'")
    if need_first and not fnodes:
        rep.ob(rule, False, loc=fn.loc(), where=fn.qualname, construct=what,
               message="the first event of the required order does not exist")
        return
    missed = cfg.always_before(fnodes, tnodes, normal_only=True)
    rep.ob(rule, not missed, loc=fn.loc(missed[0].ast) if missed else fn.loc(),
           where=fn.qualname, construct=what,
           message="required order on every path" + (
               f"; reachable without the first event: {short(missed[0].ast, 60)}"
               if missed else ""),
           path=cfg.describe_path(cfg.path_to(missed[0], avoiding=fnodes))
           if missed else "")


def never_after(ctx: Context, rep, rule: str, fn: FunctionInfo,
                first: Callable[[Node], bool], then: Callable[[Node], bool],
                what: str) -> None:
    """Both events exist and no `first` event is reachable once a `then`
    event happened (the `first` events may sit in a loop that runs zero
    times, so "on every path before" would be too strong)."""
    cfg = ctx.cfg(fn)
    fnodes = cfg.find(first)
    tnodes = cfg.find(then)
    if not tnodes:
        raise AnalysisError(f"{rule}: anchor not found in {fn.qualname}: "
                            f"second event of '{what}'")
    if not fnodes:
        rep.ob(rule, False, loc=fn.loc(), where=fn.qualname, construct=what,
               message="the first event of the required order does not exist")
        return
    after = cfg.reachable(tnodes, follow=lambda a, b, lab: lab != "exc",
                          strict=True)
    late = [n for n in fnodes if n in after]
    # and the second event cannot be reached around all the first events'
    # region: it must come after the region on the normal path
    before = cfg.reachable(fnodes, follow=lambda a, b, lab: lab != "exc",
                           strict=True)
    unordered = [t for t in tnodes if t not in before]
    bad = late or unordered
    rep.ob(rule, not bad, loc=fn.loc(bad[0].ast) if bad else fn.loc(),
           where=fn.qualname, construct=what,
           message="required order" + (
               f"; `{short(late[0].ast, 50)}` can still run after the second "
               "event" if late else (
                   "; the second event is not downstream of the first"
                   if unordered else "")))


def call_pred(ctx: Context, fn: FunctionInfo, *names: str,
              method: str | None = None, recv: str | None = None):
    def pred(n: Node) -> bool:
        if n.kind != "call":
            return False
        c = n.ast
        if not ctx.is_call(fn, c, *names, method=method):
            return False
        if recv is not None and isinstance(c.func, ast.Attribute):
            return recv in ast.unparse(c.func.value)
        return True
    return pred


def check_who(ctx: Context, rep, rule: str) -> None:
    rep.rule(
        rule,
        "every file-system create / rename / delete / mkdir site of the "
        "package is one of: create of a fresh name (path derives from "
        "uuid4() in the function, or is the shard file whose only "
        "construction chain is _get_new_shard -> Shard -> get_shard_writer), "
        "the atomic publish inside safe_update_file, or mkdir(exist_ok=True); "
        "any write-mode open of another path, write_text/bytes, delete or "
        "truncate is a violation")
    sites = ctx.fs_sites()
    n = 0
    writer_base = ctx.repo.cls("sedpack.io.shard.shard_writer_base:"
                               "ShardWriterBase")
    writer_classes = {c.fq for c in ctx.repo.subclasses(writer_base)} | {
        writer_base.fq}
    for fn, call, eff in sites:
        n += 1
        cfg = ctx.cfg(fn)
        tf = TagFlow(cfg, {}, hook=fresh_hook(ctx, fn))
        from sa.rules.common import node_of
        node = node_of(cfg, call)
        state = tf.at(node) if node is not None else {}
        f = call.func
        path_expr = None
        if isinstance(f, ast.Attribute) and f.attr in (
                "mkdir", "replace", "rename", "unlink", "rmdir", "write_text",
                "write_bytes", "touch", "open", "truncate"):
            path_expr = f.value
        elif call.args:
            path_expr = call.args[0]
        kind = "/".join(sorted(eff))
        ok = False
        why = ""
        if eff == {"FS_MKDIR"}:
            ex = ctx.arg(call, None, "exist_ok")
            ok = isinstance(ex, ast.Constant) and ex.value is True
            why = "mkdir(exist_ok=True) never destroys anything"
        elif eff == {"FS_CREATE"}:
            fresh = path_expr is not None and "fresh" in tf.tags(path_expr, state)
            shard_file = fn.cls is not None and fn.cls.fq in writer_classes and \
                path_expr is not None and "self._shard_file" in ast.unparse(path_expr)
            ok = fresh or shard_file
            why = ("fresh uuid name" if fresh else
                   "shard file of a writer (fresh by construction chain)"
                   if shard_file else "write-mode open of a non-fresh path")
        elif eff == {"FS_RENAME"}:
            ok = fn.fq == SAFE_UPDATE
            why = "atomic publish in safe_update_file" if ok else \
                "rename outside safe_update_file"
        else:
            why = "destructive file-system effect"
        rep.ob(rule, ok, loc=fn.loc(call), where=fn.qualname,
               construct=f"{kind}: {short(call, 70)}", message=why)
    if n < WHO_FLOOR and not rep.violations:
        raise AnalysisError(f"{rule}: {n} file-system effect sites found, "
                            f"floor {WHO_FLOOR}")
    # shard file freshness chain
    new_shard = ctx.fn(f"{FILLER}:_DatasetFillerContext._get_new_shard")
    shard_init = "sedpack.io.shard.shard:Shard.__init__"
    gsw = "sedpack.io.shard.get_shard_writer:get_shard_writer"
    callers_shard = {c for c in ctx.cg.callers(shard_init)}
    callers_gsw = {c for c in ctx.cg.callers(gsw)}
    rep.ob(rule, callers_shard == {new_shard.fq}, loc=new_shard.loc(),
           where="Shard(...)", construct=f"constructed in {sorted(callers_shard)}",
           message="shards are only created by _get_new_shard")
    rep.ob(rule, callers_gsw == {shard_init}, loc=new_shard.loc(),
           where="get_shard_writer(...)",
           construct=f"called from {sorted(callers_gsw)}",
           message="shard writers are only created for a Shard")
    direct = []
    for fn in ctx.repo.all_functions():
        for c in fn.calls():
            for t in ctx.res.resolve_call(fn, c, count=False):
                if t.kind == "class" and t.cls.fq in writer_classes and \
                        fn.fq not in (gsw, ) and not fn.fq.endswith(".__init__"):
                    direct.append(f"{fn.qualname}: {short(c, 40)}")
    rep.ob(rule, not direct, loc=new_shard.loc(), where="ShardWriter*(...)",
           construct=f"direct constructions: {direct}",
           message="writer classes are only instantiated through the "
           "get_shard_writer table")
    from sa.rules.common import interproc
    cfg = ctx.cfg(new_shard)
    tf = TagFlow(cfg, {}, hook=interproc(
        ctx, lambda f: fresh_hook(ctx, f))(new_shard))
    shards = cfg.calls(lambda c: any(
        t.kind == "class" and t.cls.fq == "sedpack.io.shard.shard.Shard"
        for t in ctx.res.resolve_call(new_shard, c, count=False)))
    ok = bool(shards) and all(
        "fresh" in tf.tags_at(n, ctx.arg(n.ast, 0, "shard_info"))
        for n in shards)
    rep.ob(rule, ok, loc=new_shard.loc(), where=new_shard.qualname,
           construct="Shard(shard_info=<FileInfo(<split>/<subdir>/<uuid4>."
           "<type>)>)",
           message="every new shard gets a file name derived from uuid4() "
           "(followed through helpers)")
    si = ctx.fn(shard_init)
    from sa.rules.common import expand_calls

    def own_path(e: ast.AST | None) -> bool:
        # <dataset path> / <own shard_info>.file_infos[0].file_path
        x = expand_calls(ctx, si, e)
        if not (isinstance(x, ast.BinOp) and isinstance(x.op, ast.Div)):
            return False
        right = ast.unparse(x.right)
        return right in ("self.shard_info.file_infos[0].file_path",
                         "shard_info.file_infos[0].file_path") and \
            "dataset_path" in ast.unparse(x.left)

    ok = any(ctx.is_call(si, c, "get_shard_writer.get_shard_writer") and
             own_path(ctx.arg(c, 1, "shard_file")) for c in si.calls())
    rep.ob(rule, ok, loc=si.loc(), where=si.qualname,
           construct="get_shard_writer(shard_file=<dataset path>/"
           "<own shard_info>.file_infos[0].file_path)",
           message="the writer's file is the shard's own (fresh) path")


def check_rename(ctx: Context, rep, rule: str) -> None:
    rep.rule(
        rule,
        "typestate of safe_update_file: the only file opened for writing is "
        "a fresh name in the target's own directory; the complete `info` is "
        "written inside a `with` that is closed before replace(); replace "
        "moves that file onto the target; the hash is computed after the "
        "replace, from the target; nothing else writes the target")
    fn = ctx.fn(SAFE_UPDATE)
    cfg = ctx.cfg(fn)
    tf = TagFlow(cfg, {p: frozenset({"p:" + p}) for p in fn.params()},
                 hook=fresh_hook(ctx, fn))
    opens = [n for n in cfg.calls() if "FS_CREATE" in ctx.effects(fn, n.ast)]
    repl = [n for n in cfg.calls() if "FS_RENAME" in ctx.effects(fn, n.ast)]
    if len(opens) != 1 or len(repl) != 1:
        rep.ob(rule, False, loc=fn.loc(), where=fn.qualname,
               construct=f"{len(opens)} write-open(s), {len(repl)} rename(s)",
               message="exactly one temp-file create and one rename expected")
        return
    op, rp = opens[0], repl[0]
    # open(tmp, mode)  or  tmp.open(mode)
    method_open = isinstance(op.ast.func, ast.Attribute) and \
        op.ast.func.attr == "open" and not ctx.names(fn, op.ast) & {
            "aiofiles.open", "io.open", "gzip.open", "bz2.open", "lzma.open"}
    tmp_expr = op.ast.func.value if method_open else (
        op.ast.args[0] if op.ast.args else None)
    target_expr = rp.ast.args[0] if rp.ast.args else None
    recv = rp.ast.func.value if isinstance(rp.ast.func, ast.Attribute) else None
    tmp_name = dotted(tmp_expr)
    target_name = dotted(target_expr)
    rep.ob(rule, tmp_name is not None and dotted(recv) == tmp_name and
           target_name is not None and target_name != tmp_name,
           loc=fn.loc(rp.ast), where=fn.qualname,
           construct=f"open({tmp_name}) ... {short(rp.ast)}",
           message="the file that was written is the one renamed onto the "
           "target")
    # definition of the temp path: <target>.parent / f"...{uuid}..."
    tdef = None
    for n in fn.body_nodes():
        if isinstance(n, ast.Assign) and any(dotted(t) == tmp_name
                                             for t in n.targets):
            tdef = n.value
    # <target>.parent / NAME, <target>.parent.joinpath(NAME),
    # <target>.with_name(NAME) - temporaries expanded
    from sa.norm import expand as _expand
    tdx = _expand(fn, tdef) if tdef is not None else None
    tgt_x = ast.unparse(_expand(fn, ast.Name(id=target_name or "?",
                                             ctx=ast.Load())))
    tgt_forms = {target_name, tgt_x, f"({tgt_x})"}
    par_forms = {f"{t}.parent" for t in tgt_forms}
    ok_dir = (isinstance(tdx, ast.BinOp) and isinstance(tdx.op, ast.Div) and
              ast.unparse(tdx.left) in par_forms) or (
        isinstance(tdx, ast.Call) and isinstance(tdx.func, ast.Attribute) and (
            (tdx.func.attr == "joinpath" and len(tdx.args) == 1 and
             ast.unparse(tdx.func.value) in par_forms) or
            (tdx.func.attr == "with_name" and len(tdx.args) == 1 and
             ast.unparse(tdx.func.value) in tgt_forms)))
    fresh = tmp_expr is not None and "fresh" in tf.tags_at(op, tmp_expr)
    rep.ob(rule, bool(ok_dir) and fresh, loc=fn.loc(op.ast), where=fn.qualname,
           construct=f"{tmp_name} = {short(tdef)}",
           message="temp file is a sibling of the target (same directory, so "
           f"rename is atomic: {bool(ok_dir)}) with a fresh uuid4 component "
           f"({fresh})")
    # target derives from root / relative_path
    tgt_def = None
    for n in fn.body_nodes():
        if isinstance(n, ast.Assign) and any(dotted(t) == target_name
                                             for t in n.targets):
            tgt_def = n.value
    rep.ob(rule, tgt_def is not None and ast.unparse(tgt_def) ==
           "dataset_root_path / relative_path", loc=fn.loc(), where=fn.qualname,
           construct=f"{target_name} = {short(tgt_def)}",
           message="the target is the requested file under the dataset root")
    # with closes before replace
    w = parent(op.ast)
    while w is not None and not isinstance(w, (ast.With, ast.AsyncWith)):
        w = parent(w)
    in_with = w is not None and any(x is rp.ast for x in ast.walk(w))
    rep.ob(rule, w is not None and not in_with, loc=fn.loc(rp.ast),
           where=fn.qualname,
           construct="with open(tmp) as f: f.write(info)  /  tmp.replace(target)",
           message="the temp file is opened in a `with` and closed (flushed) "
           "before it is renamed over the target")
    # the write of info
    writes = [n for n in cfg.calls() if isinstance(n.ast.func, ast.Attribute)
              and n.ast.func.attr == "write"]
    ok_w = len(writes) == 1 and writes[0].ast.args and "p:info" in \
        tf.tags_at(writes[0], writes[0].ast.args[0]) and isinstance(
            writes[0].ast.args[0], ast.Name) and w is not None and any(
                x is writes[0].ast for x in ast.walk(w))
    rep.ob(rule, bool(ok_w), loc=fn.loc(writes[0].ast) if writes else fn.loc(),
           where=fn.qualname, construct=short(writes[0].ast) if writes else "",
           message="the whole document is written to the temp file inside the "
           "with block")
    missed = cfg.always_before(writes, [rp], normal_only=True)
    rep.ob(rule, not missed, loc=fn.loc(rp.ast), where=fn.qualname,
           construct="write -> replace", message="write precedes the rename")
    hashes = cfg.calls(lambda c: ctx.is_call(fn, c, "utils.hash_checksums"))
    missed = cfg.always_before([rp], hashes, normal_only=True)
    ok_h = bool(hashes) and not missed and all(
        dotted(ctx.arg(h.ast, 0, "file_path")) == target_name for h in hashes)
    rep.ob(rule, ok_h, loc=fn.loc(hashes[0].ast) if hashes else fn.loc(),
           where=fn.qualname, construct="replace -> hash_checksums(target)",
           message="the recorded checksum is computed after the rename, from "
           "the final file")
    rets = [n for n in cfg.nodes if n.kind == "stmt" and isinstance(
        n.ast, ast.Return)]
    missed = cfg.always_before([rp], rets, normal_only=True)
    rep.ob(rule, not missed, loc=fn.loc(), where=fn.qualname,
           construct="replace -> return",
           message="the function cannot return before the publish")
    mode = ctx.arg(op.ast, 0 if method_open else 1, "mode")
    rep.ob(rule, const_str(mode) in ("w", "x", "wt", "xt", "wb", "xb"),
           loc=fn.loc(op.ast), where=fn.qualname, construct=short(op.ast),
           message="temp file opened for (over)write, not append")
    # relative path recorded
    fis = [c for c in fn.calls() if ctx.is_call(fn, c, "file_info.FileInfo")]
    def is_rel(e):
        if dotted(e) == "relative_path":
            return True
        return isinstance(e, ast.Call) and ast.unparse(e.func) in (
            "Path", "pathlib.Path", "PurePath") and len(e.args) == 1 and \
            dotted(e.args[0]) == "relative_path"

    rep.ob(rule, bool(fis) and all(
        is_rel(ctx.arg(c, 0, "file_path")) for c in fis),
           loc=fn.loc(), where=fn.qualname,
           construct="FileInfo(file_path=relative_path, ...)",
           message="the returned record names the file that was written")


def check_order(ctx: Context, rep, rule: str) -> None:
    rep.rule(
        rule,
        "commit order shard file -> its checksum -> its list -> parent lists "
        "-> description holds in every function on the path (must-precede "
        "on the CFG, normal edges): Shard.close, close_shard, "
        "DatasetFiller.__exit__, ShardsList.write_config, merge_shard_infos, "
        "DatasetWriting.write_config, write_multiprocessing, Dataset.create")
    from sa.norm import expand
    from sa.rules.common import reaches
    HASH = f"{UTILS}:hash_checksums"
    sc = ctx.fn("sedpack.io.shard.shard:Shard.close")
    # a shard that reaches a list carries its digests: closing a shard
    # computes them (call graph: Shard.close reaches hash_checksums), so the
    # list written at the next roll-over never names a shard without them
    rep.ob(rule, HASH in ctx.cg.reachable([sc.fq]), loc=sc.loc(),
           where=sc.qualname, construct="Shard.close -> ... -> hash_checksums",
           message="closing a shard no longer computes its digests: a shard "
           "enters the (progress) list before it was hashed, a crash or a "
           "reader in between sees a listed shard without checksums")

    def hashes(n: Node, fn=sc) -> bool:
        return n.kind == "call" and reaches(ctx, fn, n.ast, HASH)

    must_precede(ctx, rep, rule, sc,
                 call_pred(ctx, sc, method="close", recv="_shard_writer"),
                 hashes, "Shard.close: writer.close() -> hash")
    must_precede(ctx, rep, rule, sc, hashes,
                 lambda n: n.kind == "stmt" and isinstance(n.ast, ast.Return),
                 "Shard.close: hash -> return shard_info")
    hs = [n for n in sc.body_nodes() if isinstance(n, ast.Assign) and
          ast.unparse(n.targets[0]).endswith(".hash_checksums")]
    ok_hs = len(hs) == 1 and any(
        isinstance(c, ast.Call) and reaches(ctx, sc, c, HASH)
        for c in ast.walk(expand(sc, hs[0].value)))
    # the path hashed is the shard's own file
    hcalls = [c for c in ast.walk(sc.node) if isinstance(c, ast.Call) and
              ctx.is_call(sc, c, "utils.hash_checksums")]
    rep.ob(rule, ok_hs, loc=sc.loc(), where=sc.qualname,
           construct=short(hs[0], 80) if hs else "<none>",
           message="the digest of the closed file is stored in the shard's "
           "file info")
    cs = ctx.fn(f"{FILLER}:_DatasetFillerContext.close_shard")
    check_close_order(ctx, rep, rule)
    # what is appended is what close() returned
    closes = [c for c in cs.calls() if ctx.is_call(cs, c, "shard.Shard.close")]
    apps = [c for c in cs.calls() if isinstance(c.func, ast.Attribute) and
            c.func.attr == "append" and "shard_files" in ast.unparse(c.func.value)]
    ccfg = ctx.cfg(cs)
    ctf = TagFlow(ccfg, {}, hook=lambda e, st, rec: frozenset({"closed"})
                  if isinstance(e, ast.Call) and ctx.is_call(
                      cs, e, "shard.Shard.close") else None)
    app_nodes = [n for n in ccfg.calls() if n.ast in apps]
    rep.ob(rule, bool(app_nodes) and all(
        "closed" in ctf.tags_at(n, n.ast.args[0]) for n in app_nodes),
           loc=cs.loc(), where=cs.qualname,
           construct=f"shard_files.append({[short(a.args[0]) for a in apps]})",
           message="the listed record is the one returned by Shard.close "
           "(hash included)")
    ex = ctx.fn(f"{FILLER}:DatasetFiller.__exit__")
    # (_update_infos is read in its inlined form, see inline.FORCE_INLINE)
    closes = lambda n: n.kind == "for" and any(  # noqa: E731
        isinstance(c, ast.Call) and ctx.is_call(ex, c, method="close_shard")
        for c in ast.walk(n.ast))
    never_after(ctx, rep, rule, ex, closes,
                call_pred(ctx, ex, "ShardsList.write_config"),
                "__exit__: close loop -> shard lists written")
    must_precede(ctx, rep, rule, ex,
                 lambda n: n.kind in ("for", "stmt") and any(
                     isinstance(c, ast.Call) and ctx.is_call(
                         ex, c, "ShardsList.write_config")
                     for c in ast.walk(n.ast)),
                 call_pred(ctx, ex, "DatasetWriting.write_config"),
                 "__exit__: shard lists written -> dataset.write_config")
    fl = [n for n in ex.body_nodes() if isinstance(n, ast.For) and any(
        isinstance(c, ast.Call) and ctx.is_call(ex, c, method="close_shard")
        for c in ast.walk(n))]
    rep.ob(rule, len(fl) == 1 and "_current_shards_progress" in "".join(
        ast.unparse(s) for s in ex.node.body) and any(
            ctx.is_call(ex, c, method="close_shard") for c in ast.walk(fl[0])
            if isinstance(c, ast.Call)) if fl else False, loc=ex.loc(),
           where=ex.qualname, construct="for split, progress in ...items(): "
           "close_shard", message="every open shard is visited on exit")
    slw = ctx.fn("sedpack.io.shard_file_metadata:ShardsList.write_config")
    must_precede(ctx, rep, rule, slw,
                 call_pred(ctx, slw, "utils.safe_update_file"),
                 lambda n: n.kind == "stmt" and isinstance(n.ast, ast.Return),
                 "ShardsList.write_config: safe_update_file -> return info")
    mg = ctx.fn("sedpack.io.merge_shard_infos:merge_shard_infos")
    never_after(ctx, rep, rule, mg,
                lambda n: n.kind in ("stmt", "call") and any(
                    isinstance(c, ast.Call) and ctx.is_call(
                        mg, c, "merge_shard_infos.merge_shard_infos")
                    for c in ast.walk(n.ast)),
                call_pred(ctx, mg, "ShardsList.write_config"),
                "merge_shard_infos: recursive merges -> own write_config")
    dw = ctx.fn("sedpack.io.dataset_writing:DatasetWriting.write_config")
    must_precede(ctx, rep, rule, dw,
                 lambda n: n.kind == "for" and any(
                     ctx.is_call(dw, c, "merge_shard_infos.merge_shard_infos")
                     for c in ast.walk(n.ast) if isinstance(c, ast.Call)),
                 call_pred(ctx, dw, "utils.safe_update_file"),
                 "DatasetWriting.write_config: merges -> description file")
    wm = ctx.fn("sedpack.io.dataset_writing:DatasetWriting.write_multiprocessing")
    must_precede(ctx, rep, rule, wm,
                 lambda n: n.kind == "call" and isinstance(
                     n.ast.func, ast.Name) and n.ast.func.id == "list" and any(
                         isinstance(c, ast.Call) and isinstance(
                             c.func, (ast.Attribute, ast.Name)) and
                         (getattr(c.func, "attr", None) in ("imap", "map") or
                          getattr(c.func, "id", None) == "map")
                         for c in ast.walk(n.ast)),
                 call_pred(ctx, wm, "DatasetWriting.write_config"),
                 "write_multiprocessing: workers finished -> write_config")
    cr = ctx.fn("sedpack.io.dataset:Dataset.create")
    must_precede(ctx, rep, rule, cr,
                 lambda n: n.kind == "test" and "is_file" in ast.unparse(n.ast),
                 call_pred(ctx, cr, method="mkdir"),
                 "Dataset.create: exists test -> mkdir")
    must_precede(ctx, rep, rule, cr,
                 call_pred(ctx, cr, method="mkdir"),
                 call_pred(ctx, cr, "DatasetWriting.write_config"),
                 "Dataset.create: mkdir -> write_config")


def check_closed(ctx: Context, rep, rule: str) -> None:
    rep.rule(
        rule,
        "every shard writer's close() releases its file handle before "
        "returning (with-block, explicit close(), or a NumPy save call that "
        "closes the file itself), so the digest taken by Shard.close sees "
        "the complete file")
    base = ctx.repo.cls("sedpack.io.shard.shard_writer_base:ShardWriterBase")
    for ci in ctx.repo.subclasses(base):
        cl = ci.methods.get("close")
        if cl is None:
            raise AnalysisError(f"{ci.name}.close missing")
        withs = [n for n in cl.body_nodes() if isinstance(n, ast.With) and any(
            "FS_CREATE" in ctx.effects(cl, c) for i in n.items
            for c in ast.walk(i.context_expr) if isinstance(c, ast.Call))]
        closes = [c for c in cl.calls() if isinstance(c.func, ast.Attribute) and
                  c.func.attr == "close"]
        saves = [c for c in cl.calls() if ctx.is_call(
            cl, c, "numpy.savez", "numpy.savez_compressed", "numpy.save")]
        rep.ob(rule, bool(withs or closes or saves), loc=cl.loc(),
               where=cl.qualname,
               construct=f"with-open:{len(withs)} close():{len(closes)} "
               f"savez:{len(saves)}",
               message="the shard file is complete and closed when close() "
               "returns")


def check_close_order(ctx: Context, rep, rule: str) -> None:
    """A shard is listed only after its file is complete: close -> append ->
    list write."""
    cs = ctx.fn(f"{FILLER}:_DatasetFillerContext.close_shard")
    must_precede(ctx, rep, rule, cs,
                 call_pred(ctx, cs, "shard.Shard.close"),
                 call_pred(ctx, cs, method="append", recv="shard_files"),
                 "close_shard: shard.close() -> shard_files.append")
    must_precede(ctx, rep, rule, cs,
                 call_pred(ctx, cs, method="append", recv="shard_files"),
                 call_pred(ctx, cs, "ShardsList.write_config"),
                 "close_shard: shard_files.append -> list write_config")


def run(ctx: Context, rep) -> None:
    rep.not_decided = (
        "durability across an operating system crash (no fsync; excluded by "
        "the property), torn-write behaviour of the file system, that "
        "readers tolerate every intermediate directory state; POSIX rename "
        "atomicity is assumed")
    rep.assumptions += [
        "Path.replace is an atomic rename within one directory",
        "uuid4() names are fresh (never an existing file)",
        "leaving a `with open(...)` block flushes and closes the file",
    ]
    check_who(ctx, rep, "C06.who")
    check_rename(ctx, rep, "C06.rename")
    check_order(ctx, rep, "C06.order")
    check_closed(ctx, rep, "C06.closed")
    # "an existing list is loaded and extended, never recreated": a list
    # renamed into place must contain what was committed before (same rule
    # as C08.load)
    from sa.rules.c08 import check_load
    check_load(ctx, rep, "C06.load")
    # between the first closed shard of a continued session and the final
    # description write, list files legitimately differ from the digests
    # their parents record; a reader that verifies digests would refuse
    # committed data of a crashed (or still running) writer
    from sa.rules import common as C_
    from sa.rules import shared
    rep.rule(
        "C06.reader-tolerant",
        "no iteration entry point reaches hash_checksums: digests are "
        "verified by check() only, never while reading")
    shared.check_not_reachable(
        ctx, rep, "C06.reader-tolerant",
        ["sedpack.io.dataset_base:DatasetBase.shard_info_iterator",
         C_.SHARD_PATHS] + list(C_.INTERFACES),
        ["sedpack.io.utils:hash_checksums"], "hashes files")
    # ... and no reader trusts the totals recorded in the description: during
    # a continued session they lag behind the lists
    rep.rule(
        "C06.reader-counts",
        "the recorded totals (number_of_shards / number_of_examples) are "
        "read only by the writing and checking code, never by the iteration "
        "module or the shard walk")
    n_reads = 0
    for mod_name in (C_.ITER_MOD, "sedpack.io.dataset_base"):
        for fn_ in ctx.repo.module(mod_name).functions.values():
            for n in fn_.body_nodes():
                if isinstance(n, ast.Attribute) and n.attr in (
                        "number_of_shards", "number_of_examples") and \
                        isinstance(n.ctx, ast.Load):
                    n_reads += 1
                    rep.ob("C06.reader-counts", False, loc=fn_.loc(n),
                           where=fn_.qualname, construct=short(n),
                           message="a reader must enumerate the lists, not "
                           "rely on recorded totals (stale while a writer is "
                           "active or after it crashed)")
    rep.ob("C06.reader-counts", n_reads == 0,
           loc=ctx.fn(C_.SHARD_PATHS).loc(), where="iteration modules",
           construct=f"{n_reads} read(s) of recorded totals",
           message="readers are independent of the recorded totals")
    # nothing read from the dataset's files / the environment is memoised
    from sa.rules import shared as _shm
    _shm.check_no_memo(ctx, rep, "C06.memo")
    # re-running create on an existing dataset refuses before any effect
    # (same check as C08.create)
    from sa.rules import shared as _sh06
    _sh06.share_rules(ctx, rep, "c08", {"C08.create": "C06.create"})
    # a close that is retried after an exception (DatasetFiller.__exit__
    # closes the open shard again) writes everything that was buffered: the
    # npz writer hands its buffers themselves to NumPy's save and does not
    # consume them on the way (same structural check as C01.npz-save)
    _sh06.share_rules(ctx, rep, "c01", {"C01.npz-save": "C06.npz-save"})

_U = "src/sedpack/io/utils.py"
_SM = "src/sedpack/io/shard_file_metadata.py"
_DF = "src/sedpack/io/dataset_filler.py"
_SH = "src/sedpack/io/shard/shard.py"
_DW = "src/sedpack/io/dataset_writing.py"
SELFTESTS = [
    dict(rule="C06.order", name="merge-writes-parent-before-children",
         expect="fire", path="src/sedpack/io/merge_shard_infos.py",
         edits=[dict(path="src/sedpack/io/merge_shard_infos.py",
                     old="    # Recursively update.\n    merged: dict[str, ShardListInfo] = {  # Merge recursively.\n",
                     new="    info = root_shard_list.write_config(\n        dataset_root_path=dataset_root,\n        hashes=hashes,\n    )\n    # Recursively update.\n    merged: dict[str, ShardListInfo] = {  # Merge recursively.\n"),
                dict(path="src/sedpack/io/merge_shard_infos.py",
                     old="    return root_shard_list.write_config(\n        dataset_root_path=dataset_root,\n        hashes=hashes,\n    )\n",
                     new="    root_shard_list.write_config(\n        dataset_root_path=dataset_root,\n        hashes=hashes,\n    )\n    return info\n")]),
    dict(rule="C06.who", name="write-text-in-place", expect="fire", path=_SM,
         old="        file_info: FileInfo = utils.safe_update_file(\n",
         new="        (dataset_root_path / self.relative_path_self).write_text(\"x\")\n        file_info: FileInfo = utils.safe_update_file(\n"),
    dict(rule="C06.who", name="unlink-old", expect="fire", path=_U,
         old="    # Replace the old file with the new version.\n",
         new="    if file_path.exists():\n        file_path.unlink()\n    # Replace the old file with the new version.\n"),
    dict(rule="C06.who", name="extra-mkdir-twin", expect="silent", path=_U,
         old="    file_path.parent.mkdir(exist_ok=True)\n",
         new="    file_path.parent.mkdir(exist_ok=True)\n    file_path.parent.mkdir(exist_ok=True, parents=True)\n"),
    dict(rule="C06.rename", name="open-target-directly", expect="fire", path=_U,
         old="    with open(new_file, \"w\", encoding=\"utf-8\") as tmp_file:\n        tmp_file.write(info)\n\n    # Replace the old file with the new version.\n    new_file.replace(file_path)\n",
         new="    with open(file_path, \"w\", encoding=\"utf-8\") as tmp_file:\n        tmp_file.write(info)\n"),
    dict(rule="C06.rename", name="replace-inside-with", expect="fire", path=_U,
         old="        tmp_file.write(info)\n\n    # Replace the old file with the new version.\n    new_file.replace(file_path)\n",
         new="        tmp_file.write(info)\n        new_file.replace(file_path)\n"),
    dict(rule="C06.rename", name="temp-in-tmpdir", expect="fire", path=_U,
         old="    new_file = file_path.parent / f\"update_{update_id}_of_{file_path.name}\"",
         new="    new_file = Path(\"/tmp\") / f\"update_{update_id}_of_{file_path.name}\""),
    dict(rule="C06.rename", name="constant-temp-name", expect="fire", path=_U,
         old="    new_file = file_path.parent / f\"update_{update_id}_of_{file_path.name}\"",
         new="    new_file = file_path.parent / f\"update_of_{file_path.name}\""),
    dict(rule="C06.rename", name="other-fresh-name-twin", expect="silent", path=_U,
         old="    new_file = file_path.parent / f\"update_{update_id}_of_{file_path.name}\"",
         new="    new_file = file_path.parent / f\".{file_path.name}.{uuid.uuid4().hex}.tmp\""),
    dict(rule="C06.rename", name="hash-before-replace", expect="fire", path=_U,
         old="    # Replace the old file with the new version.\n    new_file.replace(file_path)\n\n    # Return the new file info.\n    return FileInfo(\n        file_path=relative_path,\n        hash_checksums=hash_checksums(file_path=file_path, hashes=hashes),\n    )",
         new="    sums = hash_checksums(file_path=file_path, hashes=hashes)\n    new_file.replace(file_path)\n    return FileInfo(\n        file_path=relative_path,\n        hash_checksums=sums,\n    )"),
    dict(rule="C06.order", name="hash-before-writer-close", expect="fire", path=_SH,
         old="        self._shard_writer.close()\n        self._shard_writer = None\n\n        # Compute sha256 checksum.\n        self.shard_info.file_infos[\n            0].hash_checksums = self._compute_file_hash_checksums()\n",
         new="        self.shard_info.file_infos[\n            0].hash_checksums = self._compute_file_hash_checksums()\n        self._shard_writer.close()\n        self._shard_writer = None\n"),
    dict(rule="C06.order", name="append-before-close", expect="fire", path=_DF,
         old="        # Finish writing the shard.\n        shard_info: ShardInfo = shard.close()\n\n        # Remember this shard info.\n        if split not in self._shards_lists:",
         new="        shard_info: ShardInfo = shard.shard_info\n        # Remember this shard info.\n        if split not in self._shards_lists:"),
    dict(rule="C06.order", name="description-before-merge", expect="fire", path=_DW,
         edits=[dict(path=_DW, old="        # Merge recursively.\n        for split, updates in splits_to_update.items():\n            self._dataset_info.splits[split] = merge_shard_infos(\n                updates=updates,\n                dataset_root=self.path,\n                common=1,\n                hashes=self.dataset_structure.hash_checksum_algorithms,\n            )\n\n        # Update the main dataset info config.\n        return diutils.safe_update_file(",
                     new="        result = diutils.safe_update_file(")],
         ),
    dict(rule="C06.order", name="local-variable-twin", expect="silent", path=_DF,
         old="        shard_info: ShardInfo = shard.close()\n",
         new="        closed = shard.close()\n        shard_info: ShardInfo = closed\n"),
]
