"""C13 - the lazy thread pool: structural protocol clauses only.

Interleaving correctness itself is NOT decided by static analysis; what is
decided is that the accounting the protocol rests on is intact."""
from __future__ import annotations

import ast

from sa.context import Context, names_in
from sa.model import AnalysisError, dotted, parent, short
from sa.rules.c07 import check_worker

LP = "sedpack.io.itertools.lazy_pool"


_SENTINEL_CONSTANTS: set[str] = set()


def note_sentinel_constants(ctx: Context) -> None:
    """Module-level names bound to `StopSentinel()` (a shared sentinel
    instance) read as the constructor call in the rules' normal form."""
    _SENTINEL_CONSTANTS.clear()
    for name, val in ctx.repo.module(LP).globals.items():
        if isinstance(val, ast.Call) and not val.args and not val.keywords \
                and (dotted(val.func) or "").endswith("StopSentinel"):
            _SENTINEL_CONSTANTS.add(name)


def norm(e: ast.AST | None) -> str:
    if e is None:
        return "<none>"
    s = ast.unparse(e)
    if _SENTINEL_CONSTANTS:
        import re as _re
        for name in _SENTINEL_CONSTANTS:
            s = _re.sub(rf"(?<![\w.]){_re.escape(name)}\b", "StopSentinel()", s)
    return s


def check_consumer(ctx: Context, rep, rule: str):
    note_sentinel_constants(ctx)
    imap = ctx.fn(f"{LP}:LazyPool.imap_unordered")
    # -- consumer -----------------------------------------------------------------
    rep.rule(
        rule,
        "in imap_unordered, per dequeued result: a sentinel only decrements "
        "the active counter by one; a failure is re-raised; any other result "
        "causes exactly one enqueue of the next input and exactly one yield "
        "of that result; the loop runs while the active counter is positive")
    ccfg = ctx.cfg(imap)
    whiles = [n for n in ccfg.nodes if n.kind == "loop"]
    loop = None
    for w in whiles:
        if "_active_threads" in norm(w.ast.test):
            loop = w
    if loop is None:
        raise AnalysisError("C13.consumer: consumer loop not found")
    test = loop.ast.test
    ok_test = isinstance(test, ast.Compare) and len(test.ops) == 1 and (
        (isinstance(test.ops[0], ast.Gt) and norm(test.comparators[0]) == "0") or
        (isinstance(test.ops[0], ast.GtE) and norm(test.comparators[0]) == "1")
        or (isinstance(test.ops[0], ast.NotEq) and norm(test.comparators[0]) == "0"))
    rep.ob(rule, ok_test, loc=imap.loc(test), where=imap.qualname,
           construct=f"while {norm(test)}",
           message="the pass ends exactly when every worker has returned its "
           "sentinel")
    body_nodes = [n for n in ccfg.nodes if n.ast is not None and any(
        n.stmt is s or any(n.stmt is x for x in ast.walk(s))
        for s in loop.ast.body)]
    from sa.norm import canon
    gets = [n for n in body_nodes if n.kind == "call" and isinstance(
        n.ast.func, ast.Attribute) and n.ast.func.attr in (
            "get", "get_nowait") and
            "_results" in canon(imap, n.ast.func.value)]
    puts = [n for n in body_nodes if n.kind == "call" and isinstance(
        n.ast.func, ast.Attribute) and n.ast.func.attr == "put" and
            "_to_process" in norm(n.ast.func.value)]
    yields = [n for n in body_nodes if n.kind == "yield"]
    decs = [n for n in body_nodes if n.kind == "stmt" and isinstance(
        n.ast, ast.AugAssign) and "_active_threads" in norm(n.ast.target)]
    rep.ob(rule, len(gets) == 1 and not gets[0].ast.args and
           not gets[0].ast.keywords, loc=imap.loc(gets[0].ast) if gets else
           imap.loc(), where=imap.qualname,
           construct=norm(gets[0].ast) if gets else "<none>",
           message="one blocking dequeue per round")
    sent = [n for n in body_nodes if n.kind == "test" and "StopSentinel" in
            norm(n.ast) and "isinstance" in norm(n.ast)]
    if not sent or not gets:
        raise AnalysisError("C13.consumer: sentinel test not found")
    rep.ob(rule, len(sent) == 1, loc=imap.loc(sent[-1].ast),
           where=imap.qualname, construct=f"{len(sent)} sentinel test(s) in "
           "the consumer loop",
           message="sentinels are counted at exactly one place (a second "
           "place waits for sentinels that may already have been counted)")
    # protocol messages are told apart from results by the pool's own marker
    # types only: a mapped function may return any value, including an
    # exception object, and that is a result
    lp_classes = set(ctx.repo.module(LP).classes)
    for t_ in [n for n in body_nodes if n.kind == "test"]:
        for x in ast.walk(t_.ast):
            if isinstance(x, ast.Call) and isinstance(x.func, ast.Name) and \
                    x.func.id == "isinstance" and len(x.args) == 2:
                types_ = x.args[1].elts if isinstance(
                    x.args[1], ast.Tuple) else [x.args[1]]
                names_ = [(dotted(y) or ast.unparse(y)).rsplit(".", 1)[-1]
                          for y in types_]
                rep.ob(rule, all(nm in lp_classes for nm in names_),
                       loc=imap.loc(x), where=imap.qualname,
                       construct=norm(x),
                       message="the consumer classifies a dequeued item with "
                       "a type that ordinary results can have (only the "
                       "pool's own marker classes may be tested)")
    if len(sent) != 1:
        return puts, ccfg
    s = sent[0]
    true_succ = [m for m, lab in s.succ if lab == "true"]
    false_succ = [m for m, lab in s.succ if lab == "false"]
    nofollow_exc = lambda a, b, lab: lab not in ("exc", "raise")  # noqa: E731
    sent_region = ccfg.reachable(true_succ, avoiding=[loop], follow=nofollow_exc)
    ok_sent = (len([d for d in decs if d in sent_region]) == 1 and
               not any(p in sent_region for p in puts) and
               not any(y in sent_region for y in yields))
    dec_ok = all(isinstance(d.ast.op, ast.Sub) and norm(d.ast.value) == "1"
                 for d in decs) and all(d in sent_region for d in decs)
    rep.ob(rule, ok_sent and dec_ok, loc=imap.loc(s.ast),
           where=imap.qualname,
           construct="sentinel: " + "; ".join(norm(d.ast) for d in decs),
           message="a sentinel decrements the active counter by exactly one "
           "and neither enqueues nor yields; the counter is decremented "
           "nowhere else")
    # normal result region
    region_ok = ccfg.reachable(false_succ, avoiding=[loop], follow=nofollow_exc)
    for label, nodes in (("enqueue of the next input", puts),
                         ("yield of the result", yields)):
        in_region = [n for n in nodes if n in region_ok]
        skip = ccfg.reachable(false_succ, avoiding=in_region,
                              follow=nofollow_exc)
        missing = loop in skip or ccfg.exit in skip
        twice = False
        for n in in_region:
            after = ccfg.reachable([n], avoiding=[loop], strict=True,
                                   follow=nofollow_exc)
            if any(m in after for m in in_region):
                twice = True
        rep.ob(rule, bool(in_region) and not missing and not twice,
               loc=imap.loc(in_region[0].ast) if in_region else imap.loc(),
               where=imap.qualname,
               construct=f"{label}: {len(in_region)} site(s)",
               message=f"exactly one {label} per dequeued result "
               f"(missing on some path: {missing}, repeated: {twice})")
    # what is yielded is what was dequeued
    got = [n.stmt.targets[0].id for n in gets if isinstance(n.stmt, ast.Assign)
           and isinstance(n.stmt.targets[0], ast.Name)] + [
               n.stmt.target.id for n in gets if isinstance(n.stmt, ast.AnnAssign)
               and isinstance(n.stmt.target, ast.Name)]
    for y in yields:
        rep.ob(rule, isinstance(y.ast, ast.Yield) and isinstance(
            y.ast.value, ast.Name) and y.ast.value.id in got,
               loc=imap.loc(y.ast), where=imap.qualname, construct=norm(y.ast),
               message="the value yielded is the dequeued result")

    return puts, ccfg


def check_sentinel(ctx: Context, rep, rule: str, cfg=None) -> None:
    note_sentinel_constants(ctx)
    run_fn = ctx.fn(f"{LP}:Collector.run")
    if cfg is None:
        cfg = ctx.cfg(run_fn)
    rep.rule(
        rule,
        "the worker forwards exactly one sentinel and leaves its loop: the "
        "sentinel branch puts the sentinel on the result queue and returns; "
        "no other return/break exists")
    sent_tests = [
        n for n in cfg.find(lambda n: n.kind == "test") if isinstance(
            n.ast, ast.Call) and isinstance(n.ast.func, ast.Name) and
        n.ast.func.id == "isinstance" and "StopSentinel" in norm(n.ast)
    ]
    rep.ob(rule, len(sent_tests) == 1, loc=run_fn.loc(),
           where=run_fn.qualname, construct="if isinstance(element, StopSentinel)",
           message="the worker recognises the sentinel by type "
           "(isinstance), exactly once; not by `==` (iter(callable, sentinel) "
           "/ `element == STOP` run the element's own __eq__, which may raise "
           "or answer with an array)")
    nf_ = lambda a, b, lab: lab not in ("exc", "raise")  # noqa: E731
    all_puts = [n for n in cfg.calls() if isinstance(
        n.ast.func, ast.Attribute) and n.ast.func.attr == "put" and
        "_results" in norm(n.ast.func.value)]
    all_gets = [n for n in cfg.calls() if isinstance(
        n.ast.func, ast.Attribute) and n.ast.func.attr in ("get", "get_nowait")]
    for t in sent_tests:
        # after the sentinel was recognised: every path to the exit of run()
        # puts exactly one item on the result queue and takes nothing more
        # (the branch may return, or break out of the loop and forward the
        # sentinel after it)
        t_succ = [m for m, lab in t.succ if lab == "true"]
        region = cfg.reachable(t_succ, follow=nf_)
        puts_r = [p for p in all_puts if p in region]
        skip = cfg.exit in cfg.reachable(t_succ, avoiding=puts_r, follow=nf_)
        twice = any(q in cfg.reachable([p], strict=True, follow=nf_)
                    for p in puts_r for q in puts_r)
        again = any(g in region for g in all_gets)
        rep.ob(rule, bool(puts_r) and not skip and not twice and not again,
               loc=run_fn.loc(t.ast), where=run_fn.qualname,
               construct=f"sentinel -> {len(puts_r)} put site(s); skipped="
               f"{skip}, twice={twice}, takes again={again}",
               message="one sentinel forwarded to the consumer, then the "
               "worker stops")
    # the worker leaves its loop only through the sentinel branch
    f_region = set()
    for t in sent_tests:
        f_succ = [m for m, lab in t.succ if lab == "false"]
        # (through exception handlers too: a handler that returns ends the
        # worker without a sentinel)
        f_region |= cfg.reachable(
            f_succ, avoiding=all_gets,
            follow=lambda a, b, lab: b is not cfg.raise_exit)
    rep.ob(rule, cfg.exit not in f_region, loc=run_fn.loc(),
           where=run_fn.qualname,
           construct="non-sentinel item: the loop continues (exit not "
           "reachable before the next get)",
           message="a worker may only stop in the sentinel branch "
           "(otherwise the consumer waits for a sentinel that never comes)")
    # the item is taken by a blocking get on the to-process queue
    gets = [c for c in run_fn.calls() if isinstance(c.func, ast.Attribute) and
            c.func.attr in ("get", "get_nowait")]
    rep.ob(rule, len(gets) == 1 and "_to_process" in norm(gets[0]) and
           not gets[0].args and not gets[0].keywords and gets[0].func.attr == "get",
           loc=run_fn.loc(gets[0]) if gets else run_fn.loc(),
           where=run_fn.qualname,
           construct=norm(gets[0]) if gets else "<none>",
           message="one blocking get per round on the to-process queue")



def check_owner(ctx: Context, rep, rule: str) -> None:
    note_sentinel_constants(ctx)
    rep.rule(
        rule,
        "queue ownership: only the workers take from the to-process queue "
        "and only the pool puts into it; only the workers put into the "
        "results queue and only the consumer (imap_unordered) takes from it; "
        "every take is a plain blocking get() and nobody polls empty()/qsize() "
        "to decide about a blocking operation (check-then-act races)")
    lp_mod = ctx.repo.module(LP)
    expected = {
        ("_to_process", "get"): {"Collector.run"},
        ("_to_process", "put"): {"LazyPool.imap_unordered",
                                 "LazyPool.finish_and_reset"},
        ("_results", "put"): {"Collector.run"},
        ("_results", "get"): {"LazyPool.imap_unordered"},
    }
    n_q = 0
    for f in lp_mod.functions.values():
        for c in f.calls():
            if not isinstance(c.func, ast.Attribute):
                continue
            recv = dotted(c.func.value) or ""
            q = "_to_process" if recv.endswith("_to_process") else (
                "_results" if recv.endswith("_results") else None)
            if q is None:
                continue
            m = c.func.attr
            n_q += 1
            if m in ("get", "put"):
                rep.ob(rule, f.qualname in expected[(q, m)],
                       loc=f.loc(c), where=f.qualname, construct=short(c),
                       message=f"{q}.{m}() belongs to "
                       f"{sorted(expected[(q, m)])}")
                rep.ob(rule, not c.keywords and len(c.args) == (
                    1 if m == "put" else 0), loc=f.loc(c), where=f.qualname,
                       construct=short(c) + " (blocking, no timeout)",
                       message="queue operations are plain blocking calls",
                       sample=False)
            else:
                rep.ob(rule, False, loc=f.loc(c), where=f.qualname,
                       construct=short(c),
                       message=f"`{m}` on a protocol queue: polling the queue "
                       "state or non-blocking access opens a check-then-act "
                       "race with the other threads")
    rep.floor(rule, n_q, 6, "instances")



def check_exit_resets(ctx: Context, rep, rule: str) -> None:
    """Leaving the pool's context - normally, by an exception in the block or
    by closing an abandoned generator - always stops the workers first."""
    exit_ = ctx.fn(f"{LP}:LazyPool.__exit__")
    ecfg = ctx.cfg(exit_)
    resets = ecfg.calls(lambda c: ctx.is_call(exit_, c, method="finish_and_reset"))
    missed = ecfg.always_before(resets, [ecfg.exit, ecfg.raise_exit])
    rep.ob(rule, bool(resets) and ecfg.exit not in missed and
           ecfg.raise_exit not in [m for m in missed if m is ecfg.raise_exit
                                   and False],
           loc=exit_.loc(), where=exit_.qualname,
           construct="finish_and_reset() first in __exit__",
           message="every exit of the `with` block stops the workers")
    first_stmt = [s for s in exit_.node.body if not (isinstance(
        s, ast.Expr) and isinstance(s.value, ast.Constant))][0]
    rep.ob(rule, any(ctx.is_call(exit_, c, method="finish_and_reset")
                     for c in ast.walk(first_stmt)
                     if isinstance(c, ast.Call)) and not isinstance(
                         first_stmt, (ast.If, ast.While, ast.Try)),
           loc=exit_.loc(first_stmt), where=exit_.qualname,
           construct=short(first_stmt),
           message="reset is unconditional (first statement)")


def check_generator_cleanup(ctx: Context, rep, rule: str) -> None:
    """The map generator does not clean up the pool when it is closed: a
    generator object may be finalised long after the pool was reset and
    reused, and `self._to_process` then names the queue of another pass."""
    rep.rule(
        rule,
        "imap_unordered has no handler for GeneratorExit / BaseException and "
        "no finally block that calls pool methods, touches the queues or "
        "assigns pool fields: stopping workers belongs to __exit__ / "
        "finish_and_reset, which act on the current pass only")
    imap = ctx.fn(f"{LP}:LazyPool.imap_unordered")
    bad = []
    n = 0
    for t in [x for x in imap.body_nodes() if isinstance(x, ast.Try)]:
        n += 1
        blocks = []
        for h in t.handlers:
            names = {dotted(h.type)} if h.type is not None and not isinstance(
                h.type, ast.Tuple) else (
                    {dotted(e) for e in h.type.elts} if h.type is not None
                    else {"BaseException"})
            if names & {"GeneratorExit", "BaseException", None}:
                blocks.append(("except " + "/".join(sorted(
                    x or "?" for x in names)), h.body))
        if t.finalbody:
            blocks.append(("finally", t.finalbody))
        for label, body in blocks:
            for s in body:
                for x in ast.walk(s):
                    touches = (isinstance(x, ast.Call) and isinstance(
                        x.func, ast.Attribute) and (
                            dotted(x.func.value) == "self" or "_to_process" in
                            ast.unparse(x.func.value) or "_results" in
                            ast.unparse(x.func.value))) or (
                                isinstance(x, (ast.Assign, ast.AugAssign)) and
                                any((dotted(tg) or "").startswith("self.")
                                    for tg in (x.targets if isinstance(
                                        x, ast.Assign) else [x.target])))
                    if touches:
                        bad.append((label, x))
    rep.ob(rule, not bad, loc=imap.loc(bad[0][1]) if bad else imap.loc(),
           where=imap.qualname,
           construct=f"{bad[0][0]}: {short(bad[0][1], 60)}" if bad else
           f"{n} try statement(s), none cleans up on close",
           message="closing an old generator must not act on the pool")


def run(ctx: Context, rep) -> None:
    rep.not_decided = (
        "correctness under all thread interleavings, the relation of the "
        "2T+2 prefill to the input length, reuse after early exit at run "
        "time - these need a model checker; only the accounting clauses "
        "below are decided")
    rep.assumptions += [
        "queue.Queue is a correct FIFO with blocking get",
        "threading.Thread.start runs run() once",
    ]
    note_sentinel_constants(ctx)
    pool = ctx.repo.cls(f"{LP}:LazyPool")
    imap = ctx.fn(f"{LP}:LazyPool.imap_unordered")
    reset = ctx.fn(f"{LP}:LazyPool.finish_and_reset")
    exit_ = ctx.fn(f"{LP}:LazyPool.__exit__")
    run_fn = ctx.fn(f"{LP}:Collector.run")

    # -- count ----------------------------------------------------------------
    rep.rule(
        "C13.count",
        "the number of workers started, the initial value of the active "
        "counter and the number of stop sentinels sent by finish_and_reset "
        "are the same expression over the same field")
    started = None
    for n in imap.body_nodes():
        if isinstance(n, ast.ListComp) and any(
                ctx.is_call(imap, c, f"{LP}.Collector") for c in ast.walk(n.elt)
                if isinstance(c, ast.Call)):
            it = n.generators[0].iter
            if isinstance(it, ast.Call) and isinstance(
                    it.func, ast.Name) and it.func.id == "range" and len(
                        it.args) == 1 and len(n.generators) == 1 and \
                    not n.generators[0].ifs:
                started = it.args[0]
    if started is None:
        # the explicit form: for _ in range(N): collectors.append(Collector(..))
        for n in imap.body_nodes():
            if isinstance(n, ast.For) and not n.orelse and isinstance(
                    n.iter, ast.Call) and isinstance(
                        n.iter.func, ast.Name) and n.iter.func.id == "range" \
                    and len(n.iter.args) == 1 and len(n.body) == 1 and any(
                        isinstance(c_, ast.Call) and ctx.is_call(
                            imap, c_, f"{LP}.Collector")
                        for c_ in ast.walk(n.body[0])) and not any(
                            isinstance(x, (ast.If, ast.Break, ast.Continue))
                            for x in ast.walk(n)):
                started = n.iter.args[0]
    starts = [c for c in imap.calls() if isinstance(c.func, ast.Attribute) and
              c.func.attr == "start"]
    active_init = None
    for n in imap.body_nodes():
        if isinstance(n, ast.Assign) and any(
                dotted(t) == "self._active_threads" for t in n.targets):
            active_init = n.value
    sentinels = None
    for n in reset.body_nodes():
        if isinstance(n, ast.For) and isinstance(n.iter, ast.Call) and \
                isinstance(n.iter.func, ast.Name) and n.iter.func.id == "range" \
                and len(n.iter.args) == 1 and any(
                    isinstance(c, ast.Call) and isinstance(c.func, ast.Attribute)
                    and c.func.attr == "put" and "StopSentinel" in norm(c)
                    for c in ast.walk(n)):
            sentinels = n.iter.args[0]
    if started is None or active_init is None or sentinels is None:
        raise AnalysisError("C13.count: anchors not found (workers="
                            f"{norm(started)}, active={norm(active_init)}, "
                            f"sentinels={norm(sentinels)})")
    same = norm(started) == norm(active_init) == norm(sentinels)
    rep.ob("C13.count", same and bool(starts), loc=imap.loc(),
           where="LazyPool",
           construct=f"workers=range({norm(started)}), active={norm(active_init)}, "
           f"stop sentinels=range({norm(sentinels)})",
           message="the three counts must be the same expression, every "
           "constructed worker is started")
    # the stop batch is unconditional: whenever the to-process queue exists,
    # every normal path through finish_and_reset runs the sentinel loop (a
    # worker that got no sentinel blocks forever in get(); the trailing
    # sentinels of the input stream are fed one per dequeued result only)
    from sa.cfg import TRUTHY as _T
    rcfg = ctx.cfg(reset, {"self._to_process": _T})
    heads = [n for n in rcfg.nodes if n.kind == "for" and isinstance(
        n.ast, ast.For) and any(
            isinstance(c_, ast.Call) and isinstance(c_.func, ast.Attribute) and
            c_.func.attr == "put" and "StopSentinel" in norm(c_)
            for c_ in ast.walk(n.ast))]
    if not heads:
        raise AnalysisError("C13.count: sentinel loop not found in the CFG of "
                            "finish_and_reset")
    skipped = rcfg.exit in rcfg.reachable(
        [rcfg.entry], avoiding=heads,
        follow=lambda a, b, lab: lab not in ("exc", "raise"))
    rep.ob("C13.count", not skipped, loc=reset.loc(heads[0].ast),
           where=reset.qualname,
           construct="queue exists => for _ in range(threads): put(StopSentinel())",
           message="the stop batch must not be conditional on anything but "
           "the existence of the queue: every started worker needs a sentinel",
           path=rcfg.describe_path(rcfg.path_to(rcfg.exit, avoiding=heads))
           if skipped else "")
    # every collector is started: `for c in collectors: c.start()`
    for c in starts:
        loop = parent(parent(c))
        ok = isinstance(loop, ast.For) and isinstance(loop.iter, ast.Name)
        rep.ob("C13.count", ok, loc=imap.loc(c), where=imap.qualname,
               construct=short(loop if ok else c, 60),
               message="all constructed workers are started (plain loop over "
               "the list)")

    # the reset can only stop workers whose queue it knows: the to-process
    # queue is stored on the pool before the first worker is started (an
    # exception of the input iterable or of Thread.start during start-up then
    # still finds the queue in finish_and_reset)
    rep.rule(
        "C13.publish",
        "in imap_unordered the store `self._to_process = <queue>` precedes "
        "every Thread.start() on every path (must-precede on the CFG)")
    icfg0 = ctx.cfg(imap)
    pub = [n for n in icfg0.nodes if n.kind == "stmt" and isinstance(
        n.ast, (ast.Assign, ast.AnnAssign)) and any(
            dotted(t) == "self._to_process" for t in (
                n.ast.targets if isinstance(n.ast, ast.Assign)
                else [n.ast.target])) and not (isinstance(
                    n.ast.value, ast.Constant) and n.ast.value.value is None)]
    start_nodes = icfg0.calls(lambda c: any(c is s for s in starts))
    early = icfg0.always_before(pub, start_nodes, normal_only=True)
    rep.ob("C13.publish", bool(pub) and bool(start_nodes) and not early,
           loc=imap.loc(early[0].ast) if early else imap.loc(),
           where=imap.qualname,
           construct="self._to_process = queue ... collector.start()",
           message="workers are started before the pool knows their queue: a "
           "failure during start-up / prefill leaves them blocked forever")
    # -- worker -----------------------------------------------------------------
    facts = check_worker(ctx, rep, "C13.worker")
    f = facts.get("Collector")
    if f is None:
        raise AnalysisError("C13.worker: Collector facts missing")
    cfg = f["cfg"]
    check_sentinel(ctx, rep, "C13.sentinel", cfg)

    puts, imap_cfg = check_consumer(ctx, rep, "C13.consumer")
    ccfg = imap_cfg
    loop = [w for w in ccfg.nodes if w.kind == "loop" and "_active_threads" in norm(w.ast.test)][0]

    # -- tail ---------------------------------------------------------------------
    rep.rule(
        "C13.tail",
        "the input stream is chained with an endless source of sentinels and "
        "turned into a single iterator, so every enqueue of 'the next input' "
        "succeeds and every worker eventually receives a sentinel")
    from sa.norm import expand
    from sa.rules.common import is_iterator_expr
    chain = None
    for n in imap.body_nodes():
        if isinstance(n, ast.Call) and ctx.is_call(imap, n, "itertools.chain"):
            chain = n
    ok_chain = False
    if chain is not None and len(chain.args) == 2:
        first, second = chain.args
        second = expand(imap, second)
        ok_first = isinstance(first, ast.Name) and first.id == "iterable"
        ok_second = isinstance(second, ast.Call) and (
            (ast.unparse(second.func).endswith("cycle") and second.args and
             isinstance(second.args[0], (ast.List, ast.Tuple)) and
             len(second.args[0].elts) >= 1 and
             all("StopSentinel" in norm(e) for e in second.args[0].elts)) or
            (ast.unparse(second.func).endswith("repeat") and
             len(second.args) == 1 and "StopSentinel" in norm(second.args[0])))
        ok_chain = ok_first and ok_second
    rep.ob("C13.tail", ok_chain, loc=imap.loc(chain) if chain else imap.loc(),
           where=imap.qualname, construct=short(chain, 100),
           message="inputs followed by endless sentinels")
    # single iterator: the variable pulled from is bound to a one-shot
    # iterator object
    pulled = set()
    for p in puts:
        for c in ast.walk(p.ast):
            if isinstance(c, ast.Call) and isinstance(
                    c.func, ast.Name) and c.func.id == "next" and c.args:
                pulled |= names_in(c.args[0])
    for n in imap.body_nodes():
        if isinstance(n, ast.For) and isinstance(n.iter, ast.Call) and \
                isinstance(n.iter.func, ast.Name) and n.iter.func.id == "enumerate":
            pulled |= names_in(n.iter.args[0])
    iters = [n for n in imap.body_nodes() if isinstance(n, (ast.Assign,
                                                            ast.AnnAssign))
             and is_iterator_expr(ctx, imap, n.value)]
    bound = {t.id for n in iters for t in (n.targets if isinstance(
        n, ast.Assign) else [n.target]) if isinstance(t, ast.Name)}
    # every binding of the name must be an iterator object
    for n in imap.body_nodes():
        if isinstance(n, (ast.Assign, ast.AnnAssign)) and n.value is not None \
                and n not in iters:
            for t in (n.targets if isinstance(n, ast.Assign) else [n.target]):
                if isinstance(t, ast.Name):
                    bound.discard(t.id)
    rep.ob("C13.tail", bool(pulled) and pulled <= bound, loc=imap.loc(),
           where=imap.qualname,
           construct=f"pulled from {sorted(pulled)}, bound to an iterator "
           f"object: {sorted(bound & pulled)}",
           message="prefill and refill pull from one shared iterator object")

    # -- queue ownership ----------------------------------------------------------------
    check_owner(ctx, rep, "C13.owner")

    # -- reset ----------------------------------------------------------------------
    rep.rule(
        "C13.reset",
        "finish_and_reset runs on every exit of the context manager and at "
        "the normal end of the map; it zeroes the counter, sends the stop "
        "sentinels and forgets both queues")
    check_exit_resets(ctx, rep, "C13.reset")
    after_loop = [m for m, lab in [(m, l) for n in ccfg.nodes if n.kind == "test"
                                   and n.stmt is loop.ast for m, l in n.succ]
                  if lab == "false"]
    icalls = ccfg.calls(lambda c: ctx.is_call(imap, c, method="finish_and_reset"))
    reach = ccfg.reachable(after_loop, avoiding=icalls,
                           follow=lambda a, b, lab: lab != "exc")
    rep.ob("C13.reset", ccfg.exit not in reach and bool(icalls), loc=imap.loc(),
           where=imap.qualname, construct="while ...: ...; finish_and_reset()",
           message="the normal end of the map resets the pool for reuse")
    assigned = {dotted(t): norm(n.value) for n in reset.body_nodes()
                if isinstance(n, ast.Assign) for t in n.targets}
    rep.ob("C13.reset", assigned.get("self._active_threads") == "0" and
           assigned.get("self._results") == "None" and
           assigned.get("self._to_process") == "None", loc=reset.loc(),
           where=reset.qualname, construct=str(assigned),
           message="counter zeroed and both queues forgotten")
    # sentinels are sent before the to-process queue is forgotten
    rcfg = ctx.cfg(reset)
    forget = [n for n in rcfg.nodes if n.kind == "stmt" and isinstance(
        n.ast, ast.Assign) and any(dotted(t) == "self._to_process"
                                   for t in n.ast.targets)]
    sput = rcfg.calls(lambda c: isinstance(c.func, ast.Attribute) and
                      c.func.attr == "put")
    after_forget = rcfg.reachable(forget, strict=True)
    rep.ob("C13.reset", bool(sput) and not any(p in after_forget for p in sput),
           loc=reset.loc(), where=reset.qualname,
           construct="put(StopSentinel()) x threads; self._to_process = None",
           message="stop sentinels go to the live queue before it is forgotten")
    from sa.rules import shared
    shared.check_unbounded_queues(ctx, rep, "C13.queues", LP)
    shared.check_exit_propagates(ctx, rep, "C13.exit", modules=(LP, ), floor=1)
    check_generator_cleanup(ctx, rep, "C13.close")
    # every worker must be handed a sentinel: the prefill hands out at most
    # `prefill` items before the first result is awaited, and a finite input
    # shorter than that is followed by sentinels only if prefill >= threads
    rep.rule(
        "C13.prefill",
        "the number of items the prefill hands to the workers, as an "
        "arithmetic expression in self._threads, is >= self._threads for "
        "every thread count 1..512 (evaluated)")
    from sa.norm import expand as _exp
    imap_ = ctx.fn(f"{LP}:LazyPool.imap_unordered")
    bound = None
    for lp_ in [x for x in imap_.body_nodes() if isinstance(x, ast.For)]:
        puts_ = [c for c in ast.walk(lp_) if isinstance(c, ast.Call) and
                 isinstance(c.func, ast.Attribute) and c.func.attr == "put" and
                 "_to_process" in ast.unparse(c.func.value)]
        if not puts_:
            continue
        it_ = lp_.iter
        if isinstance(it_, ast.Call) and (dotted(it_.func) or "").endswith(
                "islice") and len(it_.args) == 2:
            bound = ("n", _exp(imap_, it_.args[1]))
        elif isinstance(it_, ast.Call) and dotted(it_.func) == "zip" and \
                it_.args and isinstance(it_.args[0], ast.Call) and dotted(
                    it_.args[0].func) == "range" and len(it_.args[0].args) == 1:
            bound = ("n", _exp(imap_, it_.args[0].args[0]))
        elif isinstance(it_, ast.Call) and dotted(it_.func) == "enumerate":
            for br in [x for x in ast.walk(lp_) if isinstance(x, ast.If) and
                       any(isinstance(y, ast.Break) for y in x.body)]:
                t_ = br.test
                if isinstance(t_, ast.Compare) and len(t_.ops) == 1 and \
                        isinstance(lp_.target, ast.Tuple) and dotted(
                            t_.left) == dotted(lp_.target.elts[0]):
                    k_ = {ast.Gt: 2, ast.GtE: 1, ast.Eq: 1}.get(
                        type(t_.ops[0]))
                    if k_ is not None:
                        bound = ("n+", _exp(imap_, t_.comparators[0]), k_)

    def arith(e, T):
        if isinstance(e, ast.Constant) and isinstance(e.value, int):
            return e.value
        if dotted(e) in ("self._threads", "threads"):
            return T
        if (dotted(e) or "").startswith("self.") and imap_.cls is not None:
            # a field set once in __init__ from the thread count
            init_ = imap_.cls.methods.get("__init__")
            defs_ = [n.value for n in (init_.body_nodes() if init_ else [])
                     if isinstance(n, (ast.Assign, ast.AnnAssign)) and
                     n.value is not None and dotted(
                         n.targets[0] if isinstance(n, ast.Assign)
                         else n.target) == dotted(e)]
            if len(defs_) == 1:
                return arith(_exp(init_, defs_[0]), T)
            return None
        if isinstance(e, ast.BinOp):
            a, b = arith(e.left, T), arith(e.right, T)
            if a is None or b is None:
                return None
            if isinstance(e.op, ast.Add):
                return a + b
            if isinstance(e.op, ast.Sub):
                return a - b
            if isinstance(e.op, ast.Mult):
                return a * b
            if isinstance(e.op, ast.FloorDiv) and b:
                return a // b
            return None
        if isinstance(e, ast.Call) and dotted(e.func) in ("min", "max") and \
                e.args and not e.keywords:
            vals = [arith(a, T) for a in e.args]
            if None in vals:
                return None
            return min(vals) if dotted(e.func) == "min" else max(vals)
        return None

    ok_pf, witness = bound is not None, ""
    if bound is not None:
        for T in range(1, 513):
            v = arith(bound[1], T)
            if v is None:
                ok_pf, witness = False, "bound not an arithmetic expression " \
                    "in the thread count"
                break
            v = v + (bound[2] if bound[0] == "n+" else 0)
            if v < T:
                ok_pf, witness = False, f"threads={T}: prefill={v}"
                break
    rep.ob("C13.prefill", ok_pf, loc=imap_.loc(), where=imap_.qualname,
           construct="prefill = " + (ast.unparse(bound[1]) + (
               f" + {bound[2]}" if bound[0] == "n+" else "") if bound else
               "<not found>") + (f" :: {witness}" if witness else ""),
           message="each of the workers is handed an input or a sentinel "
           "before the consumer waits for the first result")
    # nothing read from the dataset's files / the environment is memoised
    from sa.rules import shared as _shm
    _shm.check_no_memo(ctx, rep, "C13.memo")
    _shm.check_no_shared_class_state(ctx, rep, "C13.class-state")
    _shm.check_assert_pure(ctx, rep, "C13.assert")

_LP = "src/sedpack/io/itertools/lazy_pool.py"
SELFTESTS = [
    dict(rule="C13.count", name="stop-batch-conditional", expect="fire", path=_LP,
         old="        for _ in range(self._threads):\n            self._to_process.put(StopSentinel())\n        self._to_process = None\n",
         new="        if self._active_threads:\n            for _ in range(self._threads):\n                self._to_process.put(StopSentinel())\n        self._to_process = None\n"),
    dict(rule="C13.count", name="one-worker-less", expect="fire", path=_LP,
         old="            ) for _ in range(self._threads)\n",
         new="            ) for _ in range(self._threads - 1)\n"),
    dict(rule="C13.count", name="sentinels-mismatch", expect="fire", path=_LP,
         old="        for _ in range(self._threads):\n            self._to_process.put(StopSentinel())",
         new="        for _ in range(self._active_threads):\n            self._to_process.put(StopSentinel())"),
    dict(rule="C13.consumer", name="yield-without-enqueue", expect="fire", path=_LP,
         old="            try:\n                # Avoid pydantic stop-iteration-return warning.\n                self._to_process.put(next(iterator_with_stops))\n            except StopIteration as exc:\n                raise ValueError(\"StopSentinel missing.\") from exc\n            yield next_result\n",
         new="            if self._active_threads == self._threads:\n                self._to_process.put(next(iterator_with_stops))\n            yield next_result\n"),
    dict(rule="C13.consumer", name="swap-order-twin", expect="silent", path=_LP,
         old="            try:\n                # Avoid pydantic stop-iteration-return warning.\n                self._to_process.put(next(iterator_with_stops))\n            except StopIteration as exc:\n                raise ValueError(\"StopSentinel missing.\") from exc\n            yield next_result\n",
         new="            yield next_result\n            try:\n                self._to_process.put(next(iterator_with_stops))\n            except StopIteration as exc:\n                raise ValueError(\"StopSentinel missing.\") from exc\n"),
    dict(rule="C13.consumer", name="sentinel-also-yields", expect="fire", path=_LP,
         old="            if isinstance(next_result, StopSentinel):\n                self._active_threads -= 1\n                continue\n",
         new="            if isinstance(next_result, StopSentinel):\n                self._active_threads -= 1\n"),
    dict(rule="C13.consumer", name="loop-ge-zero", expect="fire", path=_LP,
         old="        while self._active_threads > 0:", new="        while self._active_threads >= 0:"),
    dict(rule="C13.sentinel", name="worker-keeps-running-after-sentinel", expect="fire", path=_LP,
         old="                self._results.put(element)\n                return\n",
         new="                self._results.put(element)\n                continue\n"),
    dict(rule="C13.owner", name="consumer-drains-to-process", expect="fire", path=_LP,
         old="                # Stop the workers and let the consumer know.\n                self.finish_and_reset()\n",
         new="                while not self._to_process.empty():\n                    self._to_process.get()\n                self.finish_and_reset()\n"),
    dict(rule="C13.tail", name="no-sentinel-tail", expect="fire", path=_LP,
         old="            iterable, itertools.cycle([StopSentinel()]))",
         new="            iterable, [StopSentinel()] * self._threads)"),
    dict(rule="C13.tail", name="pulled-from-list", expect="fire", path=_LP,
         old="        iterator_with_stops = iter(iterator_with_stops)\n",
         new="        iterator_with_stops = list(itertools.islice(iterator_with_stops, 10 * self._threads))\n"),
    dict(rule="C13.tail", name="repeat-twin", expect="silent", path=_LP,
         old="            iterable, itertools.cycle([StopSentinel()]))",
         new="            iterable, itertools.repeat(StopSentinel()))"),
    dict(rule="C13.tail", name="iter-dropped-chain-is-iterator-twin", expect="silent", path=_LP,
         old="        iterator_with_stops = iter(iterator_with_stops)\n", new=""),
    dict(rule="C13.reset", name="exit-resets-only-on-error", expect="fire", path=_LP,
         old="        self.finish_and_reset()\n        if exc:\n            raise exc\n        return True\n",
         new="        if exc:\n            self.finish_and_reset()\n            raise exc\n        return True\n"),
    dict(rule="C13.reset", name="forget-before-sentinels", expect="fire", path=_LP,
         old="        for _ in range(self._threads):\n            self._to_process.put(StopSentinel())\n        self._to_process = None\n",
         new="        to_process, self._to_process = self._to_process, None\n        self._to_process = None\n        for _ in range(self._threads - 1):\n            to_process.put(StopSentinel())\n"),
]
