"""C01 - round-trip fidelity: representation agreement between writers and
readers (tables, casts, byte/memory order, copies)."""
from __future__ import annotations

import ast

from sa import norm
from sa.cfg import CFG, case_literals
from sa.context import Context, const_str, names_in, raises_in
from sa.model import AnalysisError, FunctionInfo, dotted, parent, short
from sa.rules import rustrules
from sa.rules.common import TAG, escape_sinks
from sa.valuation import Valuation

FBW = "sedpack.io.shard.shard_writer_flatbuffer"
FBR = "sedpack.io.flatbuffer.iterate"
TFD = "sedpack.io.tfrec.tfdata"
SAFE_CASTINGS = {"no", "equiv", "safe"}


# ---------------------------------------------------------------------------
def match_tables(fn: FunctionInfo, subject_suffix: str):
    """literal -> arm body for the dispatch on `<..subject_suffix>` in fn
    (match statement or if/elif chain)."""
    from sa import norm
    from sa.dispatch import literal_dispatches
    out: dict[object, list[ast.stmt]] = {}
    default = None
    found = False
    for n in fn.body_nodes():
        if isinstance(n, ast.Match) and norm.canon(fn, n.subject).endswith(
                subject_suffix) and not any(
                    d.node is n for d in literal_dispatches([n])):
            raise AnalysisError(f"{fn.loc(n)}: dispatch shape not understood")
    for d in literal_dispatches(fn.body_nodes()):
        if not norm.canon(fn, d.subject).endswith(subject_suffix):
            continue
        found = True
        default = d.default
        for lits, body in d.arms:
            for lit in lits:
                out[lit] = body
    if not found:
        raise AnalysisError(f"{fn.fq}: no dispatch on {subject_suffix}")
    return out, default


def codec_of(ctx: Context, fn: FunctionInfo, body: list[ast.stmt], param: str):
    """(family, op) of an arm: identity | (module, compress/decompress)."""
    if len(body) == 1 and isinstance(body[0], ast.Return):
        v = body[0].value
        if isinstance(v, ast.Name) and v.id == param:
            return "identity", "identity"
        if isinstance(v, ast.Call):
            q = ctx.repo.qualify(fn.module, v.func)
            if q is not None and "." in q and v.args and isinstance(
                    v.args[0], ast.Name) and v.args[0].id == param:
                mod, _, op = q.rpartition(".")
                return mod, op
    raise AnalysisError(f"{fn.loc(body[0])}: codec arm not understood: "
                        f"{short(body[0])}")


def python_codec_tables(ctx: Context):
    """Per compression name: what compress / decompress return, evaluated on
    the CFG specialised on self.compression_type = <name> (so a match, an
    if/elif chain or a shared selector helper all read the same)."""
    from sa import pathval
    from sa.dispatch import literal_dispatches
    comp = ctx.fn("sedpack.io.compress:CompressedFile.compress")
    deco = ctx.fn("sedpack.io.compress:CompressedFile.decompress")
    names = set(literal_members(ctx, "CompressionT"))
    for f in (comp, deco):
        for d in literal_dispatches(f.body_nodes()):
            if norm.canon(f, d.subject).endswith("compression_type"):
                names |= {x for lits, _ in d.arms for x in lits}
    other = "<a name no arm knows>"

    def table(fn):
        fam, default_raises = {}, False
        param = fn.params()[1]
        for name in sorted(names) + [other]:
            r = pathval.returned_on(ctx, fn, {"self.compression_type": name})
            if r == pathval.RAISES:
                if name == other:
                    default_raises = True
                continue
            if name == other:
                continue
            if len(r) != 1:
                fam[name] = ("?", f"{len(r)} different results")
                continue
            try:
                fam[name] = codec_of(ctx, fn, [ast.Return(value=r[0])], param)
            except AnalysisError:
                fam[name] = ("?", "not one library call on the whole payload: "
                             + short(r[0], 50))
        return fam, default_raises

    cfam, cdef = table(comp)
    dfam, ddef = table(deco)
    if not cfam or not dfam:
        raise AnalysisError("C01.codec: no compression arm could be evaluated")
    py_family = {k: v[0] for k, v in cfam.items()}
    return py_family, (comp, deco, cfam, dfam, cdef, ddef)


def literal_members(ctx: Context, alias: str) -> list:
    lit = ctx.repo.module("sedpack.io.types").globals.get(alias)
    if not isinstance(lit, ast.Subscript):
        raise AnalysisError(f"{alias} is not a Literal[...] alias")
    elts = lit.slice.elts if isinstance(lit.slice, ast.Tuple) else [lit.slice]
    return [e.value for e in elts if isinstance(e, ast.Constant)]


def check_codec(ctx: Context, rep, rule: str) -> dict:
    rep.rule(
        rule,
        "CompressedFile.compress and .decompress have the same case "
        "literals; per literal the same codec module, compress on one side "
        "and decompress on the other (identity for ''); the fall-through "
        "raises; supported_compressions() equals the arm literals equals "
        "CompressionT minus the container type rejected in __init__")
    py_family, (comp, deco, cfam, dfam, cdef, ddef) = python_codec_tables(ctx)
    rep.ob(rule, set(cfam) == set(dfam), loc=comp.loc(), where="CompressedFile",
           construct=f"compress arms {sorted(cfam)} / decompress arms "
           f"{sorted(dfam)}",
           message="both directions know the same compression names")
    for name in sorted(set(cfam) | set(dfam)):
        c, d = cfam.get(name), dfam.get(name)
        ok = c is not None and d is not None and c[0] == d[0] and (
            c == ("identity", "identity") and d == ("identity", "identity") or
            (c[1] == "compress" and d[1] == "decompress"))
        rep.ob(rule, ok, loc=deco.loc(), where="CompressedFile",
               construct=f"{name!r}: compress={c}, decompress={d}",
               message="what one codec writes the same codec must read")
    rep.ob(rule, cdef and ddef, loc=comp.loc(), where="CompressedFile",
           construct="case _: raise",
           message="unknown compression names are refused in both directions")
    sup = ctx.fn("sedpack.io.compress:CompressedFile.supported_compressions")
    rets = [n for n in sup.body_nodes() if isinstance(n, ast.Return)]
    listed = None
    rv = rets[0].value if len(rets) == 1 else None
    # list(<display>) / tuple(<display>) / a module-level display constant
    while isinstance(rv, ast.Call) and isinstance(rv.func, ast.Name) and \
            rv.func.id in ("list", "tuple", "sorted") and len(rv.args) == 1 \
            and rv.func.id != "sorted":
        rv = rv.args[0]
    if isinstance(rv, ast.Name) and isinstance(
            sup.module.globals.get(rv.id), (ast.List, ast.Tuple)):
        rv = sup.module.globals[rv.id]
    if isinstance(rv, (ast.List, ast.Tuple)):
        listed = [e.value for e in rv.elts if isinstance(e, ast.Constant)]
    init = ctx.fn("sedpack.io.compress:CompressedFile.__init__")
    rejected: set = set()
    for n in init.body_nodes():
        if isinstance(n, ast.If) and raises_in(n.body) and isinstance(
                n.test, ast.Compare) and isinstance(n.test.ops[0], ast.In) and \
                isinstance(n.test.comparators[0], (ast.List, ast.Tuple, ast.Set)):
            rejected |= {e.value for e in n.test.comparators[0].elts
                         if isinstance(e, ast.Constant)}
    members = set(literal_members(ctx, "CompressionT"))
    rep.ob(rule, listed is not None and set(listed) == set(cfam) ==
           members - rejected, loc=sup.loc(), where=sup.qualname,
           construct=f"supported={listed}, CompressionT-rejected="
           f"{sorted(members - rejected)}",
           message="the advertised list, the implemented arms and the type "
           "minus the rejected container agree")
    return py_family


# ---------------------------------------------------------------------------
def check_cast(ctx: Context, rep, rule: str) -> None:
    rep.rule(
        rule,
        "in save_numpy_vector_as_bytearray the value that reaches tobytes "
        "passed a gate np.can_cast(.., casting=L) with L in {no, equiv, safe} "
        "whose false outcome raises, and the conversion target of the "
        "following np.array/astype is the same dtype expression the gate "
        "tested")
    fn = ctx.fn(f"{FBW}:ShardWriterFlatBuffer.save_numpy_vector_as_bytearray")
    gates = [c for c in fn.calls() if ctx.is_call(fn, c, "numpy.can_cast")]
    rep.ob(rule, len(gates) >= 1, loc=fn.loc(), where=fn.qualname,
           construct="np.can_cast(value, to=attribute.dtype, casting='safe')",
           message="a cast gate must exist")
    if not gates:
        return
    tobytes = [c for c in fn.calls() if isinstance(c.func, ast.Attribute) and
               c.func.attr in ("tobytes", "tostring")]
    if not tobytes:
        raise AnalysisError("C01.cast: tobytes not found")
    for g in gates:
        casting = ctx.arg(g, 2, "casting")
        lit = const_str(casting) if casting is not None else "safe"
        rep.ob(rule, lit in SAFE_CASTINGS, loc=fn.loc(g), where=fn.qualname,
               construct=f"casting={lit!r}",
               message="only value-preserving casts may pass the gate")
        to = ctx.arg(g, 1, "to")
        # gate false -> raise: specialise
        v = Valuation(fn, lambda e, g=g: "gate" if e is g else None,
                      {"gate": False})
        cfg = CFG(fn, oracle=v.truth)
        live = cfg.reachable([cfg.entry], follow=lambda a, b, lab: lab != "exc")
        reach_tb = [n for n in live if n.kind == "call" and n.ast in tobytes]
        rep.ob(rule, not reach_tb and cfg.exit not in live, loc=fn.loc(g),
               where=fn.qualname, construct="not can_cast => raise",
               message="a value that cannot be cast safely never reaches the "
               "byte dump")
        convs = [c for c in fn.calls() if
                 (ctx.is_call(fn, c, "numpy.array", "numpy.asarray") and
                  ctx.arg(c, 1, "dtype") is not None) or
                 (isinstance(c.func, ast.Attribute) and c.func.attr == "astype")]
        for c in convs:
            d = ctx.arg(c, 1, "dtype") if not (isinstance(
                c.func, ast.Attribute) and c.func.attr == "astype") else \
                ctx.arg(c, 0, "dtype")
            rep.ob(rule, d is not None and to is not None and
                   ast.unparse(d) == ast.unparse(to), loc=fn.loc(c),
                   where=fn.qualname,
                   construct=f"gate tests {short(to)}, conversion to {short(d)}",
                   message="the dtype that was tested is the dtype converted "
                   "to")
        rep.ob(rule, bool(convs), loc=fn.loc(), where=fn.qualname,
               construct="np.array(value_np, dtype=attribute.dtype)",
               message="the value is converted to the declared dtype before "
               "the dump (so the reader's dtype matches the bytes)")


def check_order(ctx: Context, rep, rule: str) -> None:
    rep.rule(
        rule,
        "memory order and byte order agree: the writer dumps C order "
        "(tobytes(order='C') or default) after normalising to little endian "
        "(finite-domain evaluation over dtype.byteorder x sys.byteorder: an "
        "odd number of byteswaps exactly when the data is big endian); the "
        "reader decodes the declared dtype as '<' and reshapes in C order to "
        "the declared shape")
    fn = ctx.fn(f"{FBW}:ShardWriterFlatBuffer.save_numpy_vector_as_bytearray")
    for c in fn.calls():
        if isinstance(c.func, ast.Attribute) and c.func.attr == "tobytes":
            order = ctx.arg(c, 0, "order")
            rep.ob(rule, order is None or const_str(order) == "C",
                   loc=fn.loc(c), where=fn.qualname, construct=short(c),
                   message="bytes are dumped in C order")
    flats = [c for c in fn.calls() if isinstance(c.func, ast.Attribute) and
             c.func.attr in ("flatten", "ravel") or ctx.is_call(
                 fn, c, "numpy.ravel")]
    rep.ob(rule, bool(flats), loc=fn.loc(), where=fn.qualname,
           construct="value is flattened before the dump",
           message="a flattening step exists")
    for c in flats:
        order = ctx.arg(c, 0 if isinstance(c.func, ast.Attribute) else 1,
                        "order")
        rep.ob(rule, order is None or const_str(order) == "C", loc=fn.loc(c),
               where=fn.qualname, construct=short(c),
               message="flattening follows the logical (C) index order, not "
               "the memory layout of the caller's array (order A/K/F would "
               "permute Fortran-ordered or transposed inputs)")
    for c in fn.calls():
        if isinstance(c.func, ast.Attribute) and c.func.attr == "reshape" or \
                ctx.is_call(fn, c, "numpy.reshape"):
            order = ctx.arg(c, None, "order")
            rep.ob(rule, order is None or const_str(order) == "C",
                   loc=fn.loc(c), where=fn.qualname, construct=short(c),
                   message="writer-side reshape uses C order")
    # endianness: evaluate the normalisation
    for bo in ("=", "<", ">", "|"):
        for sysbo in ("little", "big"):
            env = {"value_np.dtype.byteorder": bo, "sys.byteorder": sysbo}
            from sa import pathval
            cfg = CFG(fn, env=env, oracle=pathval.call_oracle(ctx, fn, env))
            live = cfg.reachable([cfg.entry],
                                 follow=lambda a, b, lab: lab != "exc")
            tb = [n for n in live if n.kind == "call" and isinstance(
                n.ast.func, ast.Attribute) and n.ast.func.attr == "tobytes"]
            swaps = [n for n in live if n.kind == "call" and isinstance(
                n.ast.func, ast.Attribute) and n.ast.func.attr == "byteswap"]
            if not tb:
                rep.ob(rule, False, loc=fn.loc(), where=fn.qualname,
                       construct=f"byteorder={bo!r}, sys={sysbo}",
                       message="the byte dump is unreachable for this byte "
                       "order")
                continue
            # swaps on every path vs on some path
            must = [s for s in swaps if tb[0] not in cfg.reachable(
                [cfg.entry], avoiding=[s],
                follow=lambda a, b, lab: lab != "exc")]
            big = (bo == ">") or (bo == "=" and sysbo == "big")
            na = bo == "|"
            deterministic = len(must) == len(swaps)
            ok = deterministic and (na or (len(swaps) % 2 == 1) == big)
            rep.ob(rule, ok, loc=fn.loc(), where=fn.qualname,
                   construct=f"byteorder={bo!r}, sys={sysbo}: "
                   f"{len(swaps)} byteswap(s)",
                   message="data must be little endian when dumped "
                   f"(big endian input: {big})", sample=False)
    # the match subject is the converted array's byte order
    dumped = {dotted(n.func.value) for n in fn.calls() if isinstance(
        n.func, ast.Attribute) and n.func.attr in ("tobytes", "tostring")}
    tested = {norm.canon(fn, x)[:-len(".dtype.byteorder")]
              for x in fn.body_nodes() if isinstance(x, ast.Attribute) and
              x.attr == "byteorder" and norm.canon(fn, x).endswith(
                  ".dtype.byteorder")}
    rep.ob(rule, bool(dumped) and dumped <= tested,
           loc=fn.loc(), where=fn.qualname,
           construct=f"byte order tested of {sorted(tested)}, dumped "
           f"{sorted(x or '?' for x in dumped)}",
           message="the byte order that decides about the swap is that of "
           "the array that is dumped")
    # the byte order that is tested is the byte order of the array that is
    # dumped: no dtype conversion between the test and tobytes
    wcfg = ctx.cfg(fn)
    def mentions_byteorder(e: ast.AST) -> bool:
        return any(isinstance(x, ast.Attribute) and x.attr == "byteorder" and
                   norm.canon(fn, x).endswith("dtype.byteorder")
                   for x in ast.walk(e)) or "dtype.byteorder" in norm.canon(
                       fn, e)

    tests = [n for n in wcfg.nodes if n.kind == "test" and n.ast is not None
             and mentions_byteorder(n.ast)]
    after = wcfg.reachable(tests, follow=lambda a, b, lab: lab != "exc",
                           strict=True) if tests else set()

    def converts(c: ast.Call) -> bool:
        if ctx.is_call(fn, c, "numpy.array", "numpy.asarray",
                       "numpy.ascontiguousarray", "numpy.asanyarray",
                       "numpy.frombuffer"):
            return ctx.arg(c, 1, "dtype") is not None
        return isinstance(c.func, ast.Attribute) and c.func.attr in (
            "astype", "view", "newbyteorder")

    late = [n for n in wcfg.calls(converts) if n in after]
    rep.ob(rule, bool(tests) and not late,
           loc=fn.loc(late[0].ast) if late else fn.loc(), where=fn.qualname,
           construct=("conversion after the byte-order test: " +
                      short(late[0].ast, 60)) if late else
           "cast -> byte-order test -> [byteswap] -> tobytes",
           message="the array whose byte order was tested (and swapped) is "
           "the array that is dumped; a dtype conversion after the test "
           "re-interprets already swapped bytes")
    # reader
    dec = ctx.fn(f"{FBR}:IterateShardFlatBuffer.decode_array")
    from sa.dataflow import TagFlow

    def dt_hook(e, state, rec):
        if isinstance(e, ast.Call) and ctx.is_call(dec, e, "numpy.dtype") and \
                e.args and norm.canon(dec, e.args[0]).endswith("attribute.dtype"):
            return frozenset({"declared"})
        if isinstance(e, ast.Call) and isinstance(e.func, ast.Attribute) and \
                e.func.attr == "newbyteorder":
            order = const_str(ctx.arg(e, 0, "new_order"))
            return frozenset(rec(e.func.value) | {
                "le" if order in ("<", "little", "L") else "other-order"})
        return None

    dcfg = ctx.cfg(dec)
    dtf = TagFlow(dcfg, {}, hook=dt_hook)
    fb = [n for n in dcfg.calls() if ctx.is_call(dec, n.ast, "numpy.frombuffer")]
    for n in fb:
        tags = dtf.tags_at(n, ctx.arg(n.ast, 1, "dtype"))
        rep.ob(rule, {"declared", "le"} <= tags and "other-order" not in tags,
               loc=dec.loc(n.ast), where=dec.qualname,
               construct=short(n.ast, 70) + f" dtype carries {sorted(tags)}",
               message="frombuffer interprets the bytes with the declared "
               "dtype in little-endian byte order")
    rep.ob(rule, len(fb) == 1, loc=dec.loc(), where=dec.qualname,
           construct=f"{len(fb)} frombuffer site(s)",
           message="the bytes are decoded once")
    # ... on every path (the tags above are may-information)
    le_nodes = [n for n in dcfg.calls() if isinstance(
        n.ast.func, ast.Attribute) and n.ast.func.attr == "newbyteorder" and
        const_str(ctx.arg(n.ast, 0, "new_order")) in ("<", "little", "L")]
    around = dcfg.reachable([dcfg.entry], avoiding=le_nodes,
                            follow=lambda a, b, lab: lab != "exc")
    skipped = [n for n in fb if n in around]
    rep.ob(rule, bool(le_nodes) and not skipped,
           loc=dec.loc(skipped[0].ast) if skipped else dec.loc(),
           where=dec.qualname,
           construct="newbyteorder('<') on every path to frombuffer",
           message="the little-endian pinning of the dtype is unconditional "
           "(a declared dtype may carry its own byte-order marker; the "
           "stored bytes are always little endian)")

    def alternatives(e):
        if isinstance(e, ast.IfExp):
            return alternatives(e.body) + alternatives(e.orelse)
        return [e]

    def declared_shape(e) -> bool:
        if ast.unparse(e) == "attribute.shape":
            return True
        return isinstance(e, ast.Tuple) and len(e.elts) == 2 and isinstance(
            e.elts[1], ast.Starred) and ast.unparse(
                e.elts[1].value) == "attribute.shape"

    n_reshape = 0
    for c in dec.calls():
        if isinstance(c.func, ast.Attribute) and c.func.attr == "reshape":
            n_reshape += 1
            order = ctx.arg(c, None, "order")
            shape = norm.expand(dec, c.args[0]) if c.args else None
            ok_shape = shape is not None and all(
                declared_shape(a) for a in alternatives(shape))
            rep.ob(rule, (order is None or const_str(order) == "C") and ok_shape,
                   loc=dec.loc(c), where=dec.qualname, construct=short(c),
                   message="reshape in C order to the declared shape "
                   "(optionally with a leading batch dimension)")
    rep.ob(rule, n_reshape >= 1, loc=dec.loc(), where=dec.qualname,
           construct=f"{n_reshape} reshape site(s)",
           message="the flat array is given the declared shape")
    # the Python reader applies decode_array to attribute i of the
    # declaration with vector i
    it = ctx.fn(f"{FBR}:IterateShardFlatBuffer._iterate_content")
    # a for loop or a (dict) comprehension over enumerate(declaration)
    gens = []
    for n in it.body_nodes():
        if isinstance(n, ast.For):
            gens.append((n.iter, n.target, n))
        elif isinstance(n, ast.comprehension):
            gens.append((n.iter, n.target, parent(n)))
    ok = False
    for g_iter, g_target, scope in gens:
        if not (isinstance(g_iter, ast.Call) and isinstance(
                g_iter.func, ast.Name) and g_iter.func.id == "enumerate" and
                g_iter.args and ast.unparse(g_iter.args[0]).endswith(
                    "saved_data_description") and
                isinstance(g_target, ast.Tuple) and not getattr(
                    g_iter, "keywords", None)):
            continue
        idx, att = [e.id for e in g_target.elts]
        ok = any(isinstance(c, ast.Call) and isinstance(
            c.func, ast.Attribute) and c.func.attr == "Attributes" and
                 c.args and dotted(c.args[0]) == idx for c in ast.walk(scope)) \
            and any(isinstance(c, ast.Call) and ast.unparse(c.func).endswith(
                "decode_array") and any(k.arg == "attribute" and
                                        dotted(k.value) == att
                                        for k in c.keywords)
                    for c in ast.walk(scope)) and (
                        f"[{att}.name]" in ast.unparse(scope) or
                        f"{att}.name:" in ast.unparse(scope))
    rep.ob(rule, ok, loc=it.loc(), where=it.qualname,
           construct="for i, attribute in enumerate(saved_data_description): "
           "decode_array(Attributes(i), attribute) -> [attribute.name]",
           message="vector i is decoded with declaration i and stored under "
           "that attribute's name")
    # writer iterates the same declaration order
    w = ctx.fn(f"{FBW}:ShardWriterFlatBuffer._write")
    wf = [n for n in w.body_nodes() if isinstance(n, ast.For) and
          ast.unparse(n.iter).endswith("saved_data_description")]
    okw = bool(wf) and any(
        isinstance(c, ast.Call) and ast.unparse(c.func).endswith(
            "save_numpy_vector_as_bytearray") and any(
                k.arg == "value" and norm.canon(w, k.value) ==
                f"values[{wf[0].target.id}.name]" for k in c.keywords)
        for c in ast.walk(wf[0])) if wf else False
    # FlatBuffers vectors are built back to front: every prepend of offsets
    # (in _write or a helper it calls) iterates reversed(offsets)
    wmod = ctx.repo.module(FBW)
    prepends = [(f, c) for f in wmod.functions.values() for c in f.calls()
                if isinstance(c.func, ast.Attribute) and
                c.func.attr == "PrependUOffsetTRelative"]
    rev_ok = bool(prepends)
    for f, c in prepends:
        lp = parent(parent(c))
        rev_ok = rev_ok and isinstance(lp, ast.For) and isinstance(
            lp.iter, ast.Call) and isinstance(lp.iter.func, ast.Name) and \
            lp.iter.func.id == "reversed" and dotted(c.args[0]) == dotted(
                lp.target)
    reach_w = {w.fq} | ctx.cg.reachable([w.fq])
    rev_ok = rev_ok and any(f.fq in reach_w for f, _c in prepends)
    rev = [1] if rev_ok else []
    rep.ob(rule, okw and len(rev) == 1, loc=w.loc(), where=w.qualname,
           construct="for attribute in saved_data_description: "
           "save(values[attribute.name]); prepend reversed(offsets)",
           message="attributes are stored in declaration order (FlatBuffers "
           "vectors are built back to front, hence reversed)")


# ---------------------------------------------------------------------------
INT_FIT_INT64 = {"int8", "int16", "int32", "int64", "uint8", "uint16", "uint32",
                 "bool"}
# narrower floats embed by value but the widen / narrow casts canonicalise
# NaN payloads, so only float32 itself is admitted in a FloatList
FLOAT_FIT_FLOAT32 = {"float32"}
PARSEABLE = {"tf.float32", "tf.int64", "tf.string"}


def tfrec_tables(ctx: Context):
    to = ctx.fn(f"{TFD}:to_tfrecord")
    frm = ctx.fn(f"{TFD}:get_from_tfrecord")
    mod = ctx.repo.module(TFD)

    def dtype_set(test: ast.AST) -> set[str] | None:
        if isinstance(test, ast.Compare) and len(test.ops) == 1 and \
                ast.unparse(test.left).endswith("attribute.dtype"):
            r = test.comparators[0]
            if isinstance(test.ops[0], ast.Eq) and const_str(r) is not None:
                return {const_str(r)}
            if isinstance(test.ops[0], ast.In):
                if isinstance(r, (ast.List, ast.Tuple, ast.Set)):
                    return {e.value for e in r.elts if isinstance(e, ast.Constant)}
                if isinstance(r, ast.Name) and r.id in mod.globals:
                    g = mod.globals[r.id]
                    if isinstance(g, ast.Dict):
                        return {k.value for k in g.keys
                                if isinstance(k, ast.Constant)}
                    if isinstance(g, (ast.List, ast.Tuple, ast.Set)):
                        return {e.value for e in g.elts
                                if isinstance(e, ast.Constant)}
        return None

    writer: dict[str, tuple[str, ast.AST]] = {}
    # the writer table is *evaluated*: for every dtype name of a frozen
    # universe (plus every name the module mentions) the function is
    # specialised on attribute.dtype = <name> and the feature constructor
    # that remains reachable is read off - whatever form the dispatch has
    # (if/elif, match, table membership, NumPy type-hierarchy tests)
    from sa import dtypeval
    universe = set(dtypeval.DTYPES)
    for n in ast.walk(mod.tree):
        if isinstance(n, ast.Constant) and isinstance(n.value, str) and \
                n.value in dtypeval.DTYPES:
            universe.add(n.value)
    subject = "attribute.dtype"
    default_raises = False
    undecided: list[str] = []
    rejected: list[bool] = []
    for d in sorted(universe):
        ev = dtypeval.DtypeEval(subject, d, mod.globals)
        cfg_d = CFG(to, env={subject: d}, oracle=ev.oracle)
        live = cfg_d.reachable([cfg_d.entry],
                               follow=lambda a, b, lab: lab != "exc")
        # a test on the dtype that could not be decided keeps both branches
        for n in cfg_d.nodes:
            if n in live and n.kind == "test" and n.ast is not None and \
                    not isinstance(n.stmt, ast.Match):
                for atom in ast.walk(n.ast):
                    if isinstance(atom, (ast.Compare, ast.Call)) and \
                            ev.mentions(atom) and not any(
                                isinstance(x, (ast.Compare, ast.Call)) and
                                x is not atom and ev.mentions(x)
                                for x in ast.walk(atom)) and \
                            {x.id for x in ast.walk(atom)
                             if isinstance(x, ast.Name)} <= (
                                 {subject.split(".")[0], "np", "numpy"} |
                                 set(mod.globals)) and \
                            ev.ev(atom) is dtypeval.UNKNOWN:
                        undecided.append(f"{to.loc(atom)}: "
                                         f"{short(atom, 60)} for {d!r}")
        feats = [n for n in cfg_d.calls() if n in live and isinstance(
            n.ast.func, ast.Name) and n.ast.func.id.endswith("_feature")]
        kinds = {n.ast.func.id for n in feats}
        if not feats:
            # a dtype without a writer arm must be refused
            rejected.append(any(
                n.kind == "stmt" and isinstance(n.ast, ast.Raise) and
                n in live and ev.mentions(n.ast) for n in cfg_d.nodes) or
                cfg_d.exit not in live)
            continue
        if len(kinds) != 1:
            raise AnalysisError(f"C01.tfrec: dtype {d!r} reaches several "
                                f"feature kinds {sorted(kinds)}")
        ser = any(n in live and ast.unparse(n.ast.func).endswith(
            "serialize_tensor") for n in cfg_d.calls())
        arm_node = feats[0].ast
        while arm_node is not None and not isinstance(
                arm_node, (ast.If, ast.match_case)):
            arm_node = parent(arm_node)
        writer[d] = (kinds.pop() + ("+serialize_tensor" if ser else ""),
                     arm_node if arm_node is not None else feats[0].stmt)
    default_raises = bool(rejected) and all(rejected)
    if undecided:
        raise AnalysisError("C01.tfrec: writer dispatch test not understood: "
                            + undecided[0])
    if not writer:
        raise AnalysisError("C01.tfrec: no dtype reaches a feature constructor")
    reader: dict[str, str] = {}
    rd = None
    # (the table may sit in a private helper the reader calls, e.g. from a
    # comprehension where nothing can be inlined)
    reach_r = {frm.fq} | ctx.cg.reachable([frm.fq])
    rnodes = [n for f in mod.functions.values()
              if f.fq in reach_r or f.qualname.startswith(frm.qualname)
              for n in f.body_nodes()]
    for n in rnodes:
        if isinstance(n, ast.Subscript) and isinstance(
                n.slice, ast.Attribute) and n.slice.attr == "dtype":
            if isinstance(n.value, ast.Dict):
                rd = n.value
            elif isinstance(n.value, ast.Name) and isinstance(
                    mod.globals.get(n.value.id), ast.Dict) and all(
                        ast.unparse(v).startswith("tf.")
                        for v in mod.globals[n.value.id].values) and len(
                            mod.globals[n.value.id].keys) > 3:
                rd = mod.globals[n.value.id]
    if rd is None:
        raise AnalysisError("C01.tfrec: reader dtype table not found")
    for k, v in zip(rd.keys, rd.values):
        reader[k.value] = ast.unparse(v)
    # serialized tensor parse types: from each parse_tensor site, its guard
    # (which dtypes) and its out_type argument (literal or table lookup)
    # which dtypes go through parse_tensor and with which out_type: evaluated
    # per dtype name on the reader specialised on attribute.dtype (nested if,
    # guard clause + continue, match ... all read the same)
    parse: dict[str, str] = {}
    parse_sites = []
    rfuncs = [f for f in mod.functions.values()
              if f.qualname.startswith("get_from_tfrecord") and
              not isinstance(f.node, ast.Lambda)]
    for f in rfuncs:
        sites_f = [c for c in f.calls()
                   if ast.unparse(c.func).endswith("parse_tensor")]
        if not sites_f:
            continue
        parse_sites += sites_f
        for d in sorted(universe):
            ev = dtypeval.DtypeEval(subject, d, mod.globals)
            cfg_r = CFG(f, env={subject: d}, oracle=ev.oracle)
            live_r = cfg_r.reachable([cfg_r.entry],
                                     follow=lambda a, b, lab: lab != "exc")
            for n in cfg_r.calls():
                if n not in live_r or n.ast not in sites_f:
                    continue
                ps = n.ast
                out_t = ps.args[1] if len(ps.args) > 1 else next(
                    (k.value for k in ps.keywords if k.arg == "out_type"), None)
                if out_t is None:
                    raise AnalysisError(f"{f.loc(ps)}: parse_tensor site not "
                                        "understood")
                if isinstance(out_t, ast.Subscript) and isinstance(
                        out_t.value, ast.Name) and isinstance(
                            mod.globals.get(out_t.value.id), ast.Dict):
                    g = mod.globals[out_t.value.id]
                    table = {k.value: ast.unparse(v)
                             for k, v in zip(g.keys, g.values)}
                    parse[d] = table.get(d, "<missing>")
                else:
                    parse[d] = ast.unparse(out_t)
    # a dtype whose parse test could not be decided would show up as parsed
    # for every dtype; the writer side already fails on undecidable tests
    return to, frm, writer, reader, parse, parse_sites, default_raises, rd


def check_tfrec(ctx: Context, rep, rule: str) -> None:
    rep.rule(
        rule,
        "TFRecord writer table (dtype -> feature kind, from the if/elif "
        "chain of to_tfrecord) and reader table (dict in get_from_tfrecord) "
        "agree: every dtype the writer accepts has a reader entry of the "
        "matching kind that parse_single_example can parse, and the "
        "container holds the dtype losslessly (Int64List: ints of at most 64 "
        "signed / 32 unsigned bits; FloatList: at most float32; wider floats "
        "only as serialized tensors parsed back with the same dtype)")
    to, frm, writer, reader, parse, parse_sites, default_raises, rd = \
        tfrec_tables(ctx)
    # byte / text values are stored as given: not through a NumPy coercion
    # (np.array(b"...") is an S-dtype scalar: empty and NUL-terminated byte
    # strings do not survive tobytes()/item())
    from sa import dtypeval
    from sa.dataflow import TagFlow

    def coerce_hook(e, state, rec):
        if isinstance(e, ast.Call) and ctx.is_call(
                to, e, "numpy.array", "numpy.asarray", "numpy.copy",
                "numpy.asanyarray", "numpy.frombuffer"):
            return frozenset({"np-coerced"})
        return None

    for d in ("bytes", "str"):
        ev = dtypeval.DtypeEval("attribute.dtype", d,
                                ctx.repo.module(TFD).globals)
        cfg_b = CFG(to, env={"attribute.dtype": d}, oracle=ev.oracle)
        live_b = cfg_b.reachable([cfg_b.entry],
                                 follow=lambda a, b, lab: lab != "exc")
        tf_b = TagFlow(cfg_b, {}, hook=coerce_hook)
        for n in cfg_b.calls():
            if n in live_b and isinstance(n.ast.func, ast.Name) and \
                    n.ast.func.id == "bytes_feature" and n.ast.args:
                tags = tf_b.tags_at(n, n.ast.args[0])
                rep.ob(rule, "np-coerced" not in tags, loc=to.loc(n.ast),
                       where=to.qualname,
                       construct=f"{d}: {short(n.ast, 70)}",
                       message="a bytes / str value is stored as the caller "
                       "gave it, not via a NumPy string scalar")
    rep.ob(rule, default_raises, loc=to.loc(), where=to.qualname,
           construct="else: raise ValueError('Unsupported dtype')",
           message="dtypes without a writer arm are rejected at write time")
    for d, (kind, node) in sorted(writer.items()):
        r = reader.get(d)
        if kind == "int64_feature":
            ok = r == "tf.int64" and d in INT_FIT_INT64
            need = "reader tf.int64 and an integer type that fits int64"
        elif kind == "float_feature":
            ok = r == "tf.float32" and d in FLOAT_FIT_FLOAT32
            need = "reader tf.float32 and dtype float32 (casts canonicalise NaNs)"
        elif kind == "bytes_feature+serialize_tensor":
            ok = r == "tf.string" and parse.get(d) == f"tf.{d}" and \
                bool(parse_sites)
            need = f"reader tf.string + parse_tensor(.., tf.{d})"
        elif kind == "bytes_feature":
            ok = r == "tf.string" and d in ("str", "bytes")
            need = "reader tf.string"
        else:
            raise AnalysisError(f"unknown feature kind {kind}")
        rep.ob(rule, bool(ok), loc=to.loc(node), where=to.qualname,
               construct=f"{d}: writer {kind} / reader {r}" + (
                   f" parse {parse.get(d)}" if "serialize" in kind else ""),
               message=f"accepted dtype must be readable and lossless: need "
               f"{need}")
    if rule.startswith("C01"):
      rep.rule(
        "C01.tfrec-floatlist",
        "frozen fact about the container: a tf.train.FloatList is filled "
        "element by element through Python floats (C double) and parsed "
        "back as float32, which quiets signalling NaNs (0x7f800001 reads "
        "back as 0x7fc00001); a narrower float additionally goes through "
        "casts that canonicalise every NaN. So no dtype stored in a "
        "FloatList is bit-preserving over all bit patterns; only serialized "
        "tensors and byte strings are")
    for d, (kind, node) in sorted(writer.items()):
        # (bit patterns are C01's concern only; C18 shares the tables)
        if kind == "float_feature" and rule.startswith("C01"):
            rep.ob("C01.tfrec-floatlist", False, loc=to.loc(node),
                   where=to.qualname,
                   construct=f"{d} stored in a tf.train.FloatList",
                   message=f"{d} values with signalling-NaN bit patterns do "
                   "not read back bit-identically from TFRecord shards "
                   "(the FloatList path converts through C double)")
    for d, r in sorted(reader.items()):
        rep.ob(rule, r in PARSEABLE or d not in writer, loc=frm.loc(rd),
               where=frm.qualname, construct=f"reader {d}: {r}",
               message="FixedLenFeature supports only float32, int64 and "
               "string", sample=False)
        if d not in writer:
            rep.info(rule, f"dtype {d!r} only in the reader table (a write is "
                     "rejected; informational)")
    # every dtype parsed back from a serialized tensor is stored that way
    for d in sorted(parse):
        rep.ob(rule, writer.get(d, ("", None))[0].endswith("serialize_tensor")
               or d not in writer, loc=frm.loc(), where=frm.qualname,
               construct=f"parse_tensor for {d}: writer "
               f"{writer.get(d, ('<rejected>', None))[0]}",
               message="serialized-tensor attributes are parsed back for "
               "exactly the dtypes stored that way")
    # a serialized tensor is converted to the declared dtype first
    from sa.norm import expand
    for d, (kind, node) in sorted(writer.items()):
        if not kind.endswith("serialize_tensor"):
            continue
        sers = [c for st in node.body for c in ast.walk(st) if isinstance(
            c, ast.Call) and ast.unparse(c.func).endswith("serialize_tensor")]
        ok = False
        shown = "<none>"
        for c in sers:
            arg = c.args[0] if c.args else None
            shown = short(arg)
            # the serialized value is (re)bound in this arm from an astype /
            # np.array(.., dtype=<declared dtype>) conversion
            convs = [x for st in node.body for x in ast.walk(st) if isinstance(
                x, ast.Call) and ((isinstance(x.func, ast.Attribute) and
                                   x.func.attr == "astype") or any(
                                       k.arg == "dtype" for k in x.keywords))]
            for x in convs:
                dt = ctx.arg(x, 0, "dtype") if isinstance(
                    x.func, ast.Attribute) and x.func.attr == "astype" else \
                    ctx.arg(x, None, "dtype")
                dtt = ast.unparse(dt) if dt is not None else ""
                if dtt.endswith("attribute.dtype") or dtt in (f"np.{d}",
                                                              f"numpy.{d}",
                                                              repr(d)):
                    p = parent(x)
                    tgt = None
                    if isinstance(p, ast.Assign):
                        tgt = dotted(p.targets[0])
                    if (tgt is not None and dotted(arg) == tgt) or any(
                            y is x for y in ast.walk(arg or ast.Constant(0))):
                        ok = True
        rep.ob(rule, ok, loc=to.loc(node), where=to.qualname,
               construct=f"{d}: serialize_tensor({shown})",
               message="the tensor serialized for a declared dtype is "
               "converted to that dtype first (parse_tensor with the declared "
               "dtype rejects any other stored dtype)", sample=False)
    # str is encoded utf-8
    enc = [c for c in to.calls() if isinstance(c.func, ast.Attribute) and
           c.func.attr == "encode"]
    rep.ob(rule, len(enc) == 1 and const_str(enc[0].args[0] if enc[0].args
                                             else None) == "utf-8" if enc
           else False, loc=to.loc(), where=to.qualname,
           construct=short(enc[0]) if enc else "<none>",
           message="strings are stored as UTF-8 bytes")


# ---------------------------------------------------------------------------
def check_copy(ctx: Context, rep, rule: str) -> None:
    rep.rule(
        rule,
        "buffering writers keep copies: no element of the caller's `values` "
        "reaches the npz writer's buffer without passing np.copy / "
        "np.array(copy) (a caller that reuses one array would otherwise "
        "store N aliases of its last content); the fb writer copies before "
        "flattening and serialises at once")
    npw = ctx.fn("sedpack.io.shard.shard_writer_np:ShardWriterNP._write")
    copies = frozenset({"numpy.copy", "numpy.array", "numpy.ascontiguousarray",
                        "numpy.frombuffer"})
    sinks = escape_sinks(ctx, npw, npw.params()[1], 0, set(), copies)
    stores = [c for c in npw.calls() if isinstance(c.func, ast.Attribute) and
              c.func.attr in ("append", "extend")] + [
                  n for n in npw.body_nodes() if isinstance(n, ast.Assign) and
                  any("_buffer" in ast.unparse(t) for t in n.targets)]
    if not stores:
        raise AnalysisError("C01.copy: buffer stores of the npz writer not "
                            "found")
    bad = [s for s in sinks]
    rep.ob(rule, not bad, loc=npw.loc(bad[0][1]) if bad else npw.loc(),
           where=npw.qualname,
           construct=short(bad[0][1]) if bad else
           f"{len(stores)} buffer store(s), all of copies",
           message="the buffer must hold copies" + (
               f"; stores {bad[0][2]}" if bad else ""))
    for c in npw.calls():
        if ctx.is_call(npw, c, "numpy.array", "numpy.asarray") and any(
                k.arg == "copy" and isinstance(k.value, ast.Constant) and
                k.value.value is False for k in c.keywords):
            rep.ob(rule, False, loc=npw.loc(c), where=npw.qualname,
                   construct=short(c), message="copy=False keeps an alias")
    fb = ctx.fn(f"{FBW}:ShardWriterFlatBuffer.save_numpy_vector_as_bytearray")
    first = [c for c in fb.calls() if ctx.is_call(fb, c, "numpy.copy",
                                                  "numpy.array")]
    rep.ob(rule, bool(first) and "value" in names_in(first[0]), loc=fb.loc(),
           where=fb.qualname, construct=short(first[0]) if first else "<none>",
           message="the fb writer works on a copy of the caller's value")


def check_npz_bytes(ctx: Context, rep, rule: str) -> None:
    rep.rule(
        rule,
        "a writer that stores values through np.copy/np.array/np.asarray "
        "without consulting the attribute's declared dtype cannot preserve "
        "`bytes` values: NumPy coerces bytes to the S dtype, which strips "
        "trailing NUL bytes")
    npw = ctx.fn("sedpack.io.shard.shard_writer_np:ShardWriterNP._write")
    convs = [c for c in npw.calls() if ctx.is_call(
        npw, c, "numpy.copy", "numpy.array", "numpy.asarray") and
             not any(k.arg == "dtype" for k in c.keywords)]
    dtype_aware = any(isinstance(n, ast.Attribute) and n.attr in (
        "dtype", "has_variable_size") for n in npw.body_nodes())
    if convs:
        rep.ob(rule, dtype_aware, loc=npw.loc(convs[0]), where=npw.qualname,
               construct="untyped NumPy coercion of attribute values",
               message="bytes attributes stored through " +
               ", ".join(sorted({short(c) for c in convs})) +
               " lose trailing NUL bytes (b'ab\\0\\0' reads back as b'ab')")


def check_npz_save(ctx: Context, rep, rule: str) -> None:
    rep.rule(
        rule,
        "the npz writer saves exactly its per-attribute buffers "
        "(np.savez[_compressed](file, **self._buffer)) and never chooses a "
        "dtype itself (no dtype= argument, astype, np.empty/zeros/full in the "
        "class): NumPy's promotion over ALL buffered values decides the "
        "stored dtype, so no value is cast to the dtype of another example")
    ci = ctx.repo.cls("sedpack.io.shard.shard_writer_np:ShardWriterNP")
    close = ci.methods.get("close")
    if close is None:
        raise AnalysisError("ShardWriterNP.close missing")
    saves = [c for c in close.calls() if ctx.names(close, c) & {
        "numpy.savez", "numpy.savez_compressed", "numpy.save"}]
    rep.ob(rule, bool(saves) and all(
        any(k.arg is None and dotted(k.value) == "self._buffer"
            for k in c.keywords) for c in saves),
           loc=close.loc(saves[0]) if saves else close.loc(),
           where=close.qualname,
           construct="; ".join(short(c, 60) for c in saves) or "<no save>",
           message="the buffers themselves are handed to NumPy's save")
    for m in ci.methods.values():
        for c in m.calls():
            f = c.func
            nm = f.attr if isinstance(f, ast.Attribute) else (
                f.id if isinstance(f, ast.Name) else "")
            typed = any(k.arg == "dtype" for k in c.keywords) or nm in (
                "astype", "empty", "zeros", "ones", "full", "empty_like",
                "zeros_like", "view")
            if typed:
                rep.ob(rule, False, loc=m.loc(c), where=m.qualname,
                       construct=short(c, 80),
                       message="the npz writer picks a dtype for stored "
                       "values; later examples may be cast unsafely into it")


def check_npz_reader(ctx: Context, rep, rule: str) -> None:
    rep.rule(
        rule,
        "the npz reader yields element i of every stored array under its "
        "own name, for i over the full length (sync and async agree)")
    for q in ("IterateShardNP.iterate_shard", "IterateShardNP.iterate_shard_async"):
        fn = ctx.fn(f"sedpack.io.npz.iterate_npz:{q}")
        ys = [n for n in fn.body_nodes() if isinstance(n, ast.Yield)]
        ok = False
        yv = norm.expand(fn, ys[0].value) if len(ys) == 1 else None
        if isinstance(yv, ast.DictComp):
            dc = yv
            from sa.model import ancestors
            loop = next((a for a in ancestors(ys[0]) if isinstance(
                a, (ast.For, ast.AsyncFor, ast.While))), None)
            ok = isinstance(loop, ast.For) and isinstance(
                loop.iter, ast.Call) and ast.unparse(loop.iter.func) == "range" \
                and len(loop.iter.args) == 1 and isinstance(
                    dc.value, ast.Subscript) and dotted(dc.value.slice) == \
                loop.target.id and dotted(dc.key) == dc.generators[0].target.elts[0].id \
                and dotted(dc.value.value) == dc.generators[0].target.elts[1].id \
                and ast.unparse(dc.generators[0].iter).endswith(".items()") and \
                not dc.generators[0].ifs
        rep.ob(rule, ok, loc=fn.loc(), where=fn.qualname,
               construct=short(yv, 80) if yv is not None else "<none>",
               message="example i = {name: array[i]} for i in range(length)")
    # ... in the dtype NumPy stored: the reader never converts (the writer
    # saved the values it was given, a cast to the declared dtype on the way
    # back changes those the declared dtype cannot represent)
    ci = ctx.repo.cls("sedpack.io.npz.iterate_npz:IterateShardNP")
    n_calls = 0
    for m in ci.methods.values():
        for c in m.calls():
            n_calls += 1
            f = c.func
            nm = f.attr if isinstance(f, ast.Attribute) else (
                f.id if isinstance(f, ast.Name) else "")
            typed = any(k.arg in ("dtype", "casting") for k in c.keywords) or \
                nm in ("astype", "view", "frombuffer", "fromiter", "round",
                       "around", "rint", "clip", "nan_to_num") or (
                           nm in ("array", "asarray", "asanyarray") and
                           len(c.args) > 1)
            if typed:
                rep.ob(rule, False, loc=m.loc(c), where=m.qualname,
                       construct=short(c, 80),
                       message="the npz reader converts the stored values")
    rep.ob(rule, n_calls >= 4, loc=ci.methods["iterate_shard"].loc(),
           where=ci.name, construct=f"{n_calls} call(s) in the reader class; "
           "none converts values",
           message="the stored arrays are handed out as loaded")


def run(ctx: Context, rep) -> None:
    rep.not_decided = (
        "bit-identity of actual values, correctness of the codecs, of "
        "TensorFlow/NumPy beyond the frozen tables, of the tf.data reader, "
        "shapes at run time; only the agreement of the representations the "
        "writer and the readers use is decided")
    rep.assumptions += [
        "tf.train.FloatList stores float32, Int64List int64; "
        "tf.io.FixedLenFeature/parse_single_example support float32, int64, "
        "string only",
        "np.can_cast(.., casting='safe') admits only value-preserving casts",
        "ndarray.byteswap flips the byte order of every item; "
        "dtype.byteorder is one of = < > |",
    ]
    py_family = check_codec(ctx, rep, "C01.codec")
    rustrules.check_rust_codec(ctx, rep, "C01.rust-codec", py_family)
    check_cast(ctx, rep, "C01.cast")
    check_order(ctx, rep, "C01.order")
    check_tfrec(ctx, rep, "C01.tfrec")
    check_copy(ctx, rep, "C01.copy")
    check_npz_save(ctx, rep, "C01.npz-save")
    check_npz_reader(ctx, rep, "C01.npz-reader")
    check_npz_bytes(ctx, rep, "C01.npz-bytes")
    # the native reader's decoder hands out a dictionary of its own per
    # example (same structural check as C15.decode): a value stored for one
    # example is not overwritten by the next
    from sa.rules import shared as _sh01d
    _sh01d.share_rules(ctx, rep, "c15", {"C15.decode": "C01.rust-decode"})
    # what an accepted example stores depends on that example only: a writer
    # keeps no per-example state on `self` that a previous (rejected) write
    # could have left behind (same analysis as C18.state)
    from sa.rules.c18 import check_writer_state
    rep.rule(
        "C01.state",
        "every shard writer's _write mutates only its example store, lazily "
        "created resources and the FlatBuffers builder: no scratch state on "
        "self carries values from one example into the next")
    check_writer_state(ctx, rep, "C01.state")
    from sa.rules.c02 import check_reader_stateless
    rep.rule("C01.reader-state", "no method of a shard reader class besides "
             "__init__ stores into self: what is decoded for one shard cannot "
             "be overwritten by reading another")
    check_reader_stateless(ctx, rep, "C01.reader-state")
    # the tf.data interface of fb / npz datasets declares each attribute
    # with the dataset's own dtype and shape: from_generator casts to the
    # declared signature without a range check (uint64 declared as int64
    # wraps 2**63.. to negative numbers)
    rep.rule(
        "C01.tf-signature",
        "every tf.TensorSpec built in the iteration module has "
        "dtype=<attribute>.dtype and shape=<attribute>.shape of the same "
        "attribute declaration (locals and expression helpers expanded)")
    from sa import norm as _n1
    n_ts = 0
    itmod = ctx.repo.module("sedpack.io.dataset_iteration")
    for f_ in itmod.functions.values():
        if isinstance(f_.node, ast.Lambda):
            continue
        for c_ in f_.calls():
            if not (dotted(c_.func) or "").endswith("TensorSpec"):
                continue
            n_ts += 1
            dt = Context.arg(c_, 1, "dtype")
            sh = Context.arg(c_, 0, "shape")
            dt_s = _n1.canon(f_, dt) if dt is not None else ""
            sh_s = _n1.canon(f_, sh) if sh is not None else ""
            ok_ts = dt_s.endswith(".dtype") and sh_s.endswith(".shape") and \
                dt_s[:-len(".dtype")] == sh_s[:-len(".shape")]
            rep.ob("C01.tf-signature", ok_ts, loc=f_.loc(c_),
                   where=f_.qualname, construct=short(c_, 80),
                   message="the declared tensor type must be the attribute's "
                   "own dtype and shape")
    rep.floor("C01.tf-signature", n_ts, 1, "TensorSpec constructions")
    # nothing read from the dataset's files / the environment is memoised
    from sa.rules import shared as _shm
    _shm.check_no_memo(ctx, rep, "C01.memo")
    _shm.check_no_shared_class_state(ctx, rep, "C01.class-state")

_FBW = "src/sedpack/io/shard/shard_writer_flatbuffer.py"
_FBR = "src/sedpack/io/flatbuffer/iterate.py"
_CMP = "src/sedpack/io/compress.py"
_TFD = "src/sedpack/io/tfrec/tfdata.py"
_NPW = "src/sedpack/io/shard/shard_writer_np.py"
SELFTESTS = [
    dict(rule="C01.tfrec", name="float16-widened-into-floatlist", expect="fire",
         edits=[dict(path=_TFD, old='    "float16": tf.float16,\n    "float64": tf.float64,\n',
                     new='    "float64": tf.float64,\n'),
                dict(path=_TFD, old='        elif attribute.dtype == "float32":\n',
                     new='        elif attribute.dtype in ("float32", "float16"):\n'),
                dict(path=_TFD, old='            "float16": tf.string,\n',
                     new='            "float16": tf.float32,\n')]),
    dict(rule="C01.cast", name="same-kind", expect="fire", path=_FBW,
         old='casting="safe"', new='casting="same_kind"'),
    dict(rule="C01.cast", name="equiv-twin", expect="silent", path=_FBW,
         old='casting="safe"', new='casting="equiv"'),
    dict(rule="C01.cast", name="gate-other-dtype", expect="fire", path=_FBW,
         old="np.can_cast(value_np, to=attribute.dtype, casting=\"safe\")",
         new="np.can_cast(value_np, to=np.float64, casting=\"safe\")"),
    dict(rule="C01.cast", name="gate-only-warns", expect="fire", path=_FBW,
         old="            raise ValueError(f\"Cannot cast value of dtype {value_np.dtype} \"\n                             f\"passed as {attribute = }\")\n",
         new="            print(f\"Cannot cast value of dtype {value_np.dtype}\")\n"),
    dict(rule="C01.order", name="ravel-memory-order", expect="fire", path=_FBW,
         old="value_np = np.copy(value).flatten()", new="value_np = np.copy(value).ravel(order=\"K\")"),
    dict(rule="C01.order", name="ravel-c-twin", expect="silent", path=_FBW,
         old="value_np = np.copy(value).flatten()", new="value_np = np.copy(value).ravel()"),
    dict(rule="C01.order", name="fortran-dump", expect="fire", path=_FBW,
         old='tobytes(order="C")', new='tobytes(order="F")'),
    dict(rule="C01.order", name="drop-big-endian-swap", expect="fire", path=_FBW,
         old='            case ">":\n                # Big endian we need to byteswap.\n                value_np = value_np.byteswap(inplace=False)\n',
         new='            case ">":\n                pass\n'),
    dict(rule="C01.order", name="reader-big-endian", expect="fire", path=_FBR,
         old='dt = dt.newbyteorder("<")', new='dt = dt.newbyteorder(">")'),
    dict(rule="C01.order", name="reshape-explicit-c-twin", expect="silent", path=_FBR,
         old="            np_array = np_array.reshape(attribute.shape)\n",
         new="            np_array = np_array.reshape(attribute.shape, order=\"C\")\n"),
    dict(rule="C01.order", name="reshape-fortran", expect="fire", path=_FBR,
         old="            np_array = np_array.reshape(attribute.shape)\n",
         new="            np_array = np_array.reshape(attribute.shape, order=\"F\")\n"),
    dict(rule="C01.codec", name="bz2-read-as-lzma", expect="fire", path=_CMP,
         old='            case "BZ2":\n                return bz2.decompress(data)',
         new='            case "BZ2":\n                return lzma.decompress(data)'),
    dict(rule="C01.codec", name="arm-dropped", expect="fire", path=_CMP,
         old='            case "LZ4":\n                return lz4.frame.decompress(data)\n', new=''),
    dict(rule="C01.codec", name="arms-reordered-twin", expect="silent", path=_CMP,
         old='            case "BZ2":\n                return bz2.decompress(data)\n            case "LZMA":\n                return lzma.decompress(data)\n',
         new='            case "LZMA":\n                return lzma.decompress(data)\n            case "BZ2":\n                return bz2.decompress(data)\n'),
    dict(rule="C01.rust-codec", name="python-zlib-real-zlib", expect="fire", path=_CMP,
         edits=[dict(path=_CMP, old='            case "GZIP" | "ZLIB":\n                return gzip.compress(data, compresslevel=9)',
                     new='            case "GZIP":\n                return gzip.compress(data, compresslevel=9)\n            case "ZLIB":\n                return zlib.compress(data)'),
                dict(path=_CMP, old='            case "GZIP" | "ZLIB":\n                return gzip.decompress(data)',
                     new='            case "GZIP":\n                return gzip.decompress(data)\n            case "ZLIB":\n                return zlib.decompress(data)'),
                dict(path=_CMP, old="import lzma\n", new="import lzma\nimport zlib\n")]),
    dict(rule="C01.tfrec", name="float64-as-floatlist", expect="fire", path=_TFD,
         edits=[dict(path=_TFD, old='        elif attribute.dtype == "float32":\n',
                     new='        elif attribute.dtype in ["float32", "float64"]:\n'),
                dict(path=_TFD, old='    "float16": tf.float16,\n    "float64": tf.float64,\n}',
                     new='    "float16": tf.float16,\n}')]),
    dict(rule="C01.tfrec", name="serialized-without-astype", expect="fire", path=_TFD,
         old="            value = value.astype(dtype=attribute.dtype)\n", new=""),
    dict(rule="C01.tfrec", name="uint64-as-int64", expect="fire", path=_TFD,
         old='if attribute.dtype in ["int8", "uint8", "int32", "int64"]:',
         new='if attribute.dtype in ["int8", "uint8", "int32", "int64", "uint64"]:'),
    dict(rule="C01.tfrec", name="reader-int-as-float", expect="fire", path=_TFD,
         old='            "int32": tf.int64,\n', new='            "int32": tf.float32,\n'),
    dict(rule="C01.tfrec", name="reader-reordered-twin", expect="silent", path=_TFD,
         old='            "uint8": tf.int64,\n            "int8": tf.int64,\n',
         new='            "int8": tf.int64,\n            "uint8": tf.int64,\n'),
    dict(rule="C01.copy", name="npz-no-copy", expect="fire", path=_NPW,
         old="        copies = {name: np.copy(value) for name, value in values.items()}\n",
         new="        copies = dict(values)\n"),
    dict(rule="C01.copy", name="npz-array-copy-twin", expect="silent", path=_NPW,
         old="        copies = {name: np.copy(value) for name, value in values.items()}\n",
         new="        copies = {name: np.array(value, copy=True) for name, value in values.items()}\n"),
    dict(rule="C01.npz-save", name="npz-preallocate-first-dtype", expect="fire", path=_NPW,
         old="                np.savez(str(self._shard_file), **self._buffer)  # type: ignore\n",
         new="                np.savez(str(self._shard_file), **{k: np.array(v, dtype=np.asarray(v[0]).dtype) for k, v in self._buffer.items()})  # type: ignore\n"),
    dict(rule="C01.npz-reader", name="npz-skip-first", expect="fire",
         path="src/sedpack/io/npz/iterate_npz.py",
         old="        for i in range(elements):\n            yield {name: value[i] for name, value in shard_content.items()}\n\n    async def",
         new="        for i in range(1, elements):\n            yield {name: value[i] for name, value in shard_content.items()}\n\n    async def"),
]
