"""C04 - shard-list metadata always accounts exactly for what is stored."""
from __future__ import annotations

import ast
from collections import Counter

from sa.context import Context, names_in
from sa.model import AnalysisError, FunctionInfo, dotted, parent, short
from sa.rules.c18 import check_counters
from sa.rules.common import passed_expr as C_passed

SL = "sedpack.io.shard_file_metadata"
TOP = "TOP"
N = "number_of_examples"
COLLS = ("shard_files", "children_shard_lists")


class Delta:
    """E7/A2 - symbolic accounting delta for one tracked ShardsList
    expression: delta = O.n - sum(O.shard_files) - sum(O.children)."""

    def __init__(self, ctx: Context, fn: FunctionInfo, obj: str):
        self.ctx = ctx
        self.fn = fn
        self.obj = obj
        self.version = 0
        self.problems: list[tuple[ast.AST, str]] = []
        # local names bound to a collection of the tracked object (as it was
        # at that version): previous = obj.children_shard_lists
        self.alias: dict[str, str] = {}

    def is_obj(self, e: ast.AST) -> bool:
        return ast.unparse(e) == self.obj

    def coll_term(self, e: ast.AST) -> str:
        if isinstance(e, ast.Name) and e.id in self.alias:
            return self.alias[e.id]
        t = ast.unparse(e)
        if t.startswith(self.obj + "."):
            return f"sum({t}@{self.version})"
        return f"sum({t})"

    def block(self, stmts, loop_var: str | None = None):
        total: Counter = Counter()
        for s in stmts:
            eff = self.stmt(s, loop_var)
            if eff == TOP:
                return TOP
            total.update(eff)
        return Counter({k: v for k, v in total.items() if v})

    def stmt(self, s: ast.stmt, loop_var: str | None):
        if isinstance(s, ast.AugAssign) and isinstance(
                s.target, ast.Attribute) and s.target.attr == N and \
                self.is_obj(s.target.value):
            v = s.value
            if isinstance(s.op, (ast.Add, ast.Sub)) and isinstance(
                    v, ast.Attribute) and v.attr == N and isinstance(
                        v.value, ast.Name):
                sign = 1 if isinstance(s.op, ast.Add) else -1
                return Counter({f"n({v.value.id})": sign})
            # obj.n -= sum(x.n for x in COLL)
            if isinstance(s.op, (ast.Add, ast.Sub)) and isinstance(
                    v, ast.Call) and isinstance(v.func, ast.Name) and \
                    v.func.id == "sum" and len(v.args) == 1 and isinstance(
                        v.args[0], (ast.GeneratorExp, ast.ListComp)) and \
                    len(v.args[0].generators) == 1:
                g = v.args[0].generators[0]
                elt = v.args[0].elt
                if not g.ifs and isinstance(elt, ast.Attribute) and \
                        elt.attr == N and dotted(elt.value) == dotted(g.target) \
                        and isinstance(g.target, ast.Name):
                    sign = 1 if isinstance(s.op, ast.Add) else -1
                    return Counter({self.coll_term(g.iter): sign})
            self.problems.append((s, "unanalysed accounting write"))
            return TOP
        if isinstance(s, (ast.Assign, ast.AnnAssign)):
            tgts = s.targets if isinstance(s, ast.Assign) else [s.target]
            for t in tgts:
                if isinstance(t, ast.Attribute) and self.is_obj(t.value):
                    if t.attr == N:
                        self.problems.append(
                            (s, "total is assigned instead of adjusted"))
                        return TOP
                    if t.attr in COLLS:
                        if isinstance(s.value, ast.List) and not s.value.elts:
                            term = self.coll_term(t)
                            self.version += 1
                            return Counter({term: 1})
                        self.problems.append((s, "collection rebound"))
                        return TOP
            for t in tgts:
                if isinstance(t, ast.Name):
                    self.alias.pop(t.id, None)
                    v = s.value
                    if isinstance(v, ast.Attribute) and v.attr in COLLS and \
                            self.is_obj(v.value):
                        self.alias[t.id] = self.coll_term(v)
            # any call in the value that mutates the tracked object?
            return self.expr_effect(s.value, loop_var) if s.value is not None \
                else Counter()
        if isinstance(s, ast.Expr):
            return self.expr_effect(s.value, loop_var)
        if isinstance(s, ast.For):
            if not isinstance(s.target, ast.Name):
                inner = self.block(s.body, None)
                if inner == TOP or inner:
                    self.problems.append((s, "loop target not a simple name"))
                    return TOP
                return Counter()
            var = s.target.id
            v0 = self.version
            inner = self.block(s.body, var)
            if inner == TOP:
                return TOP
            if self.version != v0:
                self.problems.append((s, "collection replaced inside a loop"))
                return TOP
            out: Counter = Counter()
            for term, k in inner.items():
                if term == f"n({var})":
                    it = s.iter
                    if isinstance(it, ast.Call) and isinstance(
                            it.func, ast.Attribute) and it.func.attr == "values" \
                            and not it.args:
                        out[f"sum({ast.unparse(it)})"] += k
                    else:
                        out[self.coll_term(it)] += k
                else:
                    self.problems.append(
                        (s, f"loop body changes the total by a term that is "
                         f"not the loop element: {term}"))
                    return TOP
            if s.orelse:
                e = self.block(s.orelse, loop_var)
                if e == TOP:
                    return TOP
                out.update(e)
            return out
        if isinstance(s, ast.If):
            a = self.block(s.body, loop_var)
            b = self.block(s.orelse, loop_var)
            if a == TOP or b == TOP:
                return TOP
            if a != b:
                self.problems.append(
                    (s, f"branches change the accounting differently: "
                     f"{dict(a)} vs {dict(b)}"))
                return TOP
            return a
        if isinstance(s, (ast.Continue, ast.Break)) and loop_var is not None:
            self.problems.append((s, "early loop exit in accounting code"))
            return TOP
        if isinstance(s, (ast.Return, ast.Raise, ast.Assert, ast.Pass,
                          ast.Continue, ast.Break)):
            if isinstance(s, ast.Return) and s.value is not None:
                return self.expr_effect(s.value, loop_var)
            return Counter()
        if isinstance(s, (ast.With, ast.Try)):
            body = list(s.body)
            return self.block(body, loop_var)
        return Counter()

    def expr_effect(self, e: ast.AST, loop_var):
        out: Counter = Counter()
        for c in ast.walk(e):
            if isinstance(c, ast.Call) and isinstance(c.func, ast.Attribute):
                recv = c.func.value
                if isinstance(recv, ast.Name) and recv.id in self.alias and \
                        c.func.attr in ("append", "extend", "insert", "pop",
                                        "remove", "clear", "sort", "reverse"):
                    self.problems.append(
                        (c, f"mutation of the tracked collection through its "
                         f"alias `{recv.id}`"))
                    return TOP
                if isinstance(recv, ast.Attribute) and recv.attr in COLLS and \
                        self.is_obj(recv.value):
                    if c.func.attr == "append" and len(c.args) == 1 and \
                            isinstance(c.args[0], ast.Name):
                        out[f"n({c.args[0].id})"] -= 1
                    else:
                        self.problems.append(
                            (c, f"unanalysed mutation .{c.func.attr}() of the "
                             "tracked collection"))
                        return TOP
        return out



def additive_terms(fn: FunctionInfo, e: ast.AST | None, _depth: int = 0):
    """The value of `e` as a sum of terms, whatever way it is accumulated:
    `a + sum(f(x) for x in C)`, or `v = a` followed by `for x in C: v += f(x)`.
    Terms: ("len", coll) | ("sum", coll, elt with `_`) | ("expr", text);
    None when not understood."""
    def expr_terms(x: ast.AST):
        if isinstance(x, ast.BinOp) and isinstance(x.op, ast.Add):
            a, b = expr_terms(x.left), expr_terms(x.right)
            return None if a is None or b is None else a + b
        if isinstance(x, ast.Call) and isinstance(x.func, ast.Name) and \
                x.func.id == "len" and len(x.args) == 1:
            return [("len", ast.unparse(x.args[0]))]
        if isinstance(x, ast.Call) and isinstance(x.func, ast.Name) and \
                x.func.id == "sum" and len(x.args) == 1 and isinstance(
                    x.args[0], (ast.GeneratorExp, ast.ListComp)) and \
                len(x.args[0].generators) == 1 and \
                not x.args[0].generators[0].ifs and isinstance(
                    x.args[0].generators[0].target, ast.Name):
            g = x.args[0].generators[0]
            elt = ast.unparse(x.args[0].elt).replace(g.target.id + ".", "_.")
            return [("sum", ast.unparse(g.iter), elt)]
        if isinstance(x, ast.Constant) and x.value == 0:
            return []
        # a local that is itself accumulated (sub-totals named first)
        if isinstance(x, ast.Name) and x.id not in fn.params() and \
                _depth < 3 and x.id != getattr(e, "id", None):
            sub = additive_terms(fn, x, _depth + 1)
            if sub is not None:
                return sub
        return [("expr", ast.unparse(x))]

    if e is None:
        return None
    if not isinstance(e, ast.Name):
        return expr_terms(e)
    name = e.id
    inits = [n for n in fn.body_nodes() if isinstance(n, (ast.Assign,
                                                          ast.AnnAssign))
             and dotted(n.targets[0] if isinstance(n, ast.Assign)
                        else n.target) == name and n.value is not None]
    if len(inits) != 1 or isinstance(parent(inits[0]), (ast.For, ast.While,
                                                        ast.If)):
        return None
    out = expr_terms(inits[0].value)
    if out is None:
        return None
    for n in fn.body_nodes():
        if isinstance(n, ast.AugAssign) and dotted(n.target) == name:
            lp = parent(n)
            if not (isinstance(n.op, ast.Add) and isinstance(lp, ast.For) and
                    len(lp.body) == 1 and not lp.orelse and isinstance(
                        lp.target, ast.Name) and
                    not isinstance(parent(lp), (ast.For, ast.While, ast.If))):
                return None
            elt = ast.unparse(n.value).replace(lp.target.id + ".", "_.")
            out.append(("sum", ast.unparse(lp.iter), elt))
    return out


def list_writers(ctx: Context):
    """Functions that write number_of_examples / shard_files / children of
    a ShardsList-typed expression, with the tracked object expression."""
    out: dict[str, set[str]] = {}
    for fn in ctx.repo.all_functions():
        for n in fn.body_nodes():
            tgt = None
            if isinstance(n, (ast.AugAssign, ast.AnnAssign)):
                tgt = n.target
            elif isinstance(n, ast.Assign):
                tgt = n.targets[0]
            elif isinstance(n, ast.Call) and isinstance(
                    n.func, ast.Attribute) and n.func.attr in (
                        "append", "extend", "insert", "pop", "remove", "clear",
                        "sort", "reverse") and isinstance(
                            n.func.value, ast.Attribute) and \
                    n.func.value.attr in COLLS:
                tgt = n.func.value
            if isinstance(tgt, ast.Attribute) and tgt.attr in (N, ) + COLLS:
                t = ctx.res.infer(fn, tgt.value)
                if t is not None and t.name.endswith("ShardsList"):
                    out.setdefault(fn.fq, set()).add(ast.unparse(tgt.value))
    return out


def check_delta(ctx: Context, rep, rule: str) -> None:
    rep.rule(
        rule,
        "for every function that writes number_of_examples, shard_files or "
        "children_shard_lists of a ShardsList (who-may-write, typed through "
        "annotations): starting from delta = n - sum(shards) - "
        "sum(children) = 0 the symbolic delta interpreter obtains delta = 0 "
        "at the end (loops contribute k*sum(collection@version), clearing a "
        "collection contributes its sum, both branches of an `if` must agree)")
    writers = list_writers(ctx)
    expected = {
        "sedpack.io.dataset_filler:_DatasetFillerContext.close_shard",
        "sedpack.io.merge_shard_infos:merge_shard_infos",
    }
    for fq in expected:
        if fq not in writers:
            raise AnalysisError(f"C04.delta: {fq} no longer writes the list "
                                "accounting fields (anchor changed)")
    for fq, objs in sorted(writers.items()):
        fn = ctx.fn(fq)
        for obj in sorted(objs):
            d = Delta(ctx, fn, obj)
            eff = d.block(fn.node.body)
            if eff == TOP:
                node, why = d.problems[0] if d.problems else (fn.node, "?")
                rep.ob(rule, False, loc=fn.loc(node), where=fn.qualname,
                       construct=short(node, 80),
                       message=f"accounting of `{obj}` cannot be shown "
                       f"balanced: {why}")
            else:
                rep.ob(rule, not eff, loc=fn.loc(), where=fn.qualname,
                       construct=f"delta({obj}) = " + (" ".join(
                           f"{'+' if v > 0 else '-'}{abs(v)}*{k}"
                           for k, v in sorted(eff.items())) or "0"),
                       message="list total must change by exactly what is "
                       "added to / removed from its shards and children")
    rep.info(rule, "writers of the accounting fields: " +
             ", ".join(f"{k.split(':')[1]}({', '.join(sorted(v))})"
                       for k, v in sorted(writers.items())))



def run(ctx: Context, rep) -> None:
    rep.not_decided = (
        "the recursive merge over concrete histories (only its per-call "
        "accounting invariant and de-duplication are decided); equality of "
        "the recorded counts with what a decoder finds in the files; "
        "existence of listed files at run time")
    rep.assumptions += [
        "loaded shard lists satisfy n = sum(shards) + sum(children) "
        "(induction over sessions; fresh lists trivially)",
        "annotations identify ShardsList-typed expressions",
    ]
    check_delta(ctx, rep, "C04.delta")

    check_counters(ctx, rep, "C04.after")
    rep.rule("C04.after",
             "per-shard and per-progress counters advance by one only after "
             "the write they count returned normally (same rule as C18.count)")

    # -- number_of_shards ---------------------------------------------------------
    rep.rule(
        "C04.count",
        "ShardsList.write_config reports number_of_shards = len(own "
        "shard_files) + sum of every child's number_of_shards and "
        "number_of_examples = the list's own total; the returned record "
        "carries the FileInfo of the file just written")
    wc = ctx.fn(f"{SL}:ShardsList.write_config")
    ctor = [c for c in wc.calls() if ctx.is_call(wc, c, f"{SL}.ShardListInfo")]
    if len(ctor) != 1:
        raise AnalysisError("C04.count: ShardListInfo construction not found")
    kw = {k.arg: k.value for k in ctor[0].keywords}
    defs = {}
    for n in wc.body_nodes():
        if isinstance(n, (ast.Assign, ast.AnnAssign)):
            tgts = n.targets if isinstance(n, ast.Assign) else [n.target]
            for t in tgts:
                if isinstance(t, ast.Name) and n.value is not None:
                    defs[t.id] = n.value

    def resolve(e):
        return defs.get(e.id, e) if isinstance(e, ast.Name) else e

    ns = kw.get("number_of_shards")
    terms = additive_terms(wc, ns)
    ok_ns = terms is not None and sorted(terms) == sorted([
        ("len", "self.shard_files"),
        ("sum", "self.children_shard_lists", "_.number_of_shards")])
    rep.ob("C04.count", ok_ns, loc=wc.loc(ctor[0]), where=wc.qualname,
           construct=f"number_of_shards = {terms}",
           message="own shards plus every child's recorded shard count")
    rep.ob("C04.count", ast.unparse(resolve(kw.get(N)) or ast.Constant(0)) ==
           f"self.{N}", loc=wc.loc(ctor[0]), where=wc.qualname,
           construct=f"{N} = {short(kw.get(N))}",
           message="the parent records the list's own total")
    fi = kw.get("shard_list_info_file")
    fdef = resolve(fi)
    rep.ob("C04.count", isinstance(fdef, ast.Call) and ctx.is_call(
        wc, fdef, "utils.safe_update_file") and ast.unparse(
            ctx.arg(fdef, 1, "relative_path") or ast.Constant(0)) ==
           "self.relative_path_self", loc=wc.loc(ctor[0]), where=wc.qualname,
           construct=f"shard_list_info_file = {short(fdef, 60)}",
           message="the record names and hashes the file that was just "
           "written for this list")
    dump = [c for c in wc.calls() if isinstance(c.func, ast.Attribute) and
            c.func.attr == "model_dump_json"]
    rep.ob("C04.count", len(dump) == 1 and dotted(dump[0].func.value) == "self",
           loc=wc.loc(), where=wc.qualname,
           construct=short(dump[0]) if dump else "<none>",
           message="the file holds this list (self), serialised whole")

    # -- close_shard adds the count of the shard it lists -----------------------------
    rep.rule(
        "C04.close",
        "close_shard lists the record returned by Shard.close and adds "
        "exactly that record's number_of_examples to the list it appended "
        "to (same list expression, same record)")
    cs = ctx.fn("sedpack.io.dataset_filler:_DatasetFillerContext.close_shard")
    apps = [c for c in cs.calls() if isinstance(c.func, ast.Attribute) and
            c.func.attr == "append" and "shard_files" in ast.unparse(c.func.value)]
    adds = [n for n in cs.body_nodes() if isinstance(n, ast.AugAssign) and
            isinstance(n.target, ast.Attribute) and n.target.attr == N]
    ok = len(apps) == 1 and len(adds) == 1 and ast.unparse(
        apps[0].func.value.value) == ast.unparse(adds[0].target.value) and \
        isinstance(adds[0].op, ast.Add) and isinstance(
            adds[0].value, ast.Attribute) and adds[0].value.attr == N and \
        dotted(adds[0].value.value) == dotted(apps[0].args[0])
    rep.ob("C04.close", ok, loc=cs.loc(), where=cs.qualname,
           construct=(short(apps[0]) + " ; " + short(adds[0])) if apps and adds
           else "<missing>",
           message="one append and one += of the same record on the same "
           "list")

    check_dump(ctx, rep, "C04.dump")
    check_fresh_records(ctx, rep, "C04.fresh")
    # the merge keeps every list exactly once (no directory merged twice,
    # none dropped): same rule as C08.dedup
    from sa.rules.c08 import check_dedup
    check_dedup(ctx, rep, "C04.merge")
    # a shard file exists only once a shard with examples is written: writer
    # constructors create no file (an eagerly opened, never written shard
    # would be left unlisted on disk)
    rep.rule(
        "C04.lazy-file",
        "no shard writer constructor (nor Shard.__init__) has a file-creating "
        "effect; files appear in _write / close only")
    base = ctx.repo.cls("sedpack.io.shard.shard_writer_base:ShardWriterBase")
    n_ctor = 0
    for ci in [base] + list(ctx.repo.subclasses(base)) + [
            ctx.repo.cls("sedpack.io.shard.shard:Shard")]:
        init = ci.methods.get("__init__")
        if init is None:
            continue
        n_ctor += 1
        eff = [c for c in init.calls() if "FS_CREATE" in ctx.effects(init, c)]
        rep.ob("C04.lazy-file", not eff, loc=init.loc(eff[0]) if eff else
               init.loc(), where=init.qualname,
               construct=short(eff[0], 60) if eff else "no file effect",
               message="constructing a writer must not create its file")
    rep.floor("C04.lazy-file", n_ctor, 4, "constructors")
    # every list a session touched is written and reported to the dataset
    # (a split whose update is not reported keeps stale totals in the
    # description): same rule as C09.collect's exit part
    from sa.rules.c09 import check_exit_reports
    check_exit_reports(ctx, rep, "C04.report")
    # nothing read from the dataset's files / the environment is memoised
    from sa.rules import shared as _shm
    _shm.check_no_memo(ctx, rep, "C04.memo")
    from sa.rules import shared as _sh04b
    # every metadata update is published by the atomic rename and the recorded
    # digest is taken afterwards (same check as C06.rename)
    _sh04b.share_rules(ctx, rep, "c06", {"C06.rename": "C04.publish"})
    # what is recorded as written can be decoded: both directions of every
    # codec pair the same library calls (same check as C01.codec)
    from sa.rules import shared as _sh04b
    _sh04b.share_rules(ctx, rep, "c01", {"C01.codec": "C04.codec"})
    # shard file names never collide across sessions: derived from uuid4()
    # (same check as C06.who)
    from sa.rules import shared as _sh04
    _sh04.share_rules(ctx, rep, "c06", {"C06.who": "C04.names"})
    # lists are extended from what is on disk at the time of use (same check
    # as C08.load)
    _sh04.share_rules(ctx, rep, "c08", {"C08.load": "C04.load"})

def check_fresh_records(ctx: Context, rep, rule: str) -> None:
    """Every child record (re-)attached to a list by merge_shard_infos is
    the value returned by that child's own merge in this call."""
    rep.rule(
        rule,
        "in merge_shard_infos every record appended to "
        "children_shard_lists derives only from the return value of the "
        "recursive merge of that directory (whose write_config just rewrote "
        "and re-hashed the child list); a record read from the old parent "
        "list is never re-attached as is - a deeper update would leave its "
        "digest and totals stale")
    from sa.cfg import CFG
    from sa.dataflow import TagFlow
    mg = ctx.fn("sedpack.io.merge_shard_infos:merge_shard_infos")
    cfg = ctx.cfg(mg)

    def hook(e, state, rec):
        if isinstance(e, ast.Call) and ctx.is_call(
                mg, e, "merge_shard_infos.merge_shard_infos"):
            return frozenset({"fresh"})
        if isinstance(e, ast.Attribute) and e.attr == "children_shard_lists":
            return frozenset({"stale"})
        if isinstance(e, ast.Name) and e.id == "updates":
            return frozenset({"update"})
        return None

    tf = TagFlow(cfg, {}, hook=hook)
    apps = [n for n in cfg.calls() if isinstance(n.ast.func, ast.Attribute) and
            n.ast.func.attr in ("append", "extend", "insert") and
            ast.unparse(n.ast.func.value).endswith("children_shard_lists")]
    if not apps:
        raise AnalysisError(f"{rule}: children are never re-attached")
    for n in apps:
        tags = tf.tags_at(n, n.ast.args[-1])
        rep.ob(rule, "fresh" in tags and "stale" not in tags and
               "update" not in tags, loc=mg.loc(n.ast), where=mg.qualname,
               construct=f"{short(n.ast)} carries {sorted(tags)}",
               message="re-attached child records must be fresh merge "
               "results")
    # ... and what the children list is (re)bound to
    for n in cfg.nodes:
        if n.kind != "stmt" or not isinstance(n.ast, (ast.Assign,
                                                      ast.AnnAssign)):
            continue
        tgts = n.ast.targets if isinstance(n.ast, ast.Assign) else [n.ast.target]
        if not any(isinstance(t, ast.Attribute) and
                   t.attr == "children_shard_lists" for t in tgts):
            continue
        v = n.ast.value
        if isinstance(v, ast.List) and not v.elts:
            continue
        tags = tf.tags_at(n, v) if v is not None else frozenset()
        rep.ob(rule, "fresh" in tags and "stale" not in tags and
               "update" not in tags, loc=mg.loc(n.ast), where=mg.qualname,
               construct=f"{short(n.ast)} carries {sorted(tags)}",
               message="the children list may only be reset to [] or to "
               "fresh merge results")
    ret = [n for n in cfg.nodes if n.kind == "stmt" and isinstance(
        n.ast, ast.Return)]
    for r in ret:
        ok = isinstance(r.ast.value, ast.Call) and ctx.is_call(
            mg, r.ast.value, "ShardsList.write_config")
        rep.ob(rule, ok, loc=mg.loc(r.ast), where=mg.qualname,
               construct=short(r.ast, 70),
               message="the merge returns the record of the list it just "
               "wrote")


def check_dump(ctx: Context, rep, rule: str) -> None:
    # -- description ----------------------------------------------------------------
    rep.rule(
        rule,
        "DatasetWriting.write_config: every split named by an update is "
        "replaced by the merged info (split taken from the first path "
        "component), all updates of a split are merged together, the "
        "description is dumped whole after the split table was updated, and "
        "no other function writes the split table")
    dw = ctx.fn("sedpack.io.dataset_writing:DatasetWriting.write_config")
    cfg = ctx.cfg(dw)
    stores = [n for n in cfg.nodes if n.kind == "stmt" and isinstance(
        n.ast, ast.Assign) and any(isinstance(t, ast.Subscript) and
                                   ast.unparse(t.value).endswith(
                                       "_dataset_info.splits")
                                   for t in n.ast.targets)]
    dumps = cfg.calls(lambda c: isinstance(c.func, ast.Attribute) and
                      c.func.attr == "model_dump_json")
    if not stores or not dumps:
        raise AnalysisError("C04.dump: split store or dump not found")
    after = cfg.reachable(dumps, strict=True)
    rep.ob(rule, not any(s in after for s in stores), loc=dw.loc(),
           where=dw.qualname, construct="splits[split] = merged ... dump",
           message="the dump happens after the last update of the split "
           "table")
    d = dumps[0].ast
    rep.ob(rule, ast.unparse(d.func.value) == "self._dataset_info" and
           not any(k.arg in ("exclude", "include", "exclude_defaults",
                             "exclude_unset", "exclude_none") for k in d.keywords),
           loc=dw.loc(d), where=dw.qualname, construct=short(d),
           message="the whole description is serialised")
    sf = [c for c in dw.calls() if ctx.is_call(dw, c, "utils.safe_update_file")]
    rep.ob(rule, len(sf) == 1 and any(
        x is d for x in ast.walk(sf[0])), loc=dw.loc(), where=dw.qualname,
           construct="safe_update_file(info=<dump>)",
           message="what is dumped is what is written")
    # grouping by split: defaultdict(list) append keyed by parts[0]
    st = stores[0].ast
    val = st.value
    ok_merge = isinstance(val, ast.Call) and ctx.is_call(
        dw, val, "merge_shard_infos.merge_shard_infos")
    loop = parent(st)
    ok_loop = isinstance(loop, ast.For) and isinstance(
        loop.iter, ast.Call) and isinstance(loop.iter.func, ast.Attribute) and \
        loop.iter.func.attr == "items" and isinstance(loop.target, ast.Tuple)
    grouped = dotted(loop.iter.func.value) if ok_loop else None
    # the grouping may live in write_config itself or in a helper whose
    # return value is iterated by the merge loop
    gfn = dw
    gvar = grouped
    gdef = None
    src_name = "updated_infos"
    for n in dw.body_nodes():
        if isinstance(n, (ast.Assign, ast.AnnAssign)):
            t = n.targets[0] if isinstance(n, ast.Assign) else n.target
            if dotted(t) == grouped:
                gdef = n.value
    if isinstance(gdef, ast.Call):
        helpers = [t for t in ctx.internal_targets(dw, gdef)
                   if not isinstance(t.node, ast.Lambda)]
        if len(helpers) == 1:
            h = helpers[0]
            rets = [x for x in h.body_nodes() if isinstance(x, ast.Return)]
            passed = [p for p in h.params()
                      if dotted(C_passed(gdef, h, p)) == "updated_infos"]
            if len(rets) == 1 and isinstance(rets[0].value, ast.Name) and passed:
                gfn, gvar, src_name = h, rets[0].value.id, passed[0]
                gdef = None
                for n in h.body_nodes():
                    if isinstance(n, (ast.Assign, ast.AnnAssign)):
                        t = n.targets[0] if isinstance(n, ast.Assign) else n.target
                        if dotted(t) == gvar:
                            gdef = n.value
    ok_group = isinstance(gdef, ast.Call) and ast.unparse(gdef.func).endswith(
        "defaultdict") and gdef.args and ast.unparse(gdef.args[0]) == "list"
    key_ok = False
    fill = [c for c in gfn.calls() if isinstance(c.func, ast.Attribute) and
            c.func.attr == "append" and isinstance(c.func.value, ast.Subscript)
            and dotted(c.func.value.value) == gvar]
    # ... or a plain dict filled by G.setdefault(key, []).append(x)
    fill_sd = [c for c in gfn.calls() if isinstance(c.func, ast.Attribute) and
               c.func.attr == "append" and isinstance(c.func.value, ast.Call)
               and isinstance(c.func.value.func, ast.Attribute) and
               c.func.value.func.attr == "setdefault" and
               dotted(c.func.value.func.value) == gvar and
               len(c.func.value.args) == 2 and not c.func.value.keywords and
               isinstance(c.func.value.args[1], ast.List) and
               not c.func.value.args[1].elts]
    if not fill and fill_sd:
        fill = fill_sd
        ok_group = (isinstance(gdef, ast.Dict) and not gdef.keys) or (
            isinstance(gdef, ast.Call) and ast.unparse(gdef.func) == "dict"
            and not gdef.args and not gdef.keywords)
    if fill:
        from sa.norm import canon
        key = fill[0].func.value.slice if isinstance(
            fill[0].func.value, ast.Subscript) else fill[0].func.value.args[0]
        floop = parent(parent(fill[0]))
        ktext = canon(gfn, key)
        if isinstance(key, ast.Name) and isinstance(floop, ast.For):
            kdefs = [n.value for n in ast.walk(floop) if isinstance(
                n, (ast.Assign, ast.AnnAssign)) and dotted(
                    n.targets[0] if isinstance(n, ast.Assign) else n.target)
                     == key.id and n.value is not None]
            if len(kdefs) == 1:
                ktext = ast.unparse(kdefs[0])
        key_ok = isinstance(floop, ast.For) and \
            dotted(floop.iter) == src_name and len(fill) == 1 and \
            dotted(fill[0].args[0]) == dotted(floop.target) and \
            "file_path.parts[0]" in ktext and \
            (dotted(floop.target) or "?") in ktext
    okk = ok_merge and ok_loop and ok_group and key_ok and ok_loop and \
        ast.unparse(st.targets[0].slice) == loop.target.elts[0].id and \
        dotted(ctx.arg(val, 0, "updates")) == loop.target.elts[1].id
    rep.ob(rule, bool(okk), loc=dw.loc(st), where=dw.qualname,
           construct=f"{short(st, 60)} for split, updates in "
           f"{grouped}.items()",
           message="updates are grouped per split (defaultdict(list) keyed by "
           "the first path component of every update) and each group is "
           "merged once into splits[split]")
    # who writes splits
    for fn in ctx.repo.all_functions():
        for n in fn.body_nodes():
            tgts = []
            if isinstance(n, ast.Assign):
                tgts = n.targets
            elif isinstance(n, (ast.AugAssign, ast.AnnAssign)):
                tgts = [n.target]
            elif isinstance(n, ast.Delete):
                tgts = n.targets
            for t in tgts:
                base = t.value if isinstance(t, ast.Subscript) else t
                if isinstance(base, ast.Attribute) and base.attr == "splits":
                    rep.ob(rule, fn is dw and isinstance(t, ast.Subscript)
                           and not isinstance(n, ast.Delete), loc=fn.loc(n),
                           where=fn.qualname, construct=short(n, 70),
                           message="the split table is only updated entry by "
                           "entry in write_config")
            if isinstance(n, ast.Call) and isinstance(
                    n.func, ast.Attribute) and n.func.attr in (
                        "clear", "pop", "popitem", "update", "setdefault") and \
                    isinstance(n.func.value, ast.Attribute) and \
                    n.func.value.attr == "splits":
                rep.ob(rule, False, loc=fn.loc(n), where=fn.qualname,
                       construct=short(n),
                       message="the split table is mutated wholesale")


_MG = "src/sedpack/io/merge_shard_infos.py"
_DF = "src/sedpack/io/dataset_filler.py"
_SM = "src/sedpack/io/shard_file_metadata.py"
_DW = "src/sedpack/io/dataset_writing.py"
SELFTESTS = [
    dict(rule="C04.delta", name="drop-subtract", expect="fire", path=_MG,
         old="        root_shard_list.number_of_examples -= child.number_of_examples\n",
         new=""),
    dict(rule="C04.delta", name="assign-for-add", expect="fire", path=_MG,
         old="        root_shard_list.number_of_examples += child.number_of_examples\n",
         new="        root_shard_list.number_of_examples = child.number_of_examples\n"),
    dict(rule="C04.delta", name="clear-without-subtract", expect="fire", path=_MG,
         old="    for child in root_shard_list.children_shard_lists:\n        root_shard_list.number_of_examples -= child.number_of_examples\n        if child.shard_list_info_file.file_path not in updated_paths:\n            deeper_updates.append(child)\n",
         new="    for child in root_shard_list.children_shard_lists:\n        if child.shard_list_info_file.file_path not in updated_paths:\n            deeper_updates.append(child)\n"),
    dict(rule="C04.delta", name="skip-superseded-before-subtract", expect="fire",
         path=_MG,
         old="        root_shard_list.number_of_examples -= child.number_of_examples\n        if child.shard_list_info_file.file_path not in updated_paths:\n            deeper_updates.append(child)\n",
         new="        if child.shard_list_info_file.file_path in updated_paths:\n            continue\n        root_shard_list.number_of_examples -= child.number_of_examples\n        deeper_updates.append(child)\n"),
    dict(rule="C04.delta", name="swap-pair-twin", expect="silent", path=_MG,
         old="        root_shard_list.number_of_examples += child.number_of_examples\n        root_shard_list.children_shard_lists.append(child)\n",
         new="        root_shard_list.children_shard_lists.append(child)\n        root_shard_list.number_of_examples += child.number_of_examples\n"),
    dict(rule="C04.delta", name="close-shard-recompute", expect="fire", path=_DF,
         old="        self._shards_lists[\n            split].number_of_examples += shard_info.number_of_examples\n",
         new="        self._shards_lists[split].number_of_examples = sum(\n            s.number_of_examples for s in self._shards_lists[split].shard_files)\n"),
    dict(rule="C04.fresh", name="keep-unchanged-children", expect="fire", path=_MG,
         old="    # Merge the recursive into root_shard_list.\n    for child in merged.values():",
         new="    # Merge the recursive into root_shard_list.\n    unchanged = {str(c.shard_list_info_file.file_path): c for c in deeper_updates if c not in updates}\n    for child in {**merged, **unchanged}.values():"),
    dict(rule="C04.count", name="own-shards-only", expect="fire", path=_SM,
         old="        number_of_shards: int = len(self.shard_files) + sum(\n            info.number_of_shards for info in self.children_shard_lists)\n",
         new="        number_of_shards: int = len(self.shard_files)\n"),
    dict(rule="C04.count", name="temp-variable-twin", expect="silent", path=_SM,
         old="        number_of_shards: int = len(self.shard_files) + sum(\n            info.number_of_shards for info in self.children_shard_lists)\n",
         new="        number_of_shards: int = sum(\n            info.number_of_shards for info in self.children_shard_lists) + len(self.shard_files)\n"),
    dict(rule="C04.dump", name="groupby-adjacent", expect="fire", path=_DW,
         old="        for split, updates in splits_to_update.items():\n",
         new="        for split, updates in itertools.groupby(updated_infos, key=lambda i: str(i.shard_list_info_file.file_path.parts[0])):\n"),
    dict(rule="C04.dump", name="dump-excludes-defaults", expect="fire", path=_DW,
         old="            info=self._dataset_info.model_dump_json(indent=2),",
         new="            info=self._dataset_info.model_dump_json(indent=2, exclude_defaults=True),"),
]
