"""C08 - continued writing is append-only."""
from __future__ import annotations

import ast

from sa import collalg

from sa.cfg import CFG
from sa.context import Context, names_in, raises_in
from sa.dataflow import TagFlow
from sa.model import AnalysisError, dotted, parent, short
from sa.rules import c06
from sa.valuation import Valuation

SL = "sedpack.io.shard_file_metadata"
MG = "sedpack.io.merge_shard_infos:merge_shard_infos"


def merge_terms(ctx: Context) -> dict:
    """Collection-algebra view of merge_shard_infos: the list object whose
    write_config is returned, the final term of its children and the
    grouping the recursion runs over."""
    mg = ctx.fn(MG)
    cached = ctx.__dict__.get("_merge_terms")
    if cached is not None:
        return cached
    ca = collalg.CollAlg(mg)
    objs = {dotted(r.func.value) for r in ca.returns if isinstance(
        r, ast.Call) and isinstance(r.func, ast.Attribute) and
        r.func.attr == "write_config"}
    if len(objs) != 1 or None in objs:
        raise AnalysisError("merge_shard_infos: the list whose write_config "
                            "is returned could not be identified")
    obj = objs.pop()
    children = ca.env.get(obj + ".children_shard_lists",
                          ("src", obj + ".children_shard_lists"))
    groups = [t for t in collalg.spine(children) if t[0] == "group"]
    out = dict(mg=mg, ca=ca, obj=obj, children=children,
               group=groups[0] if len(groups) == 1 else None)
    ctx.__dict__["_merge_terms"] = out
    return out


def is_recursive_merge(elt_text: str) -> bool:
    try:
        e = ast.parse(elt_text, mode="eval").body
    except SyntaxError:
        return False
    if not (isinstance(e, ast.Call) and (dotted(e.func) or "").endswith(
            "merge_shard_infos")):
        return False
    upd = next((k.value for k in e.keywords if k.arg == "updates"),
               e.args[0] if e.args else None)
    return dotted(upd) == "_v"


def superseded_filter(part, upd_parts, children_src):
    """`part` (known children carried into the recursion) must be
    filter(<known children>, <path> not in S) with S the set of exactly that
    path expression over the deeper updates."""
    if part[0] != "filter" or part[1] != ("src", children_src):
        return False, "moved without the superseded-by-update test"
    text, refs = part[2]
    try:
        e = ast.parse(text, mode="eval").body
    except SyntaxError:
        return False, "test not understood"
    if isinstance(e, ast.UnaryOp) and isinstance(e.op, ast.Not) and \
            isinstance(e.operand, ast.Compare) and isinstance(
                e.operand.ops[0], ast.In):
        left, right = e.operand.left, e.operand.comparators[0]
    elif isinstance(e, ast.Compare) and len(e.ops) == 1 and isinstance(
            e.ops[0], ast.NotIn):
        left, right = e.left, e.comparators[0]
    else:
        return False, f"test `{text}` is not a not-in test"
    ltxt = ast.unparse(left)
    if "file_path" not in ltxt:
        return False, "test does not compare the list file path"
    rd = dict(refs).get(dotted(right) or "")
    if rd is None or rd[0] != "set":
        return False, f"`{ast.unparse(right)}` is not a set built here"
    inner = rd[1]
    if inner[0] != "map" or inner[2] != ltxt:
        return False, "the set does not hold the same path expression"
    base_parts = collalg.concat_parts(inner[1])
    if base_parts != upd_parts:
        return False, "the set is not built from the deeper updates"
    return True, ""


def check_dedup(ctx: Context, rep, rule: str) -> None:
    # -- C08.dedup / recursion ------------------------------------------------------------
    rep.rule(
        rule,
        "in merge_shard_infos a known child is moved into the update set "
        "only when no update for the same list file is present (otherwise a "
        "reused sub-directory enters the recursion twice and the session "
        "aborts after rewriting the child list); the recursion's prefix "
        "slices use [:common], the grouping key is parts[common], the level "
        "tests compare with common + 1 and the recursive call passes "
        "common + 1")
    mg = ctx.fn(MG)
    mt = merge_terms(ctx)
    G = mt["group"]
    children_src = mt["obj"] + ".children_shard_lists"
    if G is None:
        rep.ob(rule, False, loc=mg.loc(), where=mg.qualname,
               construct=collalg.pretty(mt["children"])[:160],
               message="the re-attached children are not the per-directory "
               "merges of a grouping of the updates")
    else:
        parts = collalg.concat_parts(G[2])
        upd_parts = [p for p in parts if collalg.sources(p) == {"updates"}]
        old_parts = [p for p in parts if children_src in collalg.sources(p)]
        rep.ob(rule, len(upd_parts) >= 1 and len(old_parts) >= 1 and
               len(upd_parts) + len(old_parts) == len(parts), loc=mg.loc(),
               where=mg.qualname,
               construct="grouped = " + collalg.pretty(G[2])[:200],
               message="the recursion receives the deeper updates and the "
               "already known children of this list (nothing else, nothing "
               "lost)")
        for p in old_parts:
            ok, detail = superseded_filter(p, upd_parts, children_src)
            rep.ob(rule, ok, loc=mg.loc(), where=mg.qualname,
                   construct=f"known children moved: {collalg.pretty(p)[:150]}",
                   message="a child that is being updated must be superseded "
                   "by its update, not merged alongside it" + (
                       f" ({detail})" if detail else ""))
    text = ast.unparse(mg.node)
    slices = [n for n in mg.body_nodes() if isinstance(n, ast.Subscript) and
              ast.unparse(n.value).endswith(".parts")]
    for s in slices:
        sl = s.slice
        if isinstance(sl, ast.Slice):
            ok = sl.lower is None and sl.step is None and dotted(sl.upper) == \
                "common"
            what = "prefix slice"
        else:
            ok = dotted(sl) == "common"
            what = "grouping key"
        rep.ob(rule, ok, loc=mg.loc(s), where=mg.qualname,
               construct=short(s), message=f"{what} must be relative to "
               "`common`")
    rec = [c for c in mg.calls() if ctx.is_call(
        mg, c, "merge_shard_infos.merge_shard_infos")]
    from sa.norm import canon as _canon_m
    rep.ob(rule, len(rec) == 1 and _canon_m(
        mg, ctx.arg(rec[0], 2, "common") or ast.Constant(0)) in (
            "common + 1", "1 + common") and
           ast.unparse(ctx.arg(rec[0], 1, "dataset_root") or ast.Constant(0))
           == "dataset_root", loc=mg.loc(rec[0]) if rec else mg.loc(),
           where=mg.qualname, construct=short(rec[0], 100) if rec else "<none>",
           message="recursion descends exactly one directory level in the "
           "same dataset")
    from sa.norm import expand as _expand
    lvl = [_expand(mg, c) for c in mg.body_nodes()
           if isinstance(c, ast.Compare)]
    lvl = [c for c in lvl if ast.unparse(c.left).startswith("len(") and
           ast.unparse(c.left).endswith(".parts)") and
           ast.unparse(c.left).count("len(") == 1]
    forms = sorted(ast.unparse(c.ops[0].__class__()) if False else
                   type(c.ops[0]).__name__ + " " + ast.unparse(c.comparators[0])
                   for c in lvl)
    rep.ob(rule, forms == ["Eq common + 1", "Gt common + 1"],
           loc=mg.loc(), where=mg.qualname, construct=f"level tests {forms}",
           message="updates are split into this level (== common + 1) and "
           "deeper (> common + 1), nothing is dropped")
    # the group key for each deeper update comes from that update's own path
    ok = G is not None and G[4] == "_" and \
        "_.shard_list_info_file.file_path.parts[common]" in G[3]
    rep.ob(rule, ok, loc=mg.loc(), where=mg.qualname,
           construct="group key: " + (G[3] if G is not None else "<none>"),
           message="every deeper update lands (itself, unchanged) in the "
           "group of its own directory")
    # merged children are all re-added
    cparts = collalg.concat_parts(mt["children"])
    ok = G is not None and len(cparts) == 1 and cparts[0][0] == "map" and \
        cparts[0][1] == ("items", G) and is_recursive_merge(cparts[0][2])
    rep.ob(rule, ok, loc=mg.loc(), where=mg.qualname,
           construct="children = " + collalg.pretty(mt["children"])[:120],
           message="every merged directory (each group, unfiltered) is "
           "listed as a child again, exactly once")


def check_load(ctx: Context, rep, rule: str) -> None:
    loc_fn = ctx.fn(f"{SL}:ShardsList.load_or_create")
    # -- C08.load ---------------------------------------------------------------
    rep.rule(
        rule,
        "the ShardsList(...) constructor is called only in load_or_create "
        "and is unreachable there when the list file exists (then the file "
        "at the same root/relative path is parsed and returned); every "
        "other acquisition of a list for writing goes through "
        "load_or_create")
    ctor_sites = []
    for fn in ctx.repo.all_functions():
        for c in fn.calls():
            for t in ctx.res.resolve_call(fn, c, count=False):
                if t.kind == "class" and t.cls.fq == f"{SL}.ShardsList":
                    ctor_sites.append((fn, c))
    if not ctor_sites:
        raise AnalysisError("load: no ShardsList construction found")
    for fn, c in ctor_sites:
        rep.ob(rule, fn is loc_fn, loc=fn.loc(c), where=fn.qualname,
               construct=short(c),
               message="a fresh (empty) list may only be made by "
               "load_or_create, otherwise an existing list would be replaced")

    def exists_atom(e):
        if isinstance(e, ast.Call) and isinstance(e.func, ast.Attribute) and \
                e.func.attr in ("is_file", "exists"):
            return "exists"
        if isinstance(e, ast.Call) and isinstance(e.func, ast.Attribute) and \
                e.func.attr == "is_relative_to":
            return "contained"
        return None

    for exists in (True, False):
        v = Valuation(loc_fn, exists_atom, {"exists": exists, "contained": True})
        cfg = CFG(loc_fn, oracle=v.truth)
        live = cfg.reachable([cfg.entry], follow=lambda a, b, lab: lab != "exc")
        ctor_live = [n for n in live if n.kind == "call" and any(
            n.ast is c for f, c in ctor_sites)]
        loads = [n for n in live if n.kind == "call" and isinstance(
            n.ast.func, ast.Attribute) and n.ast.func.attr == "model_validate_json"]
        if exists:
            ok = not ctor_live and bool(loads) and cfg.exit in live
            msg = "an existing list file is loaded, never recreated"
        else:
            ok = bool(ctor_live) and not loads
            msg = "without a list file a new empty list is made"
        rep.ob(rule, ok, loc=loc_fn.loc(), where=loc_fn.qualname,
               construct=f"file exists={exists}: constructor reachable="
               f"{bool(ctor_live)}, load reachable={bool(loads)}", message=msg)
    # tested path == loaded path == path of the new object
    tests = [c for c in loc_fn.calls() if exists_atom(c) == "exists"]
    reads = [c for c in loc_fn.calls() if isinstance(c.func, ast.Attribute) and
             c.func.attr == "read_text"]
    defs = Valuation(loc_fn, exists_atom, {}).defs

    def base_path(e):
        from sa.norm import canon as _canon
        e = ast.parse(_canon(loc_fn, e), mode="eval").body  # locals expanded
        for x in ast.walk(e):
            if isinstance(x, ast.BinOp) and isinstance(x.op, ast.Div):
                return ast.unparse(x)
        return ast.unparse(e)

    ok = bool(tests) and bool(reads) and all(
        base_path(t.func.value) == base_path(r.func.value) ==
        "dataset_root_path / relative_path_self" for t in tests for r in reads)
    rep.ob(rule, ok, loc=loc_fn.loc(), where=loc_fn.qualname,
           construct=f"test {[base_path(t.func.value) for t in tests]} / read "
           f"{[base_path(r.func.value) for r in reads]}",
           message="the file tested for existence is the file loaded")
    ctor_kw = [ast.unparse(ctx.arg(c, 0, "relative_path_self") or
                           ast.Constant(0)) for f, c in ctor_sites if f is loc_fn]
    rep.ob(rule, ctor_kw == ["relative_path_self"], loc=loc_fn.loc(),
           where=loc_fn.qualname,
           construct=f"ShardsList(relative_path_self={ctor_kw})",
           message="a new list is bound to the requested path")
    # acquisitions for writing
    acq = {
        "sedpack.io.dataset_filler:_DatasetFillerContext.close_shard",
        MG,
    }
    callers = ctx.cg.callers(loc_fn.fq)
    rep.ob(rule, acq <= callers, loc=loc_fn.loc(), where=loc_fn.qualname,
           construct=f"callers: {sorted(c.split(':')[1] for c in callers)}",
           message="the filler and the merge obtain their lists through "
           "load_or_create")
    # ... and at the moment of use: a list loaded when a filler object is
    # constructed is a snapshot that a session completed in between makes
    # stale (its later write-back drops that session's shards)
    early = sorted(c_ for c_ in callers - acq
                   if c_.split(":")[1].rsplit(".", 1)[-1] in (
                       "__init__", "__new__", "__post_init__"))
    rep.ob(rule, not early, loc=loc_fn.loc(), where=loc_fn.qualname,
           construct="load_or_create called from " + (", ".join(
               e.split(":")[1] for e in early) or "users only"),
           message="a shards list is loaded in a constructor (ahead of use): "
           "the object may be used after another session extended the list")
    # parse sites of list files
    parse_ok = {loc_fn.fq,
                "sedpack.io.dataset_base:DatasetBase._shard_info_iterator",
                "sedpack.io.dataset_writing:DatasetWriting."
                "_check_shard_list_info"}
    for fn in ctx.repo.all_functions():
        for c in fn.calls():
            if isinstance(c.func, ast.Attribute) and c.func.attr in (
                    "model_validate_json", "model_validate", "parse_raw") and \
                    "ShardsList" in ast.unparse(c.func.value):
                rep.ob(rule, fn.fq in parse_ok, loc=fn.loc(c),
                       where=fn.qualname, construct=short(c, 70),
                       message="list files are parsed only by the loader and "
                       "by the two read-only walkers")


def run(ctx: Context, rep) -> None:
    rep.not_decided = (
        "correctness of the recursive merge over concrete histories (the "
        "per-call accounting is C04.delta; here: load-then-extend, "
        "de-duplication of the update set, prefix/key agreement of the "
        "recursion, no destructive effect, refusal of create)")
    rep.assumptions += [
        "one live handle at a time (the property's quantifier)",
        "is_file() of the resolved list path decides between load and create",
    ]
    loc_fn = ctx.fn(f"{SL}:ShardsList.load_or_create")

    check_load(ctx, rep, "C08.load")

    # -- close_shard extends the loaded list ---------------------------------------
    cs = ctx.fn("sedpack.io.dataset_filler:_DatasetFillerContext.close_shard")
    loads = [c for c in cs.calls() if ctx.is_call(
        cs, c, "ShardsList.load_or_create")]
    ok = False
    if len(loads) == 1:
        rel = ctx.arg(loads[0], 1, "relative_path_self")
        from sa.norm import canon
        ok = rel is not None and canon(cs, rel) == \
            "split / self._relative_path_from_split / 'shards_list.json'"
        g = parent(parent(loads[0]))
        ok = ok and isinstance(g, ast.If) and isinstance(
            g.test, ast.Compare) and isinstance(g.test.ops[0], ast.NotIn) and \
            ast.unparse(g.test) == "split not in self._shards_lists"
    rep.ob("C08.load", ok, loc=cs.loc(), where=cs.qualname,
           construct=short(loads[0], 110) if loads else "<none>",
           message="the filler's list for a split is loaded once per session "
           "from <split>/<sub-directory>/shards_list.json and cached")

    # -- C08.subscript -----------------------------------------------------------------
    rep.rule(
        "C08.subscript",
        "shard_files is never rebound or shrunk (append only); "
        "children_shard_lists is rebound only inside merge_shard_infos, "
        "where C04.delta proves the re-add; no list is sorted, popped, "
        "cleared or sliced in place")
    n = 0
    for fn in ctx.repo.all_functions():
        for node in fn.body_nodes():
            tgts = []
            if isinstance(node, ast.Assign):
                tgts = node.targets
            elif isinstance(node, (ast.AugAssign, ast.AnnAssign)):
                tgts = [node.target]
            elif isinstance(node, ast.Delete):
                tgts = node.targets
            for t in tgts:
                base = t.value if isinstance(t, ast.Subscript) else t
                if isinstance(base, ast.Attribute) and base.attr in (
                        "shard_files", "children_shard_lists") and \
                        not isinstance(parent(node), ast.ClassDef):
                    n += 1
                    ok = base.attr == "children_shard_lists" and \
                        fn.fq == MG and isinstance(node, ast.Assign) and \
                        isinstance(node.value, ast.List) and not node.value.elts
                    rep.ob("C08.subscript", ok, loc=fn.loc(node),
                           where=fn.qualname, construct=short(node),
                           message="committed shard records may not be "
                           "replaced or dropped")
            if isinstance(node, ast.Call) and isinstance(
                    node.func, ast.Attribute) and isinstance(
                        node.func.value, ast.Attribute) and \
                    node.func.value.attr in ("shard_files",
                                             "children_shard_lists"):
                n += 1
                rep.ob("C08.subscript", node.func.attr == "append",
                       loc=fn.loc(node), where=fn.qualname,
                       construct=short(node, 70),
                       message="only append is allowed on the record lists")
    rep.floor("C08.subscript", n, 3, "instances")

    check_dedup(ctx, rep, "C08.dedup")

    # -- C08.create ---------------------------------------------------------------------
    rep.rule(
        "C08.create",
        "Dataset.create refuses before any effect: the existence test of "
        "the description file (on the resolved root that is also used for "
        "mkdir and the config write) raises DatasetExistsError and "
        "dominates every file-system effect and the first write_config")
    cr = ctx.fn("sedpack.io.dataset:Dataset.create")

    def exists_atom2(e):
        if isinstance(e, ast.Call) and isinstance(e.func, ast.Attribute) and \
                e.func.attr in ("is_file", "exists"):
            return "exists"
        return None

    v = Valuation(cr, exists_atom2, {"exists": True})
    cfg = CFG(cr, oracle=v.truth)
    live = cfg.reachable([cfg.entry], follow=lambda a, b, lab: lab != "exc")
    eff = [n for n in live if n.kind == "call" and (
        ctx.effects(cr, n.ast) & {"FS_CREATE", "FS_MKDIR", "FS_RENAME",
                                  "FS_DELETE"} or ctx.is_call(
                                      cr, n.ast, method="write_config"))]
    tests = [c for c in cr.calls() if exists_atom2(c)]
    rep.ob("C08.create", bool(tests) and not eff and cfg.exit not in live,
           loc=cr.loc(tests[0]) if tests else cr.loc(), where=cr.qualname,
           construct="description exists => raise before mkdir/write_config",
           message=f"with an existing description no effect is reachable "
           f"({len(eff)} reachable) and the call raises")
    # the tested root is the handle's resolved path, same as written to
    for t in tests:
        arg = t.func.value
        root = None
        for c in ast.walk(arg):
            if isinstance(c, ast.Call) and ast.unparse(c.func).endswith(
                    "_get_config_path") and (c.args or c.keywords):
                from sa.norm import canon as _canon
                a0 = ctx.arg(c, 0, "path")
                if a0 is not None:
                    root = _canon(cr, a0)
        mk = [c for c in cr.calls() if isinstance(c.func, ast.Attribute) and
              c.func.attr == "mkdir"]
        wr = [c for c in cr.calls() if ctx.is_call(cr, c, method="write_config")]
        same = root is not None and all(
            _canon(cr, m.func.value) == root for m in mk) and all(
                root.startswith(_canon(cr, w.func.value)) for w in wr)
        ds_t = ctx.res.infer(cr, ast.parse(root.rsplit(".", 1)[0],
                                           mode="eval").body) if root and "." in root else None
        rep.ob("C08.create", bool(same) and root is not None and
               root.endswith(".path") and
               ds_t is not None and ds_t.name.endswith("Dataset"),
               loc=cr.loc(t), where=cr.qualname,
               construct=f"tested root {(root or '<none>')[:60]}; mkdir on "
               f"{[ast.unparse(m.func.value) for m in mk]}",
               message="the existence test looks at the same (resolved) "
               "directory that is created and written")
        raised = [n for n in cr.body_nodes() if isinstance(n, ast.Raise)]
        rep.ob("C08.create", any("DatasetExistsError" in ast.unparse(r)
                                 for r in raised), loc=cr.loc(),
               where=cr.qualname, construct="raise DatasetExistsError(...)",
               message="refusal is reported with the dedicated error")
    from sa.rules import c04
    c04.check_dump(ctx, rep, "C08.group")
    c04.check_fresh_records(ctx, rep, "C08.fresh")
    c04.check_delta(ctx, rep, "C08.delta")
    rep.rule(
        "C08.group",
        "a continued session keeps every earlier record: all updates of a "
        "split are grouped and merged together, accounting stays balanced "
        "and re-attached child records are fresh merge results (same checks "
        "as C04.dump / C04.fresh / C04.delta)")
    c06.check_who(ctx, rep, "C08.nodestroy")
    # a kept handle writes where it was opened, whatever the working
    # directory later is (same rule as C20.reloc's root clause)
    from sa.rules.c20 import check_root_resolved
    check_root_resolved(ctx, rep, "C08.root")
    # nothing read from the dataset's files / the environment is memoised
    from sa.rules import shared as _shm
    _shm.check_no_memo(ctx, rep, "C08.memo")
    from sa.rules import shared as _sh08
    # a kept handle re-reads the lists on every pass and the selection does
    # not merge distinct shards (same checks as C02.walk, C12.stages)
    _sh08.share_rules(ctx, rep, "c02", {"C02.walk": "C08.walk"})
    _sh08.share_rules(ctx, rep, "c12", {"C12.stages": "C08.stages"})
    # the parent merges what the WORKERS wrote (same check as C09.collect)
    from sa.rules import shared as _sh08
    _sh08.share_rules(ctx, rep, "c09", {"C09.collect": "C08.collect"})

_SM = "src/sedpack/io/shard_file_metadata.py"
_MG = "src/sedpack/io/merge_shard_infos.py"
_DF = "src/sedpack/io/dataset_filler.py"
_DS = "src/sedpack/io/dataset.py"
SELFTESTS = [
    dict(rule="C08.load", name="fresh-list-in-close-shard", expect="fire", path=_DF,
         old="            self._shards_lists[split] = ShardsList.load_or_create(\n                dataset_root_path=self._dataset_root_path,\n                relative_path_self=split / self._relative_path_from_split /\n                \"shards_list.json\",\n            )",
         new="            self._shards_lists[split] = ShardsList(\n                relative_path_self=split / self._relative_path_from_split /\n                \"shards_list.json\",\n            )"),
    dict(rule="C08.load", name="load-inverted", expect="fire", path=_SM,
         old="        if canonical_path.is_file():\n", new="        if not canonical_path.is_file():\n"),
    dict(rule="C08.subscript", name="shard-files-rebound", expect="fire", path=_DF,
         old="        self._shards_lists[split].shard_files.append(shard_info)\n",
         new="        self._shards_lists[split].shard_files = [shard_info]\n"),
    dict(rule="C08.subscript", name="insert-front", expect="fire", path=_DF,
         old="        self._shards_lists[split].shard_files.append(shard_info)\n",
         new="        self._shards_lists[split].shard_files.insert(0, shard_info)\n"),
    dict(rule="C08.dedup", name="no-dedup", expect="fire", path=_MG,
         old="        if child.shard_list_info_file.file_path not in updated_paths:\n            deeper_updates.append(child)\n",
         new="        deeper_updates.append(child)\n"),
    dict(rule="C08.dedup", name="group-by-parent-name", expect="fire", path=_MG,
         old="        directory = str(current_path.parts[common])\n",
         new="        directory = str(current_path.parent.name)\n"),
    dict(rule="C08.dedup", name="recursion-same-level", expect="fire", path=_MG,
         old="                              common=common + 1,", new="                              common=common,"),
    dict(rule="C08.create", name="guard-removed", expect="fire", path=_DS,
         old="        if Dataset._get_config_path(dataset.path).is_file():\n            # Raise if the dataset already exists.\n            raise DatasetExistsError(dataset.path)\n",
         new=""),
    dict(rule="C08.create", name="mkdir-before-guard", expect="fire", path=_DS,
         old="        # Do not overwrite an existing dataset.\n",
         new="        dataset.path.mkdir(parents=True, exist_ok=True)\n        dataset.write_config(updated_infos=[])\n        # Do not overwrite an existing dataset.\n"),
    dict(rule="C08.create", name="guard-on-raw-path", expect="fire", path=_DS,
         old="        if Dataset._get_config_path(dataset.path).is_file():",
         new="        if Dataset._get_config_path(Path(path)).is_file():"),
    dict(rule="C08.create", name="exists-twin", expect="silent", path=_DS,
         old="        if Dataset._get_config_path(dataset.path).is_file():",
         new="        if Dataset._get_config_path(dataset.path).exists():"),
]
