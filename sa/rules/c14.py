"""C14 - iteration is lazy: read-ahead bounded by configuration only."""
from __future__ import annotations

import ast

from sa.cfg import CFG, FALSY, TRUTHY, UNKNOWN, const_eval
from sa.context import Context, names_in
from sa.dataflow import EMPTY, TagFlow
from sa.model import AnalysisError, FunctionInfo, ancestors, dotted, parent, short
from sa.rules import common as C, rustrules

ITM = "sedpack.io.itertools.itertools"
LP = "sedpack.io.itertools.lazy_pool"
EAGER_FUNCS = {"list", "tuple", "sorted", "set", "frozenset", "sum", "min",
               "max", "dict", "len", "reversed", "any_all_placeholder",
               "numpy.array", "numpy.asarray", "numpy.stack",
               "numpy.concatenate", "collections.deque", "random.shuffle",
               "random.sample", "asyncstdlib.list", "asyncstdlib.tuple",
               "asyncstdlib.sorted", "asyncstdlib.sum", "asyncstdlib.min",
               "asyncstdlib.max", "asyncstdlib.set", "asyncstdlib.dict"}
EAGER_METHODS = {"extend", "join", "update"}
CONFIG_NAMES = {"buffer_size", "file_parallelism", "threads", "shuffle",
                "self._threads", "self._file_parallelism", "self._shuffle",
                "batch_size", "prefetch", "parallelism"}


def helper_functions(ctx: Context) -> list[FunctionInfo]:
    mod = ctx.repo.module(ITM)
    return [mod.func(n) for n in ("shuffle_buffer", "shuffle_buffer_async",
                                  "round_robin", "round_robin_async")] + [
        ctx.fn(f"{LP}:LazyPool.imap_unordered")]


def inf_hook(ctx: Context, fn: FunctionInfo, env: dict):
    def hook(e, state, rec):
        if isinstance(e, ast.Call):
            f = e.func
            fname = f.id if isinstance(f, ast.Name) else (
                f.attr if isinstance(f, ast.Attribute) else None)
            if ctx.is_call(fn, e, "itertools.cycle", "itertools.repeat",
                           "itertools.count") and not (
                               fname == "repeat" and len(e.args) > 1):
                return frozenset({"inf"})
            if fname == "repeat" and isinstance(f, ast.Attribute) and \
                    not e.args and "itertools" not in ast.unparse(f.value):
                return frozenset({"inf"})  # tf.data repeat()
            if fname == "as_numpy_common" or any(
                    fname == q.rsplit(".", 1)[-1] for q in C.INTERFACES):
                r = ctx.arg(e, None, "repeat")
                v = const_eval(r, env) if r is not None else True
                if v is False:
                    return EMPTY
                return frozenset({"inf"})
            def elems(args):
                # finite view / single element of a stream of streams
                return any("inf-elems" in rec(a) for a in args)

            if fname in ("next", "anext"):
                # one element, not the stream (itself a stream when the
                # source is a stream of streams)
                return frozenset({"inf"}) if elems(e.args[:1]) else EMPTY
            if fname == "islice" and len(e.args) >= 2:
                return frozenset({"inf-elems"}) if elems(e.args[:1]) else EMPTY
            if fname == "zip" and any(isinstance(a, ast.Call) and isinstance(
                    a.func, ast.Name) and a.func.id == "range" for a in e.args):
                return frozenset({"inf-elems"}) if elems(e.args) else EMPTY
            if fname in ("take", "head") and e.args:
                return EMPTY
        return None
    return hook


def eager_sink_arg(ctx: Context, fn: FunctionInfo, c: ast.Call):
    """Arguments of `c` that are consumed eagerly, or []."""
    names = ctx.names(fn, c)
    f = c.func
    if names & EAGER_FUNCS or (isinstance(f, ast.Name) and f.id in EAGER_FUNCS):
        return list(c.args[:1])
    if isinstance(f, ast.Attribute) and f.attr in EAGER_METHODS:
        return list(c.args[:1])
    if isinstance(f, ast.Attribute) and f.attr in ("map", "imap",
                                                   "imap_unordered",
                                                   "starmap") and any(
            k in ast.unparse(f.value) for k in ("executor", "pool")) and \
            not any(t.kind == "internal" for t in ctx.res.resolve_call(
                fn, c, count=False)):
        return list(c.args[1:])
    out = [a.value for a in c.args if isinstance(a, ast.Starred)]
    return out


def bounded_iter(it: ast.AST, fn: FunctionInfo | None = None):
    """for-loop iterable that is finite by construction with a
    configuration-only bound: range(cfg), zip(range(cfg), src),
    islice(src, cfg), optionally wrapped in list()/tuple()."""
    from sa.context import dotted_in
    if isinstance(it, ast.Call) and isinstance(it.func, ast.Name) and \
            it.func.id in ("list", "tuple") and len(it.args) == 1:
        it = it.args[0]
    if not isinstance(it, ast.Call):
        return False, ""
    fname = it.func.id if isinstance(it.func, ast.Name) else (
        it.func.attr if isinstance(it.func, ast.Attribute) else None)
    bound = None
    if fname == "range" and len(it.args) == 1:
        bound = it.args[0]
    elif fname == "zip" and it.args and isinstance(
            it.args[0], ast.Call) and isinstance(
                it.args[0].func, ast.Name) and it.args[0].func.id == "range" \
            and len(it.args[0].args) == 1:
        bound = it.args[0].args[0]
    elif fname == "islice" and len(it.args) == 2:
        bound = it.args[1]
    if bound is None:
        return False, ""
    if fn is not None:
        from sa import norm
        bound = norm.expand(fn, bound)  # a hoisted bound: n = 2 * cfg + 2
    names = dotted_in(bound)
    return bool(names) and names <= CONFIG_NAMES, f"bounded by {short(bound)}"


def run(ctx: Context, rep) -> None:
    rep.not_decided = (
        "the numeric read-ahead bounds themselves, memory use, prefetching "
        "inside tf.data; decided: no possibly infinite stream reaches an "
        "eager consumer and every pull loop is bounded by configuration")
    rep.assumptions += [
        "itertools.cycle / tf repeat() are infinite; islice(x, n) and "
        "zip(range(n), x) consume at most n (+0) elements",
        "ThreadPoolExecutor.map and multiprocessing map submit their whole "
        "input eagerly",
        "generators, map, filter, chain, asyncstdlib tools are lazy",
    ]
    rep.rule(
        "C14.lazy",
        "laziness typing: parameters annotated Iterable/AsyncIterable of the "
        "helper generators, itertools.cycle, tf repeat(), and the result of "
        "as_numpy_common (unless called with the literal repeat=False) are "
        "possibly infinite; lazy combinators preserve that, islice(x, n) / "
        "zip(range(n), x) make it finite; no possibly-infinite value may "
        "reach an eager consumer (list, tuple, sorted, set, sum, min, max, "
        "len, star-args, np.array, executor.map / Pool.map, extend, join)")
    scope = helper_functions(ctx) + [ctx.fn(fq) for fq in C.INTERFACES] + [
        ctx.fn(C.COMMON),
        ctx.fn(f"{C.ITER_MOD}:RustGenerator._single_iter"),
        ctx.fn(f"{C.ITER_MOD}:RustGenerator.__call__"),
        ctx.fn(f"{C.ITER_MOD}:DatasetIteration.read_and_decode"),
    ]
    n_sinks = 0
    n_sources = 0
    for fn in scope:
        env: dict = {}
        cfg = ctx.cfg(fn)
        init = {}
        for p in fn.params():
            ann = fn.param_annotation(p)
            if ann is not None and any(
                    k in ast.unparse(ann) for k in ("Iterable", "Iterator")) \
                    and fn in helper_functions(ctx):
                init[p] = frozenset({"inf"})
                # Iterable[Iterable[T]]: the elements are streams themselves
                inner = ann.slice if isinstance(ann, ast.Subscript) else None
                if inner is not None and any(
                        k in ast.unparse(inner)
                        for k in ("Iterable", "Iterator")):
                    init[p] = frozenset({"inf", "inf-elems"})
                n_sources += 1
        tf = TagFlow(cfg, init, hook=inf_hook(ctx, fn, env),
                     iter_elem=lambda t: frozenset({"inf"}) if "inf-elems" in t
                     else frozenset(x for x in t if x != "inf"),
                     store_elem=lambda t: frozenset(
                         ({"inf-elems"} if "inf" in t else set()) |
                         {x for x in t if x not in ("inf", "inf-elems")}))
        for node in cfg.calls():
            args = eager_sink_arg(ctx, fn, node.ast)
            for a in args:
                n_sinks += 1
                tags = tf.tags_at(node, a)
                rep.ob("C14.lazy", "inf" not in tags, loc=fn.loc(node.ast),
                       where=fn.qualname, construct=short(node.ast, 80),
                       message="a possibly infinite stream is consumed "
                       "eagerly here" if "inf" in tags else
                       "eager consumer of a finite value")
    rep.rule(
        "C14.skip",
        "no data-dependent skipping combinator (filter, filterfalse, "
        "dropwhile, groupby, a comprehension / generator expression with an "
        "`if`) is applied to a possibly infinite stream: the number of "
        "source elements consumed per element delivered would be bounded "
        "by the data, not by the configuration")
    SKIPPERS = {"filter", "filterfalse", "dropwhile", "groupby", "unique",
                "compress"}
    n_skip = 0
    for fn in scope:
        cfg = ctx.cfg(fn)
        init = {}
        for p in fn.params():
            ann = fn.param_annotation(p)
            if ann is not None and any(
                    k in ast.unparse(ann) for k in ("Iterable", "Iterator")) \
                    and fn in helper_functions(ctx):
                init[p] = frozenset({"inf"})
        tf = TagFlow(cfg, init, hook=inf_hook(ctx, fn, {}),
                     iter_elem=lambda t: frozenset(x for x in t if x != "inf"))
        for node in cfg.nodes:
            if node.ast is None or node.kind not in ("call", "stmt", "yield",
                                                     "test"):
                continue
            cands = []
            if node.kind == "call":
                f = node.ast.func
                nm = f.id if isinstance(f, ast.Name) else (
                    f.attr if isinstance(f, ast.Attribute) else "")
                if nm in SKIPPERS:
                    cands = [(node.ast, a) for a in node.ast.args]
            else:
                for x in ast.walk(node.ast):
                    if isinstance(x, (ast.GeneratorExp, ast.ListComp,
                                      ast.SetComp, ast.DictComp)):
                        for g in x.generators:
                            if g.ifs:
                                cands.append((x, g.iter))
            for site, arg in cands:
                n_skip += 1
                tags = tf.tags_at(node, arg)
                rep.ob("C14.skip", "inf" not in tags, loc=fn.loc(site),
                       where=fn.qualname, construct=short(site, 80),
                       message="skipping combinator over a possibly infinite "
                       "stream" if "inf" in tags else
                       "skipping combinator over a finite value", sample=False)
    rep.info("C14.skip", f"{n_skip} skipping combinators inspected")
    rep.floor("C14.lazy", n_sinks, 8, "instances")
    rep.info("C14.lazy", f"{n_sources} possibly-infinite parameters, "
             f"{n_sinks} eager consumer arguments inspected in "
             f"{len(scope)} functions")

    rep.rule(
        "C14.bound",
        "every loop that pulls from a possibly infinite source without "
        "yielding in the same round is bounded by configuration only: a for "
        "over range(<config>) / zip(range(<config>), src), or an "
        "enumerate/counter loop with a break under a comparison of the "
        "counter with an expression over configuration names; buffers are "
        "appended to only inside such a bounded prefill")
    n_loops = 0
    for fn in helper_functions(ctx) + [ctx.fn(C.INTERFACES[2])]:
        src_names = {p for p in fn.params() if fn.param_annotation(p) is not None
                     and any(k in ast.unparse(fn.param_annotation(p))
                             for k in ("Iterable", "Iterator"))}
        # names derived from the sources (iter(x), chain(x, ...))
        changed = True
        while changed:
            changed = False
            for n in fn.body_nodes():
                if isinstance(n, (ast.Assign, ast.AnnAssign)) and \
                        n.value is not None and names_in(n.value) & src_names:
                    t = n.targets[0] if isinstance(n, ast.Assign) else n.target
                    if isinstance(t, ast.Name) and t.id not in src_names:
                        src_names.add(t.id)
                        changed = True
        if fn.fq == C.INTERFACES[2]:
            src_names = {"shard_paths_iterator"}
        for lp in [n for n in fn.body_nodes() if isinstance(
                n, (ast.For, ast.AsyncFor, ast.While))]:
            header = lp.iter if not isinstance(lp, ast.While) else lp.test
            pulls_in_header = bool(names_in(header) & src_names)
            body_pulls = [c for s in lp.body for c in ast.walk(s) if isinstance(
                c, ast.Call) and isinstance(c.func, ast.Name) and c.func.id in (
                    "next", "anext") and c.args and names_in(c.args[0]) &
                          src_names]
            if not pulls_in_header and not body_pulls:
                continue
            n_loops += 1
            has_yield = any(isinstance(x, (ast.Yield, ast.YieldFrom))
                            for s in lp.body for x in ast.walk(s))
            bounded = False
            how = ""
            if not isinstance(lp, ast.While):
                it = lp.iter
                b_ok, b_how = bounded_iter(it, fn)
                if b_ok:
                    bounded, how = True, b_how
                elif isinstance(it, ast.Call) and isinstance(
                        it.func, ast.Name) and it.func.id == "enumerate":
                    counter = lp.target.elts[0].id if isinstance(
                        lp.target, ast.Tuple) else None
                    for b in [x for s in lp.body for x in ast.walk(s)
                              if isinstance(x, ast.Break)]:
                        g = parent(b)
                        if isinstance(g, ast.If) and isinstance(
                                g.test, ast.Compare) and len(g.test.ops) == 1 \
                                and dotted(g.test.left) == counter and isinstance(
                                    g.test.ops[0], (ast.Gt, ast.GtE, ast.Eq)):
                            from sa.context import dotted_in
                            bound_names = dotted_in(g.test.comparators[0])
                            bounded = bound_names <= CONFIG_NAMES and bool(
                                bound_names)
                            how = f"break when {short(g.test)}"
            if has_yield:
                ok = True
                how = how or "yields in every pulling round (lazy)"
                # yield must be on the pulling path: a pull in the loop body
                # outside an exhaustion handler needs a yield after it
            else:
                ok = bounded
            rep.ob("C14.bound", ok, loc=fn.loc(lp), where=fn.qualname,
                   construct=short(header, 70) + " :: " + (how or "unbounded"),
                   message="pull loop is lazy or bounded by configuration"
                   if ok else "this loop reads ahead without a "
                   "configuration-only bound")
        # buffers only grow in bounded prefill loops
        for c in fn.calls():
            if isinstance(c.func, ast.Attribute) and c.func.attr == "append" \
                    and dotted(c.func.value) == "buffer":
                lps = [a for a in ancestors(c) if isinstance(
                    a, (ast.For, ast.AsyncFor, ast.While))]
                inner = lps[0] if lps else None
                ok = inner is not None and not isinstance(inner, ast.While) and \
                    bounded_iter(inner.iter, fn)[0]
                rep.ob("C14.bound", ok, loc=fn.loc(c), where=fn.qualname,
                       construct=short(c) + " in " + (short(inner.iter, 50)
                                                      if ok else "<unbounded>"),
                       message="the buffer grows only inside the bounded "
                       "prefill (its size never exceeds the configured "
                       "buffer size)")
    rep.floor("C14.bound", n_loops, 8, "instances")

    rep.rule(
        "C14.config",
        "the degree of read parallelism on the concurrent path comes from "
        "the caller's file_parallelism everywhere: LazyPool size, "
        "round-robin buffer, executor workers and batch size")
    conc = ctx.fn(C.INTERFACES[2])
    checks = {
        "LazyPool(": lambda c: ctx.is_call(conc, c, f"{LP}.LazyPool") and
        dotted(c.args[0] if c.args else ctx.arg(c, None, "threads")) ==
        "file_parallelism",
        "round_robin(buffer_size=": lambda c: ctx.is_call(
            conc, c, "itertools.round_robin") and dotted(ctx.arg(
                c, 1, "buffer_size")) == "file_parallelism",
        "ThreadPoolExecutor(max_workers=": lambda c: ctx.is_call(
            conc, c, "concurrent.futures.ThreadPoolExecutor") and dotted(
                ctx.arg(c, 0, "max_workers")) == "file_parallelism",
    }
    for label, pred in checks.items():
        rep.ob("C14.config", any(pred(c) for c in conc.calls()), loc=conc.loc(),
               where=conc.qualname, construct=label + "file_parallelism)",
               message="bounded by the configured parallelism")
    isl = [c for c in conc.calls() if ctx.is_call(conc, c, "itertools.islice")]
    rep.ob("C14.config", bool(isl) and all(
        dotted(c.args[1]) == "file_parallelism" for c in isl), loc=conc.loc(),
           where=conc.qualname, construct="islice(paths, file_parallelism)",
           message="one batch is file_parallelism shards")
    im = ctx.fn(f"{LP}:LazyPool.imap_unordered")
    lpinit = ctx.fn(f"{LP}:LazyPool.__init__")
    rep.ob("C14.config", any(isinstance(n, (ast.Assign, ast.AnnAssign)) and
                             dotted(n.targets[0] if isinstance(n, ast.Assign)
                                    else n.target) == "self._threads" and
                             "threads" in names_in(n.value)
                             for n in lpinit.body_nodes()), loc=lpinit.loc(),
           where=lpinit.qualname, construct="self._threads = max(1, threads or 1)",
           message="the pool's size is the caller's thread count")

    # the configured parallelism is never raised on the way: a function
    # with a `file_parallelism` parameter may rebind it only to something
    # bounded by it (min(..), `or 1`, //, -), never to max(.., n_shards)
    PARAM_ = "file_parallelism"

    def bounded(e: ast.AST) -> bool:
        if isinstance(e, ast.Name):
            return e.id == PARAM_
        if isinstance(e, ast.Constant):
            return type(e.value) is int and e.value <= 1
        if isinstance(e, ast.Call) and isinstance(e.func, ast.Name) and \
                not e.keywords and e.args:
            if e.func.id == "min":
                return any(bounded(a) for a in e.args)
            if e.func.id == "max":
                return all(bounded(a) for a in e.args)
            if e.func.id == "int" and len(e.args) == 1:
                return bounded(e.args[0])
        if isinstance(e, ast.BoolOp):
            return all(bounded(v) for v in e.values)
        if isinstance(e, ast.IfExp):
            return bounded(e.body) and bounded(e.orelse)
        if isinstance(e, ast.BinOp) and isinstance(
                e.op, (ast.FloorDiv, ast.Sub, ast.RShift)) and isinstance(
                    e.right, ast.Constant) and type(e.right.value) is int \
                and e.right.value >= (1 if isinstance(e.op, ast.FloorDiv)
                                      else 0):
            return bounded(e.left)
        return False

    # the number of shards an interleaving holds open is the configured
    # parallelism in every interface (not the shuffle size, not the number
    # of shards)
    n_rr = 0
    for q_ in C.INTERFACES:
        f_ = ctx.fn(q_)
        for c_ in f_.calls():
            if not ctx.is_call(f_, c_, "itertools.round_robin",
                               "itertools.round_robin_async"):
                continue
            n_rr += 1
            a_ = ctx.arg(c_, 1, "buffer_size")
            rep.ob("C14.config", a_ is not None and bounded(a_),
                   loc=f_.loc(c_), where=f_.qualname,
                   construct="round_robin(buffer_size=" + (
                       short(a_, 40) if a_ is not None else "<default>") + ")",
                   message="the number of shards held open by the "
                   "interleaving is bounded by the caller's file_parallelism")
    rep.ob("C14.config", n_rr >= 2, loc=conc.loc(), where="interfaces",
           construct=f"{n_rr} interleaving call(s)",
           message="interleaving calls of the interfaces inspected")
    # the tf.data interleave width of the TFRecord pipeline: the argument
    # handed to read_and_decode is bounded by file_parallelism (locals with a
    # single definition are read as their value), and read_and_decode hands
    # its parameter on unchanged
    tfd_ = ctx.fn(C.INTERFACES[0])

    def defs_(fn__, name):
        return [n.value for n in fn__.body_nodes() if ((
            isinstance(n, ast.Assign) and any(
                isinstance(t, ast.Name) and t.id == name
                for t in n.targets)) or (
                    isinstance(n, ast.AnnAssign) and isinstance(
                        n.target, ast.Name) and n.target.id == name))
                and n.value is not None]

    def bounded_or_none(e, fn__=None, depth=0):
        # None lets tf.data choose (number of cores): not data dependent; a
        # local is bounded when every one of its definitions is
        if isinstance(e, ast.Constant) and e.value is None:
            return True
        if isinstance(e, ast.Name) and e.id != PARAM_ and fn__ is not None \
                and depth < 4 and e.id not in fn__.params():
            ds = defs_(fn__, e.id)
            return bool(ds) and all(bounded_or_none(v, fn__, depth + 1)
                                    for v in ds)
        if isinstance(e, ast.IfExp):
            return bounded_or_none(e.body, fn__, depth) and \
                bounded_or_none(e.orelse, fn__, depth)
        if isinstance(e, ast.BoolOp):
            return all(bounded_or_none(v, fn__, depth) for v in e.values)
        return bounded(e)

    def expand_(fn__, e, depth=0):
        # for the report only: a single-definition local reads as its value
        if isinstance(e, ast.Name) and e.id != PARAM_:
            ds = defs_(fn__, e.id)
            if len(ds) == 1 and depth < 4:
                return expand_(fn__, ds[0], depth + 1)
        return e

    n_rd = 0
    for c_ in tfd_.calls():
        f__ = c_.func
        if not (isinstance(f__, ast.Attribute) and
                f__.attr == "read_and_decode"):
            continue
        for kwname in ("cycle_length", "num_parallel_calls"):
            a_ = ctx.arg(c_, {"cycle_length": 1,
                              "num_parallel_calls": 2}[kwname], kwname)
            if a_ is None:
                continue
            n_rd += 1
            ex_ = expand_(tfd_, a_)
            rep.ob("C14.config", bounded_or_none(a_, tfd_), loc=tfd_.loc(c_),
                   where=tfd_.qualname,
                   construct=f"read_and_decode({kwname}={short(ex_, 60)})",
                   message="the number of TFRecord files read at once is "
                   "bounded by the caller's file_parallelism (not by the "
                   "number of shards)")
    if n_rd < 2:
        raise AnalysisError("C14.config: read_and_decode call of as_tfdataset "
                            "not found")
    n_par = 0
    for fn_ in ctx.repo.all_functions():
        if isinstance(fn_.node, ast.Lambda) or PARAM_ not in [
                a.arg for a in fn_.node.args.args + fn_.node.args.kwonlyargs]:
            continue
        n_par += 1
        for n in fn_.body_nodes():
            tgt = val = None
            if isinstance(n, ast.Assign) and any(
                    isinstance(t, ast.Name) and t.id == PARAM_
                    for t in n.targets):
                tgt, val = n, n.value
            elif isinstance(n, ast.AnnAssign) and isinstance(
                    n.target, ast.Name) and n.target.id == PARAM_ and n.value:
                tgt, val = n, n.value
            elif isinstance(n, ast.AugAssign) and isinstance(
                    n.target, ast.Name) and n.target.id == PARAM_:
                tgt = n
                val = ast.BinOp(left=ast.Name(id=PARAM_, ctx=ast.Load()),
                                op=n.op, right=n.value)
            elif isinstance(n, ast.NamedExpr) and n.target.id == PARAM_:
                tgt, val = n, n.value
            if tgt is None:
                continue
            rep.ob("C14.config", bounded(val), loc=fn_.loc(tgt),
                   where=fn_.qualname, construct=short(tgt, 70),
                   message="the read parallelism is rebound to a value not "
                   "bounded by the caller's file_parallelism")
    rep.ob("C14.config", n_par >= 4, loc=conc.loc(), where="sedpack.io",
           construct=f"{n_par} function(s) take file_parallelism; none raises it",
           message="functions with the parallelism parameter scanned")
    from sa.rules.c13 import check_consumer
    check_consumer(ctx, rep, "C14.inflight")
    rep.rule(
        "C14.inflight",
        "the lazy pool keeps a bounded number of inputs in flight: after the "
        "configuration-bounded prefill exactly one new input is enqueued "
        "per dequeued result (same structural check as C13.consumer)")
    rustrules.check_pulls(ctx, rep, "C14.rust")
    # the read-ahead of an abandoned pass is released: leaving the pool's
    # context always stops the workers (same rule as C13.reset for __exit__)
    from sa.rules.c13 import check_exit_resets
    rep.rule("C14.release", "LazyPool.__exit__ calls finish_and_reset "
             "unconditionally, first")
    check_exit_resets(ctx, rep, "C14.release")
    from sa.rules import shared as _sh14
    _sh14.check_bounded_buffers(ctx, rep, "C14.buffers")
    # taking finitely many examples terminates: a failing worker reports to
    # the consumer instead of dying silently (same check as C13.worker)
    from sa.rules.c07 import check_worker as _cw14
    _cw14(ctx, rep, "C14.worker")
    # typestate of the native iterator handle: Python reference counting
    # does not release the Rust side (STATIC_ITERATORS keeps the worker
    # threads and their read-ahead alive), so a live handle is only dropped
    # or replaced after its __exit__ ran
    rep.rule(
        "C14.rust-release",
        "in RustGenerator every store to the handle field that can execute "
        "while a handle is live (CFG specialised on `handle is not None`) is "
        "preceded on every path by handle.__exit__(...)")
    from sa.cfg import TRUTHY as _T
    rg = ctx.repo.cls(f"{C.ITER_MOD}:RustGenerator")
    # the handle field: the attribute assigned from _sedpack_rs.RustIter(...)
    handle = None
    for m in rg.methods.values():
        for n in m.body_nodes():
            if isinstance(n, (ast.Assign, ast.AnnAssign)) and isinstance(
                    n.value, ast.Call) and (dotted(n.value.func) or "").endswith(
                        "RustIter"):
                t = n.targets[0] if isinstance(n, ast.Assign) else n.target
                handle = dotted(t)
    if handle is None or not handle.startswith("self."):
        raise AnalysisError("C14.rust-release: RustIter handle field not found")
    n_st = 0
    for m in rg.methods.values():
        if m.qualname.endswith("__init__") or isinstance(m.node, ast.Lambda):
            continue
        mcfg = ctx.cfg(m, {handle: _T})
        stores = [n for n in mcfg.find(lambda n: n.kind == "stmt") if isinstance(
            n.ast, (ast.Assign, ast.AnnAssign)) and any(
                dotted(t) == handle for t in (
                    n.ast.targets if isinstance(n.ast, ast.Assign)
                    else [n.ast.target]))]
        exits = mcfg.calls(lambda c: isinstance(c.func, ast.Attribute) and
                           c.func.attr == "__exit__" and
                           dotted(c.func.value) == handle)
        for s in stores:
            n_st += 1
            leak = mcfg.always_before(exits, [s], normal_only=True)
            rep.ob("C14.rust-release", not leak, loc=m.loc(s.ast),
                   where=m.qualname, construct=short(s.ast, 60),
                   message="a live native iterator is dropped / replaced "
                   "without __exit__: its worker threads and read-ahead stay "
                   "registered on the Rust side",
                   path=mcfg.describe_path(mcfg.path_to(s, avoiding=exits))
                   if leak else "")
    rep.floor("C14.rust-release", n_st, 1, "stores to the handle outside __init__")
    # nothing read from the dataset's files / the environment is memoised
    from sa.rules import shared as _shm
    _shm.check_no_memo(ctx, rep, "C14.memo")
    # the path stream of every interface has the frozen lazy shape (same
    # check as C02.batch): an epoch loop over an empty selection never yields
    from sa.rules import shared as _sh14b
    _sh14b.share_rules(ctx, rep, "c02", {"C02.batch": "C14.stream"})
    # dropping a partly consumed native iterator terminates: workers are
    # told to stop before they are joined (same check as C15.drop)
    rustrules.check_drop(ctx, rep, "C14.rust-drop")

_IT = "src/sedpack/io/itertools/itertools.py"
_DI = "src/sedpack/io/dataset_iteration.py"
_LPF = "src/sedpack/io/itertools/lazy_pool.py"
SELFTESTS = [
    dict(rule="C14.config", name="tfrec-width-number-of-shards", expect="fire", path=_DI,
         old="            cycle_length=file_parallelism if shuffle else 1,",
         new="            cycle_length=(file_parallelism or len(shard_paths)) if shuffle else 1,"),
    dict(rule="C14.config", name="tfrec-width-min-twin", expect="silent", path=_DI,
         old="            cycle_length=file_parallelism if shuffle else 1,",
         new="            cycle_length=(file_parallelism or 1) if shuffle else 1,"),
    dict(rule="C14.rust-release", name="handle-dropped-without-exit", expect="fire", path=_DI,
         old="        yield from self._single_iter()\n        while self._repeat:",
         new="        self._rust_iter = None\n        yield from self._single_iter()\n        while self._repeat:"),
    dict(rule="C14.config", name="parallelism-raised-to-shard-count", expect="fire", path=_DI,
         old="        with RustGenerator(\n                dataset=self,",
         new="        if shards:\n            file_parallelism = max(file_parallelism, shards)\n        with RustGenerator(\n                dataset=self,"),
    dict(rule="C14.config", name="parallelism-lowered-to-shard-count-twin", expect="silent", path=_DI,
         old="        with RustGenerator(\n                dataset=self,",
         new="        if shards:\n            file_parallelism = min(file_parallelism, shards)\n        with RustGenerator(\n                dataset=self,"),
    dict(rule="C14.lazy", name="list-in-helper", expect="fire", path=_IT,
         old="    # Otherwise the first elements of a list would be iterated multiple times.\n    iterable = iter(iterable)\n\n    # Fill the buffer.\n    buffer: list[T] = []\n    for _, item in zip(range(buffer_size), iterable):",
         new="    iterable = iter(list(iterable))\n\n    # Fill the buffer.\n    buffer: list[T] = []\n    for _, item in zip(range(buffer_size), iterable):"),
    dict(rule="C14.lazy", name="executor-map-whole-stream", expect="fire", path=_DI,
         old="                    batch = list(\n                        itertools.islice(shard_paths_iterator,\n                                         file_parallelism))\n                    while batch:",
         new="                    if not repeat:\n                        yield from itertools.chain.from_iterable(executor.map(shard_iterator.process_and_list, shard_paths_iterator))\n                        return\n                    batch = list(\n                        itertools.islice(shard_paths_iterator,\n                                         file_parallelism))\n                    while batch:"),
    dict(rule="C14.lazy", name="rust-epoch-repeat-forwarded", expect="fire", path=_DI,
         old="                    repeat=False,\n                    shuffle=self._shuffle,\n                ))",
         new="                    repeat=self._repeat,\n                    shuffle=self._shuffle,\n                ))"),
    dict(rule="C14.lazy", name="list-of-islice-twin", expect="silent", path=_IT,
         old="    for _, item in zip(range(buffer_size), iterable):\n        buffer.append(item)\n\n    # Iterate and keep filling the buffer.\n    r = initial_random_state()\n    while True:\n        try:\n            new_element = next(iterable)",
         new="    import itertools\n    for item in list(itertools.islice(iterable, buffer_size)):\n        buffer.append(item)\n\n    # Iterate and keep filling the buffer.\n    r = initial_random_state()\n    while True:\n        try:\n            new_element = next(iterable)"),
    dict(rule="C14.skip", name="groupby-on-cycled-stream", expect="fire", path=_DI,
         old="        return shard_paths_iterator\n\n    def as_numpy_iterator_concurrent(",
         new="        if repeat:\n            shard_paths_iterator = (p for p, _ in itertools.groupby(shard_paths_iterator))\n        return shard_paths_iterator\n\n    def as_numpy_iterator_concurrent("),
    dict(rule="C14.bound", name="prefill-bounded-by-data", expect="fire", path=_LPF,
         old="            if i > 2 * self._threads:\n                break",
         new="            if i > 2 * self._threads and isinstance(element, StopSentinel):\n                break"),
    dict(rule="C14.bound", name="prefill-ge-twin", expect="silent", path=_LPF,
         old="            if i > 2 * self._threads:\n                break",
         new="            if i >= 2 * self._threads + 1:\n                break"),
    dict(rule="C14.bound", name="prefill-no-break", expect="fire", path=_LPF,
         old="            if i > 2 * self._threads:\n                break", new="            pass"),
    dict(rule="C14.inflight", name="extra-enqueue-when-idle", expect="fire", path=_LPF,
         old="            try:\n                # Avoid pydantic stop-iteration-return warning.\n                self._to_process.put(next(iterator_with_stops))",
         new="            if self._active_threads > 1:\n                self._to_process.put(next(iterator_with_stops))\n            try:\n                # Avoid pydantic stop-iteration-return warning.\n                self._to_process.put(next(iterator_with_stops))"),
    dict(rule="C14.config", name="pool-size-cpu-count", expect="fire", path=_DI,
         old="                with LazyPool(file_parallelism) as pool:",
         new="                with LazyPool(os.cpu_count()) as pool:"),
]
