"""C15 - the Rust reader vs the Python reader: structural clauses."""
from __future__ import annotations

import ast

from sa import norm
from sa.context import Context, names_in
from sa.model import AnalysisError, dotted, short
from sa.rules import common as C
from sa.rules import rustrules
from sa.rules.c01 import python_codec_tables

RG = f"{C.ITER_MOD}:RustGenerator"


def check_release(ctx: Context, rep, rule: str) -> None:
    rep.rule(
        rule,
        "the native iterator is always released: as_numpy_iterator_rust "
        "uses RustGenerator as a context manager around the generator it "
        "yields from (so abandoning the iteration runs __exit__), and "
        "RustGenerator.__exit__ forwards to the live native iterator's "
        "__exit__, which removes the Rust state and joins its threads")
    fn = ctx.fn(f"{C.ITER_MOD}:DatasetIteration.as_numpy_iterator_rust")
    ctor = [c for c in fn.calls() if any(
        t.kind == "class" and t.cls.name == "RustGenerator"
        for t in ctx.res.resolve_call(fn, c, count=False))]
    if not ctor:
        raise AnalysisError("C15.release: RustGenerator construction not "
                            "found in as_numpy_iterator_rust")
    withs = [w for w in fn.body_nodes() if isinstance(w, (ast.With,
                                                         ast.AsyncWith))]
    for c in ctor:
        w = next((w for w in withs if any(it.context_expr is c
                                          for it in w.items)), None)
        ok = w is not None
        if ok:
            var = next(it.optional_vars for it in w.items
                       if it.context_expr is c)
            ok = isinstance(var, ast.Name) and any(
                isinstance(y, ast.YieldFrom) and isinstance(
                    y.value, ast.Call) and dotted(y.value.func) == var.id
                for s in w.body for y in ast.walk(s))
        rep.ob(rule, ok, loc=fn.loc(c), where=fn.qualname,
               construct="with RustGenerator(...) as g: yield from g()",
               message="the generator is consumed inside the `with` block "
               "of its RustGenerator")
    ex = ctx.fn(f"{RG}.__exit__")
    calls = [c for c in ex.calls() if isinstance(c.func, ast.Attribute) and
             c.func.attr == "__exit__" and dotted(c.func.value) ==
             "self._rust_iter"]
    # with a live handle (CFG specialised on `self._rust_iter` set) every
    # normal path through __exit__ calls the handle's __exit__
    from sa.cfg import TRUTHY as _TR
    xcfg = ctx.cfg(ex, {"self._rust_iter": _TR})
    xcalls = xcfg.calls(lambda c: any(c is k for k in calls))
    skipped = not xcalls or xcfg.exit in xcfg.reachable(
        [xcfg.entry], avoiding=xcalls,
        follow=lambda a, b, lab: lab not in ("exc", "raise"))
    rep.ob(rule, len(calls) == 1 and not skipped, loc=ex.loc(),
           where=ex.qualname,
           construct="if self._rust_iter is not None: "
           "self._rust_iter.__exit__(...)",
           message="a live native iterator is released on exit")
    en = ctx.fn(f"{RG}.__enter__")
    rep.ob(rule, any(isinstance(n, ast.Return) and dotted(n.value) == "self"
                     for n in en.body_nodes()), loc=en.loc(), where=en.qualname,
           construct="return self", message="the context manager yields the "
           "generator object itself")


def check_epoch(ctx: Context, rep, rule: str) -> None:
    from sa.norm import expand
    single = ctx.fn(f"{RG}._single_iter")
    cls = single.cls
    # the construction may sit in _single_iter or in a private helper of the
    # class that _single_iter calls
    sites = [(m, c) for m in cls.methods.values() for c in m.calls()
             if ast.unparse(c.func).endswith("_sedpack_rs.RustIter")]
    if len(sites) != 1:
        raise AnalysisError(f"{rule}: RustIter construction not found "
                            f"({len(sites)} sites)")
    owner, c = sites[0]
    if owner is not single and not any(
            t is owner for call in single.calls()
            for t in ctx.internal_targets(single, call)):
        raise AnalysisError(f"{rule}: {owner.qualname} builds the native "
                            "iterator but _single_iter does not call it")
    kw = {k.arg: k.value for k in c.keywords}
    rep.ob(rule, isinstance(kw.get("repeat"), ast.Constant) and
           kw["repeat"].value is False, loc=owner.loc(c),
           where=owner.qualname,
           construct=f"RustIter(repeat={short(kw.get('repeat'))})",
           message="literal repeat=False")
    comp = ast.unparse(expand(owner, kw.get("compression")) or ast.Constant(0))
    rep.ob(rule, "dataset_structure.compression" in comp,
           loc=owner.loc(c), where=owner.qualname,
           construct=f"compression={short(kw.get('compression'))}",
           message="the decoder is chosen by the dataset's own compression")
    rep.ob(rule, ast.unparse(expand(owner, kw.get("threads")) or
                             ast.Constant(0)) == "self._file_parallelism",
           loc=owner.loc(c), where=owner.qualname,
           construct=f"threads={short(kw.get('threads'))}",
           message="thread count comes from the caller's file_parallelism")
    fdef = expand(owner, kw.get("files"))
    ok_files = isinstance(fdef, ast.Call) and isinstance(
        fdef.func, ast.Name) and fdef.func.id == "list" and len(
            fdef.args) == 1 and isinstance(fdef.args[0], ast.Call) and \
        ast.unparse(fdef.args[0].func).endswith("as_numpy_common") and \
        "self." not in ast.unparse(fdef.args[0].func).replace(
            "self._dataset.", "")
    rep.ob(rule, bool(ok_files), loc=owner.loc(c), where=owner.qualname,
           construct=f"files={short(fdef, 60)}",
           message="the native reader gets every selected shard path, in "
           "order, computed freshly for this epoch")
    # the freshly built iterator becomes self._rust_iter when there is none
    assigns = [n for n in single.body_nodes() if isinstance(n, ast.Assign) and
               dotted(n.targets[0]) == "self._rust_iter" and not (
                   isinstance(n.value, ast.Constant) and n.value.value is None)]
    ok_new = len(assigns) == 1 and (
        assigns[0].value is c or any(
            t is owner for t in ctx.internal_targets(single, assigns[0].value))
        if isinstance(assigns[0].value, ast.Call) else False)
    guard = None
    if assigns:
        from sa.model import ancestors
        guard = next((a for a in ancestors(assigns[0]) if isinstance(a, ast.If)),
                     None)
    ok_new = ok_new and guard is not None and ast.unparse(guard.test) == \
        "self._rust_iter is None"
    rep.ob(rule, bool(ok_new), loc=single.loc(assigns[0]) if assigns else
           single.loc(), where=single.qualname,
           construct="if self._rust_iter is None: self._rust_iter = <new "
           "native iterator>",
           message="an epoch without a live iterator builds a new one")
    # epoch: after the pass the iterator is dropped and forgotten
    tail = [n for n in single.node.body[-2:]]
    ok_tail = len(tail) == 2 and "__exit__" in ast.unparse(tail[0]) and \
        isinstance(tail[1], ast.Assign) and ast.unparse(tail[1]) == \
        "self._rust_iter = None"
    rep.ob(rule, ok_tail, loc=single.loc(tail[0]), where=single.qualname,
           construct="; ".join(short(t) for t in tail),
           message="each epoch ends by releasing the native iterator so the "
           "next epoch builds a fresh one")


def run(ctx: Context, rep) -> None:
    rep.not_decided = (
        "equality of the two readers' outputs on real data, behaviour under "
        "actual worker timing, liveness of an early drop at run time; the "
        "rules below decide the protocol's shape (rotation, drop order, "
        "cursor, tables), which is a necessary condition")
    rep.assumptions += [
        "std::sync::mpsc channels are FIFO per sender/receiver pair",
        "Rust analysed at syntax level (syn), impl/trait qualified; no type "
        "resolution",
    ]
    py_family, _ = python_codec_tables(ctx)
    rustrules.check_rust_codec(ctx, rep, "C15.tables", py_family)
    rustrules.check_vtables(ctx, rep, "C15.vtable")
    rustrules.check_rotation(ctx, rep, "C15.rot")
    rustrules.check_drop(ctx, rep, "C15.drop")
    rustrules.check_channels(ctx, rep, "C15.channels")
    check_release(ctx, rep, "C15.release")
    rustrules.check_cursor(ctx, rep, "C15.cursor")
    rustrules.check_static_map(ctx, rep, "C15.map")

    # Python side ---------------------------------------------------------
    rep.rule(
        "C15.supported",
        "the compression names accepted for the native path are read from "
        "the native module's supported_compressions() and tested before the "
        "iterator is built")
    rust_if = ctx.fn(f"{C.ITER_MOD}:DatasetIteration.as_numpy_iterator_rust")
    sup = [c for c in rust_if.calls() if isinstance(c.func, ast.Attribute) and
           c.func.attr == "supported_compressions" and "_sedpack_rs" in
           ast.unparse(c.func)]
    guard = None
    for n in rust_if.body_nodes():
        if isinstance(n, ast.If) and isinstance(n.test, ast.Compare) and \
                isinstance(n.test.ops[0], ast.NotIn) and "compression" in \
                ast.unparse(n.test.left):
            guard = n
    from sa.context import raises_in
    rep.ob("C15.supported", bool(sup) and guard is not None and
           raises_in(guard.body), loc=rust_if.loc(guard) if guard else
           rust_if.loc(), where=rust_if.qualname,
           construct=short(guard.test) if guard else "<none>",
           message="unsupported compressions are refused with an error")
    fb_guard = [n for n in rust_if.body_nodes() if isinstance(n, ast.If) and
                "shard_file_type" in ast.unparse(n.test) and raises_in(n.body)]
    rep.ob("C15.supported", bool(fb_guard), loc=rust_if.loc(),
           where=rust_if.qualname,
           construct=short(fb_guard[0].test) if fb_guard else "<none>",
           message="only FlatBuffers datasets reach the native reader")

    rep.rule(
        "C15.repeat",
        "the native iterator is constructed with the literal repeat=False "
        "(the Rust side asserts it), from the complete path list, with the "
        "dataset's compression and the configured thread count; the epoch "
        "loop re-creates it after each pass")
    rustrules.check_repeat_assert(ctx, rep, "C15.repeat")
    check_epoch(ctx, rep, "C15.repeat")
    single = ctx.fn(f"{RG}._single_iter")

    rep.rule(
        "C15.decode",
        "the native path re-types each byte vector with the dtype and shape "
        "of the attribute at the same position of saved_data_description "
        "(zip in declaration order) through the same decode_array the "
        "Python reader uses, and applies it to every example")
    init = ctx.fn(f"{RG}.__init__")
    # the decoder is whatever `map(self.<decoder>, ...)` in the iterator
    # function names: a method, or a closure stored by __init__
    mod = ctx.repo.module(C.ITER_MOD)
    dec_names = [c.args[0].attr for c in single.calls() if isinstance(
        c.func, ast.Name) and c.func.id == "map" and len(c.args) == 2 and
        isinstance(c.args[0], ast.Attribute) and dotted(c.args[0].value) ==
        "self"]
    to_dict = None
    for dn in dec_names:
        to_dict = mod.functions.get(f"RustGenerator.{dn}")
        if to_dict is None:
            for n in init.body_nodes():
                if isinstance(n, ast.Assign) and dotted(
                        n.targets[0]) == f"self.{dn}" and isinstance(
                            n.value, ast.Name):
                    to_dict = mod.functions.get(
                        f"RustGenerator.__init__.<locals>.{n.value.id}")
        if to_dict is not None and any(
                "_rust_iter" in ast.unparse(c.args[1]) for c in single.calls()
                if isinstance(c.func, ast.Name) and c.func.id == "map" and
                len(c.args) == 2 and dotted(c.args[0]) == f"self.{dn}"):
            dec_names = [dn]
            break
        to_dict = None
    if to_dict is None:
        raise AnalysisError("C15.decode: decoder mapped over the native "
                            "iterator not found")
    dparams = [p for p in to_dict.params() if p != "self"]
    # the pairing: `for v, a in zip(example, declarations)` as a loop or as
    # the generator of a dict comprehension
    pair = None  # (zip call, target tuple, key expr or None, where)
    for n in to_dict.body_nodes():
        if isinstance(n, ast.For) and isinstance(n.target, ast.Tuple):
            pair = (n.iter, n.target, None, n)
            break
        if isinstance(n, ast.DictComp) and len(n.generators) == 1 and \
                isinstance(n.generators[0].target, ast.Tuple) and \
                not n.generators[0].ifs:
            pair = (n.generators[0].iter, n.generators[0].target, n.key, n)
            break
    ok = False
    construct = "<none>"
    if pair is not None:
        it = pair[0]
        construct = short(it, 90)
        if isinstance(it, ast.Call) and isinstance(
                it.func, ast.Name) and it.func.id == "zip" and len(it.args) == 2:
            a0, a1 = it.args
            ok = isinstance(a0, ast.Name) and a0.id == dparams[0] and \
                norm.canon(to_dict, a1).endswith("saved_data_description")
    rep.ob("C15.decode", ok, loc=to_dict.loc(), where=to_dict.qualname,
           construct=construct,
           message="byte vectors are paired with attribute declarations "
           "positionally, over the full declaration list")
    dec = [c for c in to_dict.calls() if ast.unparse(c.func).endswith(
        "decode_array")]
    ok_dec = False
    if dec and pair is not None and len(pair[1].elts) == 2 and all(
            isinstance(e, ast.Name) for e in pair[1].elts):
        t0, t1 = [e.id for e in pair[1].elts]
        kwd = {k.arg: k.value for k in dec[0].keywords}
        ok_dec = dotted(kwd.get("np_bytes")) == t0 and dotted(
            kwd.get("attribute")) == t1 and (
                "batch_size" not in kwd or (isinstance(
                    kwd["batch_size"], ast.Constant) and kwd["batch_size"].value == 0))
        # stored under the attribute's name
        if pair[2] is not None:
            ok_dec = ok_dec and ast.unparse(pair[2]) == f"{t1}.name" and any(
                x is dec[0] for x in ast.walk(pair[3].value))
        else:
            stores = [n for n in to_dict.body_nodes() if isinstance(n, ast.Assign)
                      and isinstance(n.targets[0], ast.Subscript)]
            ok_dec = ok_dec and any(
                ast.unparse(s.targets[0].slice) == f"{t1}.name" for s in stores)
            # every value stored for an attribute went through decode_array
            # (re-typing AND reshape): no fast path that stores the raw vector
            raw = [s for s in stores if not any(
                x is d for d in dec for x in ast.walk(
                    norm.expand(to_dict, s.value)))
                   and not any(ast.unparse(x.func).endswith("decode_array")
                               for x in ast.walk(norm.expand(to_dict, s.value))
                               if isinstance(x, ast.Call))]
            for s in raw:
                rep.ob("C15.decode", False, loc=to_dict.loc(s),
                       where=to_dict.qualname, construct=short(s, 80),
                       message="an attribute value is stored without "
                       "decode_array (dtype and shape of the declaration are "
                       "not applied)")
    rep.ob("C15.decode", ok_dec, loc=to_dict.loc(dec[0]) if dec else
           to_dict.loc(), where=to_dict.qualname,
           construct=short(dec[0], 100) if dec else "<none>",
           message="decode_array(np_bytes=<vector>, attribute=<its "
           "declaration>) stored under the attribute's name")
    # every example is a fresh object: the decoder returns a dictionary it
    # created in this call (a closure / instance dictionary reused for every
    # example makes all yielded examples the same object)
    rets = [r for r in to_dict.body_nodes() if isinstance(r, ast.Return)]
    own = {}
    for n in to_dict.body_nodes():
        if isinstance(n, (ast.Assign, ast.AnnAssign)) and n.value is not None:
            t = n.targets[0] if isinstance(n, ast.Assign) else n.target
            if isinstance(t, ast.Name):
                own.setdefault(t.id, []).append(n.value)

    def fresh(e) -> bool:
        if isinstance(e, (ast.Dict, ast.DictComp)):
            return True
        if isinstance(e, ast.Call) and isinstance(e.func, ast.Name) and \
                e.func.id in ("dict", "OrderedDict"):
            return True
        if isinstance(e, ast.Name):
            return e.id in own and all(fresh(v) for v in own[e.id])
        return False

    if pair is not None and pair[2] is None:
        rep.ob("C15.decode", bool(rets) and all(
            r.value is not None and fresh(r.value) for r in rets),
               loc=to_dict.loc(rets[0]) if rets else to_dict.loc(),
               where=to_dict.qualname,
               construct="return " + (short(rets[0].value, 40) if rets and
                                      rets[0].value is not None else "<none>"),
               message="the decoder returns a dictionary created in this call "
               "(not one shared between examples)")
    # the native reader gets at least one thread: the thread count handed to
    # RustIter / RustGenerator has lower bound >= 1 (threads = 0 panics inside
    # the native constructor while the registry mutex is held)
    from sa.rules import shared as _sh15
    rust_fn = ctx.fn(C.INTERFACES[4])
    for fn_ in (rust_fn, single, init):
        for n in fn_.body_nodes():
            tgt = None
            if isinstance(n, ast.Assign) and len(n.targets) == 1:
                tgt = n.targets[0]
            elif isinstance(n, ast.AnnAssign) and n.value is not None:
                tgt = n.target
            if tgt is not None and (dotted(tgt) or "").split(".")[-1].lstrip(
                    "_") == "file_parallelism" and fn_ is rust_fn:
                lb = _sh15.lower_bound(fn_, n.value)
                rep.ob("C15.threads", lb is not None and lb >= 1,
                       loc=fn_.loc(n), where=fn_.qualname,
                       construct=short(n, 70),
                       message="the thread count of the native reader must "
                       f"stay >= 1 (lower bound here: {lb})")
        for c_ in fn_.calls():
            nm = dotted(c_.func) or ""
            kw = "threads" if nm.endswith("RustIter") else (
                "file_parallelism" if nm.endswith("RustGenerator") else None)
            if kw is None:
                continue
            a_ = ctx.arg(c_, None, kw)
            if a_ is None:
                continue
            lb = _sh15.lower_bound(fn_, a_)
            rep.ob("C15.threads", lb is not None and lb >= 1, loc=fn_.loc(c_),
                   where=fn_.qualname, construct=f"{kw}={short(a_, 50)}",
                   message="the thread count of the native reader must stay "
                   f">= 1 (lower bound here: {lb})")
    rep.rule("C15.threads", "interval lower bound (file_parallelism >= 1) of "
             "every value that becomes the native reader's thread count is "
             ">= 1")
    # map(self._to_dict, iter(self._rust_iter))
    maps = [c for c in single.calls() if isinstance(c.func, ast.Name) and
            c.func.id == "map" and len(c.args) == 2 and
            dotted(c.args[0]) in [f"self.{d}" for d in dec_names]]
    rep.ob("C15.decode", len(maps) == 1 and "self._rust_iter" in
           ast.unparse(maps[0].args[1]) if maps else False,
           loc=single.loc(maps[0]) if maps else single.loc(),
           where=single.qualname,
           construct=short(maps[0]) if maps else "<none>",
           message="every native example goes through the decoder once")
    # nothing read from the dataset's files / the environment is memoised
    from sa.rules import shared as _shm
    _shm.check_no_memo(ctx, rep, "C15.memo")
    _shm.check_assert_pure(ctx, rep, "C15.assert")
    # the native reader's unit of work: one shard per task, opened (not
    # decoded) in the worker, with the caller's thread count (same check as
    # C14.rust)
    rustrules.check_pulls(ctx, rep, "C15.pulls")

_PM = "rust/src/parallel_map.rs"
_EI = "rust/src/example_iteration.rs"
_DI = "src/sedpack/io/dataset_iteration.py"
SELFTESTS = [
    dict(rule="C15.decode", name="one-dict-for-all-examples", expect="fire", path=_DI,
         old="        def to_dict(example: list[np.typing.NDArray[np.uint8]]) -> ExampleT:\n            result: ExampleT = {}\n",
         new="        result: ExampleT = {}\n\n        def to_dict(example: list[np.typing.NDArray[np.uint8]]) -> ExampleT:\n"),
    dict(rule="C15.threads", name="threads-capped-by-shards-may-be-zero", expect="fire", path=_DI,
         old="        with RustGenerator(\n                dataset=self,",
         new="        if shards is not None:\n            file_parallelism = min(file_parallelism, shards)\n        with RustGenerator(\n                dataset=self,"),
    dict(rule="C15.threads", name="threads-capped-at-least-one-twin", expect="silent", path=_DI,
         old="        with RustGenerator(\n                dataset=self,",
         new="        if shards:\n            file_parallelism = max(1, min(file_parallelism, shards))\n        with RustGenerator(\n                dataset=self,"),
    dict(rule="C15.decode", name="uint8-fast-path-skips-decode", expect="fire", path=_DI,
         old="                result[attribute.name] = IterateShardFlatBuffer.decode_array(",
         new="                if attribute.dtype == \"uint8\":\n                    result[attribute.name] = np_bytes\n                    continue\n                result[attribute.name] = IterateShardFlatBuffer.decode_array("),
    dict(rule="C15.rot", name="send-to-next-worker", expect="fire", path=_PM,
         old="let _ = self.communication[self.now].send.send(self.iter.next());",
         new="let _ = self.communication[(self.now + 1) % self.communication.len()].send.send(self.iter.next());"),
    dict(rule="C15.rot", name="alias-twin", expect="silent", path=_PM,
         old="        let result = self.communication[self.now].receive.recv().unwrap_or_default();\n\n        // Some(task) means more work for the thread, None means the thread should finish.\n        let _ = self.communication[self.now].send.send(self.iter.next());",
         new="        let i = self.now;\n        let result = self.communication[i].receive.recv().unwrap_or_default();\n        let _ = self.communication[i].send.send(self.iter.next());"),
    dict(rule="C15.rot", name="advance-by-two", expect="fire", path=_PM,
         old="self.now = (self.now + 1) % self.communication.len();",
         new="self.now = (self.now + 2) % self.communication.len();"),
    dict(rule="C15.rot", name="advance-before-refill", expect="fire", path=_PM,
         old="        let _ = self.communication[self.now].send.send(self.iter.next());\n\n        // Move to the next thread (which should be finishing soonest if all tasks take\n        // the same time).\n        self.now = (self.now + 1) % self.communication.len();\n",
         new="        self.now = (self.now + 1) % self.communication.len();\n        let _ = self.communication[self.now].send.send(self.iter.next());\n"),
    dict(rule="C15.rot", name="dispatch-to-thread-zero", expect="fire", path=_PM,
         old="let _ = communication[t].send.send(next_task);",
         new="let _ = communication[0].send.send(next_task);"),
    dict(rule="C15.rot", name="start-at-one", expect="fire", path=_PM,
         old="ParallelMap { now: 0, iter, communication, handles }",
         new="ParallelMap { now: 1, iter, communication, handles }"),
    dict(rule="C15.drop", name="join-before-stop", expect="fire", path=_PM,
         old="        // Send end of communication to all threads.\n        for communication in &self.communication {\n            let _ = communication.send.send(None);\n        }\n        self.communication.clear();\n\n        // Join all threads.\n        while let Some(handle) = self.handles.pop() {\n            let _ = handle.join();\n        }\n",
         new="        while let Some(handle) = self.handles.pop() {\n            let _ = handle.join();\n        }\n        for communication in &self.communication {\n            let _ = communication.send.send(None);\n        }\n        self.communication.clear();\n"),
    dict(rule="C15.drop", name="drop-instead-of-clear-twin", expect="silent", path=_PM,
         old="        for communication in &self.communication {\n            let _ = communication.send.send(None);\n        }\n        self.communication.clear();\n",
         new="        drop(std::mem::take(&mut self.communication));\n"),
    dict(rule="C15.rot", name="recv-with-timeout", expect="fire", path=_PM,
         old="self.communication[self.now].receive.recv().unwrap_or_default();",
         new="self.communication[self.now].receive.recv_timeout(std::time::Duration::from_secs(10)).unwrap_or_default();"),
    dict(rule="C15.channels", name="rendezvous-channels", expect="fire", path=_PM,
         old="let (tx_item, rx_item) = std::sync::mpsc::channel::<Option<Item>>();",
         new="let (tx_item, rx_item) = std::sync::mpsc::sync_channel::<Option<Item>>(0);"),
    dict(rule="C15.release", name="generator-without-with", expect="fire", path=_DI,
         old="        with RustGenerator(\n                dataset=self,\n                split=split,\n                process_record=process_record,\n                shards=shards,\n                shard_filter=shard_filter,\n                repeat=repeat,\n                file_parallelism=file_parallelism,\n                shuffle=shuffle,\n        ) as rust_generator:\n            yield from rust_generator()",
         new="        rust_generator = RustGenerator(\n                dataset=self,\n                split=split,\n                process_record=process_record,\n                shards=shards,\n                shard_filter=shard_filter,\n                repeat=repeat,\n                file_parallelism=file_parallelism,\n                shuffle=shuffle,\n        )\n        yield from rust_generator()"),
    dict(rule="C15.cursor", name="cursor-gt", expect="fire", path=_EI,
         old="if self.used_examples >= self.total_examples {",
         new="if self.used_examples > self.total_examples {"),
    dict(rule="C15.cursor", name="increment-before-read", expect="fire", path=_EI,
         old="        let res = get_example(self.used_examples, self);\n        self.used_examples += 1;\n",
         new="        self.used_examples += 1;\n        let res = get_example(self.used_examples, self);\n"),
    dict(rule="C15.tables", name="zlib-decoder-for-zlib", expect="fire", path=_EI,
         old="        CompressionType::Gzip | CompressionType::Zlib => {\n            read_to_end(flate2::read::GzDecoder::new(open_file))\n        }\n",
         new="        CompressionType::Gzip => read_to_end(flate2::read::GzDecoder::new(open_file)),\n        CompressionType::Zlib => read_to_end(flate2::read::ZlibDecoder::new(open_file)),\n"),
    dict(rule="C15.tables", name="display-name-mismatch", expect="fire", path=_EI,
         old='CompressionType::Zlib => write!(f, "ZLIB"),',
         new='CompressionType::Zlib => write!(f, "ZIP"),'),
    dict(rule="C15.vtable", name="rust-slot-changed", expect="fire",
         path="rust/src/shard_generated.rs",
         old="pub const VT_ATTRIBUTES: flatbuffers::VOffsetT = 4;",
         new="pub const VT_ATTRIBUTES: flatbuffers::VOffsetT = 6;"),
    dict(rule="C15.repeat", name="repeat-forwarded-to-native", expect="fire", path=_DI,
         old="                files=shard_paths,\n                repeat=False,",
         new="                files=shard_paths,\n                repeat=self._repeat,"),
    dict(rule="C15.repeat", name="iterator-reused-across-epochs", expect="fire", path=_DI,
         old="        self._rust_iter.__exit__(None, None, None)\n        self._rust_iter = None\n",
         new="        self._rust_iter.__exit__(None, None, None)\n"),
    dict(rule="C15.decode", name="zip-sorted-attributes", expect="fire", path=_DI,
         old="                    example, dataset.dataset_structure.saved_data_description):",
         new="                    example, sorted(dataset.dataset_structure.saved_data_description, key=lambda a: a.name)):"),
]
