"""E4 - interprocedural constant specialisation of the iteration interfaces.

`residual(ctx, fn, env)` returns every call that stays reachable when `fn`
runs with the given constants, following literal / constant-evaluable
arguments into internal callees (depth <= 4) and constructor arguments into
the fields of the constructed object (fields assigned once in __init__ from
a parameter are aliases of that parameter)."""
from __future__ import annotations

import ast
from dataclasses import dataclass

from sa.cfg import CFG, FALSY, TRUTHY, UNKNOWN, Node, const_eval
from sa.context import Context
from sa.model import FunctionInfo, dotted
from sa.rules.common import passed_expr


@dataclass
class Residual:
    fn: FunctionInfo
    call: ast.Call
    env: dict
    cfg: CFG
    node: Node | None = None  # None for calls inside a lambda written in fn


def init_aliases(fn_init: FunctionInfo) -> dict[str, str]:
    """param -> 'self.field' for `self.field = param` in __init__."""
    out = {}
    for n in fn_init.body_nodes():
        if isinstance(n, (ast.Assign, ast.AnnAssign)):
            t = n.targets[0] if isinstance(n, ast.Assign) else n.target
            d = dotted(t)
            if d and d.startswith("self.") and isinstance(
                    n.value, ast.Name) and n.value.id in fn_init.params():
                out[n.value.id] = d
    return out


def live_constant_locals(cfg: CFG, env: dict) -> dict:
    """name -> constant for locals (not in env, not parameters) all of whose
    live assignments evaluate to one and the same constant."""
    live = cfg.live_nodes()
    vals: dict[str, set] = {}
    bad: set[str] = set()
    params = set(cfg.fn.params())
    for n in cfg.nodes:
        a = n.ast
        if n.kind != "stmt" or not isinstance(a, (ast.Assign, ast.AnnAssign,
                                                  ast.AugAssign)):
            continue
        tgts = a.targets if isinstance(a, ast.Assign) else [a.target]
        for t in tgts:
            for x in ast.walk(t):
                if isinstance(x, ast.Name) and isinstance(x.ctx, ast.Store):
                    if n not in live:
                        continue
                    if isinstance(a, ast.AnnAssign) and a.value is None:
                        continue  # a bare declaration
                    if isinstance(a, ast.AugAssign) or \
                            not isinstance(t, ast.Name):
                        bad.add(x.id)
                        continue
                    v = const_eval(a.value, env)
                    if v is UNKNOWN or v is TRUTHY or v is FALSY:
                        bad.add(x.id)
                    else:
                        vals.setdefault(x.id, set()).add(repr(v))
                        vals.setdefault("__v__" + x.id, set())
                        vals["__v__" + x.id] = {v} if not isinstance(
                            v, (list, dict, set)) else set()
    # loop / with / except targets are not constants
    for n in cfg.nodes:
        if n.kind in ("for", "with", "except") and n.ast is not None:
            for x in ast.walk(n.ast):
                if isinstance(x, ast.Name) and isinstance(x.ctx, ast.Store):
                    bad.add(x.id)
    out = {}
    for name, reprs in vals.items():
        if name.startswith("__v__") or name in bad or name in env or \
                name in params or len(reprs) != 1:
            continue
        v = vals.get("__v__" + name)
        if v:
            out[name] = next(iter(v))
    return out


def residual(ctx: Context, fn: FunctionInfo, env: dict, depth: int = 0,
             seen: set | None = None,
             class_env: dict | None = None) -> list[Residual]:
    seen = seen if seen is not None else set()
    class_env = class_env if class_env is not None else {}
    key = (fn.fq, tuple(sorted((k, repr(v)) for k, v in env.items())))
    if key in seen or depth > 4:
        return []
    seen.add(key)
    full_env = dict(env)
    if fn.cls is not None and fn.cls.fq in class_env:
        for k, v in class_env[fn.cls.fq].items():
            full_env.setdefault(k, v)
    cfg = CFG(fn, env=full_env)
    # locals whose live assignments all give the same constant are constants
    # too (cycle_length = 1 in the branch that remains under shuffle = 0)
    for _ in range(3):
        extra = live_constant_locals(cfg, full_env)
        if not extra:
            break
        full_env.update(extra)
        cfg = CFG(fn, env=full_env)
    out: list[Residual] = []
    live = cfg.live_nodes()
    sites: list[tuple[ast.Call, Node | None]] = [
        (n.ast, n) for n in cfg.nodes if n.kind == "call" and n in live]
    sites += [(c, None) for c, _lam in lambda_calls(ctx, fn, full_env, cfg)]
    for call, node in sites:
        out.append(Residual(fn, call, full_env, cfg, node))
        for t in ctx.res.resolve_call(fn, call, count=False):
            callee = None
            if t.kind == "internal" and t.fn is not None:
                callee = t.fn
            elif t.kind == "class" and t.cls is not None:
                init = ctx.repo.find_method(t.cls, "__init__")
                if init is not None:
                    al = init_aliases(init)
                    cenv = {}
                    for p, field in al.items():
                        e = passed_expr(call, init, p)
                        v = const_eval(e, full_env) if e is not None else (
                            const_eval(init.param_default(p), {})
                            if init.param_default(p) is not None else UNKNOWN)
                        if v is not UNKNOWN:
                            cenv[field] = v
                    class_env.setdefault(t.cls.fq, {}).update(cenv)
                    callee = init
            if callee is None or isinstance(callee.node, ast.Lambda):
                continue
            cenv2 = {}
            for p in callee.params():
                e = passed_expr(call, callee, p)
                if e is None:
                    d = callee.param_default(p)
                    if d is not None:
                        v = const_eval(d, {})
                        if v is not UNKNOWN:
                            cenv2[p] = v
                    continue
                v = const_eval(e, full_env)
                if v is not UNKNOWN:
                    cenv2[p] = v
            out += residual(ctx, callee, cenv2, depth + 1, seen, class_env)
    return out


def lambda_calls(ctx: Context, fn: FunctionInfo, env: dict,
                 cfg: CFG) -> list[tuple[ast.Call, ast.Lambda]]:
    """Calls inside lambdas whose creating statement is live in cfg."""
    out = []
    live_stmts = {id(n.stmt) for n in cfg.live_nodes() if n.stmt is not None}
    from sa.context import enclosing_stmt
    from sa.model import ancestors
    for node in ast.walk(fn.node):
        if isinstance(node, ast.Lambda) and not any(
                isinstance(a, (ast.FunctionDef, ast.AsyncFunctionDef)) and
                a is not fn.node for a in ancestors(node)):
            st = enclosing_stmt(node)
            if st is not None and id(st) in live_stmts:
                for c in ast.walk(node.body):
                    if isinstance(c, ast.Call):
                        out.append((c, node))
    return out
