"""C18 - write-time validation is all-or-nothing and never poisons a shard."""
from __future__ import annotations

import ast

from sa.cfg import CFG
from sa.context import Context, names_in, raises_in
from sa.model import AnalysisError, ClassInfo, FunctionInfo, dotted, parent, short
from sa.rules import c01
from sa.rules.common import trivial_call
from sa.valuation import Valuation

BASE = "sedpack.io.shard.shard_writer_base:ShardWriterBase"
# writer class -> (example store field, commit method names, reason)
COMMIT_TABLE = {
    "ShardWriterFlatBuffer": ("_examples", {"append"},
                              "offsets of finished examples; only these are "
                              "written by close()"),
    "ShardWriterNP": ("_buffer", {"append", "extend", "setdefault", "update"},
                      "per-attribute lists saved by close(); must stay equally "
                      "long"),
    "ShardWriterTFRec": ("_tf_shard_writer", {"write"},
                         "records go straight to the TFRecord file"),
}
INFALLIBLE_METHODS = {"append", "setdefault", "items", "keys", "values", "get",
                      "add", "extend", "update"}


def writer_classes(ctx: Context) -> list[ClassInfo]:
    base = ctx.repo.cls(BASE)
    return ctx.repo.subclasses(base)


def run(ctx: Context, rep) -> None:
    rep.not_decided = (
        "that every dtype/value combination the format cannot represent is "
        "rejected (only the shape gate, the safe-cast gate and the "
        "TFRecord dtype tables are decided); behaviour of NumPy/TensorFlow "
        "conversions on exotic containers")
    rep.assumptions += [
        "list.append / dict.setdefault / dict.items cannot fail",
        "close() writes exactly the example store named in the commit table",
    ]
    base = ctx.repo.cls(BASE)
    write = ctx.fn(BASE + ".write")

    # -- C18.pre ---------------------------------------------------------------
    rep.rule(
        "C18.pre",
        "in ShardWriterBase.write the shape check of every fixed-size "
        "attribute (a loop over the full declaration that raises when the "
        "value's shape differs from the declared one, skipping only "
        "variable-size attributes) precedes the format specific _write on "
        "every path")
    cfg = ctx.cfg(write)
    wcalls = cfg.calls(lambda c: ctx.is_call(write, c, method="_write"))
    if not wcalls:
        raise AnalysisError("C18.pre: call of _write not found")
    loops = [n for n in write.body_nodes() if isinstance(n, ast.For) and
             ast.unparse(n.iter).endswith("saved_data_description")]
    rep.ob("C18.pre", len(loops) >= 1, loc=write.loc(), where=write.qualname,
           construct="for attribute in saved_data_description",
           message="the check loop covers the whole declaration (no slice, "
           "no filter)")
    for lp in loops:
        cmps = [c for c in ast.walk(lp) if isinstance(c, ast.Compare) and
                "shape" in ast.unparse(c)]

        def atom(e, cmps=cmps):
            if any(e is c for c in cmps):
                c = e
                return "differs" if isinstance(c.ops[0], ast.NotEq) else "same"
            if isinstance(e, ast.Call) and isinstance(
                    e.func, ast.Attribute) and e.func.attr == "has_variable_size":
                return "variable"
            return None

        res = {}
        for differs in (True, False):
            v = Valuation(write, atom, {"differs": differs, "same": not differs,
                                        "variable": False})
            c2 = CFG(write, oracle=v.truth)
            heads = [n for n in c2.nodes if n.kind == "for" and n.ast is lp]
            body_start = [m for h in heads for m, lab in h.succ if lab == "true"]
            live = c2.reachable(body_start,
                                follow=lambda a, b, lab: lab != "exc")
            # does one round of the loop body survive (reach the next round
            # or the format writer)?
            res[differs] = any(n in live for n in heads) or any(
                n.kind == "call" and ctx.is_call(write, n.ast, method="_write")
                for n in live)
        rep.ob("C18.pre", bool(cmps) and res[True] is False and res[False] is True,
               loc=write.loc(lp), where=write.qualname,
               construct="; ".join(short(c) for c in cmps) or "<no comparison>",
               message="a fixed-size attribute whose shape differs ends the "
               f"write with an error (survives: {res[True]}); a matching one "
               f"continues ({res[False]})")
        # compared against the declared shape of the same attribute
        ok_decl = any(ast.unparse(x) == f"{lp.target.id}.shape"
                      for c in cmps for x in ast.walk(c)) and any(
                          f"values[{lp.target.id}.name]" in ast.unparse(s)
                          for s in lp.body)
        rep.ob("C18.pre", ok_decl, loc=write.loc(lp), where=write.qualname,
               construct=f"shape(values[{lp.target.id}.name]) vs "
               f"{lp.target.id}.shape",
               message="the value of attribute X is compared with the "
               "declared shape of X")
        conts = [n for n in ast.walk(lp) if isinstance(n, ast.Continue)]
        for c in conts:
            g = parent(c)
            ok = isinstance(g, ast.If) and isinstance(g.test, ast.Call) and \
                isinstance(g.test.func, ast.Attribute) and \
                g.test.func.attr == "has_variable_size"
            rep.ob("C18.pre", ok, loc=write.loc(c), where=write.qualname,
                   construct=short(g.test if isinstance(g, ast.If) else c),
                   message="only variable-size attributes skip the shape check")
    fornodes = [n for n in cfg.nodes if n.kind == "for" and n.ast in loops]
    missed = cfg.always_before(fornodes, wcalls)
    rep.ob("C18.pre", not missed, loc=write.loc(wcalls[0].ast),
           where=write.qualname, construct="shape loop -> self._write(values)",
           message="the check loop dominates _write")
    hv = ctx.fn("sedpack.io.metadata:Attribute.has_variable_size")
    # truth table of has_variable_size over {dtype} x {shape empty or not},
    # whatever its syntactic form
    from sa import dtypeval, pathval
    from sa.cfg import CFG as _CFG
    table = {}
    undecided = False
    for d in ("bytes", "str", "int8", "float32"):
        for empty in (True, False):
            ev = dtypeval.DtypeEval("self.dtype", d, hv.module.globals)

            def orc(e, ev=ev, empty=empty):
                if isinstance(e, ast.Compare) and len(e.ops) == 1 and \
                        dotted(e.left) == "self.shape" and isinstance(
                            e.comparators[0], ast.Tuple) and \
                        not e.comparators[0].elts:
                    if isinstance(e.ops[0], ast.Eq):
                        return empty
                    if isinstance(e.ops[0], ast.NotEq):
                        return not empty
                if isinstance(e, ast.UnaryOp) and isinstance(e.op, ast.Not) \
                        and dotted(e.operand) == "self.shape":
                    return empty
                return ev.oracle(e)

            def tv(e):
                if isinstance(e, ast.Constant):
                    return bool(e.value)
                if isinstance(e, ast.BoolOp):
                    vals = [tv(x) for x in e.values]
                    if isinstance(e.op, ast.And):
                        return False if False in vals else (
                            None if None in vals else True)
                    return True if True in vals else (
                        None if None in vals else False)
                if isinstance(e, ast.UnaryOp) and isinstance(e.op, ast.Not):
                    v = tv(e.operand)
                    return None if v is None else not v
                return orc(e)

            cfg_h = _CFG(hv, oracle=orc)
            live_h = cfg_h.reachable([cfg_h.entry],
                                     follow=lambda a, b, lab: lab != "exc")
            vals = {tv(n.ast.value) for n in cfg_h.nodes if n in live_h and
                    n.kind == "stmt" and isinstance(n.ast, ast.Return) and
                    n.ast.value is not None}
            if len(vals) != 1 or None in vals:
                undecided = True
            table[(d, empty)] = vals.pop() if len(vals) == 1 else None
    ok_hv = not undecided and all(
        v == (d in ("bytes", "str") and empty) for (d, empty), v in
        table.items())
    rets = [n for n in hv.body_nodes() if isinstance(n, ast.Return)]
    rep.ob("C18.pre", ok_hv, loc=hv.loc(), where=hv.qualname,
           construct="truth table " + ", ".join(
               f"{d}/{'()' if e else 'shape'}={v}" for (d, e), v in
               sorted(table.items())),
           message="variable size means: dtype bytes/str AND empty declared "
           "shape")

    # -- C18.commit --------------------------------------------------------------
    rep.rule(
        "C18.commit",
        "per writer: once the first store into the example store "
        "(commit table) has happened, no fallible step (a call that may "
        "raise, an explicit raise/assert, a subscript load) is reachable "
        "inside the same _write, loops included - a rejected example leaves "
        "no partial trace")
    classes = writer_classes(ctx)
    if len(classes) < 3:
        raise AnalysisError(f"C18.commit: {len(classes)} writer classes")
    for ci in classes:
        if ci.name not in COMMIT_TABLE:
            raise AnalysisError(f"C18.commit: writer {ci.name} not in the "
                                "commit table")
        field, methods, reason = COMMIT_TABLE[ci.name]
        w = ci.methods.get("_write")
        if w is None:
            raise AnalysisError(f"C18.commit: {ci.name}._write missing")
        wcfg = ctx.cfg(w)
        commits = []
        for n in wcfg.calls():
            f = n.ast.func
            if isinstance(f, ast.Attribute) and f.attr in methods and \
                    f"self.{field}" in ast.unparse(f.value):
                commits.append(n)
        for n in wcfg.nodes:
            if n.kind == "stmt" and isinstance(n.ast, (ast.Assign, ast.AugAssign)):
                tgts = n.ast.targets if isinstance(n.ast, ast.Assign) else [n.ast.target]
                for t in tgts:
                    if isinstance(t, ast.Subscript) and \
                            f"self.{field}" in ast.unparse(t.value):
                        commits.append(n)
        rep.ob("C18.commit", bool(commits), loc=w.loc(), where=w.qualname,
               construct=f"store into self.{field} ({reason})",
               message="the example store is written by _write")
        if not commits:
            continue
        after = wcfg.reachable(commits, strict=True,
                               follow=lambda a, b, lab: lab not in ("exc", "raise"))
        # (a defaultdict(list) store never raises on a missing key)
        init_w = ci.methods.get("__init__")
        store_inits = [x.value for m_ in ci.methods.values()
                       for x in m_.body_nodes()
                       if isinstance(x, (ast.Assign, ast.AnnAssign)) and
                       x.value is not None and dotted(
                           x.targets[0] if isinstance(x, ast.Assign)
                           else x.target) == f"self.{field}"]
        total_store = init_w is not None and bool(store_inits) and all(
            isinstance(v, ast.Call) and (dotted(v.func) or "").endswith(
                "defaultdict") and v.args and dotted(v.args[0]) == "list"
            for v in store_inits)
        def key_ensured(call_node) -> bool:
            """`if k not in self.F: self.F[k] = <new container>` directly
            before `self.F[k].append(..)`: the lookup cannot fail."""
            st = call_node.stmt if getattr(call_node, "stmt", None) is not None \
                else None
            recv = call_node.ast.func.value
            if st is None or not isinstance(recv, ast.Subscript):
                return False
            blk_owner = parent(st)
            for fld in ("body", "orelse", "finalbody"):
                blk = getattr(blk_owner, fld, None)
                if isinstance(blk, list) and st in blk:
                    i = blk.index(st)
                    prev = blk[i - 1] if i > 0 else None
                    if isinstance(prev, ast.If) and isinstance(
                            prev.test, ast.Compare) and len(
                                prev.test.ops) == 1 and isinstance(
                                    prev.test.ops[0], ast.NotIn) and \
                            ast.unparse(prev.test.left) == ast.unparse(
                                recv.slice) and ast.unparse(
                                    prev.test.comparators[0]) == ast.unparse(
                                        recv.value) and any(
                                isinstance(s, ast.Assign) and any(
                                    ast.unparse(t) == ast.unparse(recv)
                                    for t in s.targets) for s in prev.body):
                        return True
            return False

        def ensured_in(stmt_ast, sub) -> bool:
            if isinstance(stmt_ast, ast.Expr) and isinstance(
                    stmt_ast.value, ast.Call) and isinstance(
                        stmt_ast.value.func, ast.Attribute) and \
                    stmt_ast.value.func.value is sub:
                class _N:   # adapter for key_ensured
                    pass
                nn = _N()
                nn.stmt = stmt_ast
                nn.ast = stmt_ast.value
                return key_ensured(nn)
            return False

        fallible = []
        for n in after:
            if n in commits:
                continue
            if n.kind == "call":
                f = n.ast.func
                if isinstance(f, ast.Attribute) and f.attr in INFALLIBLE_METHODS:
                    continue
                if trivial_call(ctx, w, n.ast):
                    continue
                fallible.append(n)
            elif n.kind == "stmt" and isinstance(n.ast, (ast.Raise, ast.Assert)):
                fallible.append(n)
            elif n.kind in ("stmt", "test") and n.ast is not None and any(
                    isinstance(x, ast.Subscript) and isinstance(x.ctx, ast.Load)
                    and not (total_store and dotted(x.value) == f"self.{field}")
                    and not ensured_in(n.ast, x)
                    for x in ast.walk(n.ast)
                    if not isinstance(n.ast, (ast.FunctionDef, ast.ClassDef))):
                # subscript loads inside the commit statement itself are
                # evaluated before the store
                fallible.append(n)
        # subscript load inside a commit call's receiver, e.g.
        # self._buffer[name].append(x): a KeyError there happens after
        # earlier iterations committed
        for c in commits:
            if total_store:
                break
            if c in after and c.kind == "call" and any(
                    isinstance(x, ast.Subscript)
                    for x in ast.walk(c.ast.func.value)) and \
                    not key_ensured(c):
                fallible.append(c)
        rep.ob("C18.commit", not fallible,
               loc=w.loc(fallible[0].ast) if fallible else w.loc(commits[0].ast),
               where=w.qualname,
               construct=short(fallible[0].ast, 70) if fallible else
               f"{len(commits)} commit store(s), nothing fallible afterwards",
               message="fallible step reachable after the first commit store "
               "of the example" if fallible else
               "validate-then-commit order holds",
               path=f"commit at L{commits[0].lineno} -> L{fallible[0].lineno}"
               if fallible else "")

    # -- fb builder protocol -----------------------------------------------------
    rep.rule(
        "C18.fb-order",
        "in save_numpy_vector_as_bytearray every explicit rejection "
        "(raise) precedes the first mutation of the shared FlatBuffers "
        "builder, so a rejected value cannot leave the builder in a nested "
        "state that breaks later writes")
    sv = ctx.fn("sedpack.io.shard.shard_writer_flatbuffer:"
                "ShardWriterFlatBuffer.save_numpy_vector_as_bytearray")
    scfg = ctx.cfg(sv)
    bcalls = scfg.calls(lambda c: isinstance(c.func, ast.Attribute) and
                        dotted(c.func.value) == "builder" and
                        c.func.attr[:1].isupper())
    bstores = [n for n in scfg.nodes if n.kind == "stmt" and isinstance(
        n.ast, ast.Assign) and any((dotted(t) or ast.unparse(t)).startswith(
            "builder.") for t in n.ast.targets)]
    muts = [n for n in bcalls if n.ast.func.attr != "Head"] + bstores
    if not muts:
        raise AnalysisError("C18.fb-order: builder mutations not found")
    after = scfg.reachable(muts, strict=True,
                           follow=lambda a, b, lab: lab not in ("exc", "raise"))
    late = [n for n in after if n.kind == "stmt" and isinstance(n.ast, ast.Raise)]
    rep.ob("C18.fb-order", not late, loc=sv.loc(late[0].ast) if late else sv.loc(),
           where=sv.qualname,
           construct=short(late[0].ast) if late else
           f"{len(muts)} builder mutations after the last raise",
           message="validation must be complete before StartVector")

    # -- counters ------------------------------------------------------------------
    rep.rule(
        "C18.count",
        "counters advance only after the writer returned normally: "
        "ShardInfo.number_of_examples += 1 after Shard.write's "
        "_shard_writer.write(...), written_examples += 1 after "
        "shard.write(...); neither is reachable when the write raised")
    check_counters(ctx, rep, "C18.count")

    from sa.rules.c10 import check_couple
    check_couple(ctx, rep, "C18.rollover")
    rep.rule(
        "C18.rollover",
        "at a rollover the full shard is closed (and listed) before the "
        "progress record points at the new shard and before the next write "
        "is attempted, so a rejected first write of the new shard cannot "
        "lose the previous shard's accepted examples (same check as "
        "C10.couple)")
    c01.check_cast(ctx, rep, "C18.cast")
    c01.check_tfrec(ctx, rep, "C18.tables")
    # the FlatBuffers builder is driven through its API only: its internal
    # fields (head, vtables, current_vtable, nested, ...) are consistent with
    # each other only as the library leaves them; rewinding one of them after
    # a rejected write leaves the others pointing at overwritten bytes
    rep.rule(
        "C18.fb-builder",
        "no attribute of a flatbuffers Builder object is assigned or deleted "
        "by sedpack code (method calls only)")
    fbw_mod = ctx.repo.module("sedpack.io.shard.shard_writer_flatbuffer")
    n_fb = 0
    for fn in fbw_mod.functions.values():
        for n in fn.body_nodes():
            tgts = []
            if isinstance(n, ast.Assign):
                tgts = n.targets
            elif isinstance(n, (ast.AugAssign, ast.AnnAssign)):
                tgts = [n.target]
            elif isinstance(n, ast.Delete):
                tgts = n.targets
            for t in tgts:
                if isinstance(t, ast.Attribute) and "builder" in (
                        dotted(t.value) or "").lower():
                    # frozen exceptions: the bulk byte-vector write copies
                    # flatbuffers.Builder.CreateNumpyVector (moves head by the
                    # payload length between StartVector and EndVector, sets
                    # the element count EndVector writes)
                    allowed = (fn.qualname.endswith(
                        "save_numpy_vector_as_bytearray") and
                               t.attr in ("head", "vectorNumElems") and
                               isinstance(n, ast.Assign))
                    rep.ob("C18.fb-builder", allowed, loc=fn.loc(n),
                           where=fn.qualname, construct=short(n, 70),
                           message="builder internals must not be modified "
                           "(table exception: the CreateNumpyVector idiom "
                           "inside save_numpy_vector_as_bytearray)")
        n_fb += sum(1 for c in fn.calls() if "builder" in ast.unparse(
            c.func).lower() or any("builder" in ast.unparse(a).lower()
                                   for a in c.args))
    rep.ob("C18.fb-builder", n_fb >= 5, loc=f"{_FBW}:1" if "_FBW" in globals()
           else "src/sedpack/io/shard/shard_writer_flatbuffer.py:1",
           where="shard_writer_flatbuffer",
           construct=f"{n_fb} builder API call(s), no field assignment",
           message="the builder is used through its API")
    # ---------------------------------------------------------------------
    # a rejected write leaves no trace in the writer object either: besides
    # the example store of the commit table, _write keeps no per-writer state
    # that a later write or close() reads, and its error paths do not touch
    # the writer
    check_writer_state(ctx, rep, "C18.state")
    check_dtype_gates(ctx, rep, "C18.gate")
    # examples accepted before a rejected one stay reachable even when the
    # rejection propagates out of the `with` block
    from sa.rules import shared as _sh18
    _sh18.check_exit_publishes(ctx, rep, "C18.publish")
    # nothing read from the dataset's files / the environment is memoised
    from sa.rules import shared as _shm
    _shm.check_no_memo(ctx, rep, "C18.memo")
    # the npz writer saves its buffers as they are (same check as
    # C01.npz-save): a conversion at close time rejects what write accepted
    from sa.rules import c01 as _c01_18
    _c01_18.check_npz_save(ctx, rep, "C18.npz-save")
    _shm.check_no_shared_class_state(ctx, rep, "C18.class-state")
    _shm.check_assert_pure(ctx, rep, "C18.assert")

def check_dtype_gates(ctx: Context, rep, rule: str) -> None:
    """An accepted write stays readable also for foreign dtypes and for
    declarations a format does not support: (a) the TFRecord writer stores
    into a typed list (Int64List / FloatList) only after a gate on the
    value's dtype that raises (tf.train.Int64List silently DROPS float
    values: the example is written with an empty feature and the shard no
    longer parses); (b) the FlatBuffers writer, whose reader decodes fixed-
    width items only, refuses variable-size declarations (str / bytes) before
    it touches the builder."""
    rep.rule(
        rule,
        "to_tfrecord, specialised per integer dtype: every int64_feature "
        "call is preceded on every path by a test that calls "
        "numpy.can_cast (or compares the value's dtype kind) and raises; "
        "save_numpy_vector_as_bytearray, specialised on attribute.dtype in "
        "{str, bytes}: no builder call is reachable (the function raises)")
    from sa import dtypeval
    TFD = "sedpack.io.tfrec.tfdata"
    to = ctx.fn(f"{TFD}:to_tfrecord")
    mod = ctx.repo.module(TFD)
    # (only the integer container: a FloatList converts any real number, a
    # rounded value stays readable - the Int64List is the one that drops)
    for d, feat in (("int32", "int64_feature"), ("uint8", "int64_feature"),
                    ("int64", "int64_feature"), ("int8", "int64_feature")):
        ev = dtypeval.DtypeEval("attribute.dtype", d, mod.globals)
        cfg_d = CFG(to, env={"attribute.dtype": d}, oracle=ev.oracle)
        live = cfg_d.reachable([cfg_d.entry],
                               follow=lambda a, b, lab: lab != "exc")
        feats = [n for n in cfg_d.calls() if n in live and isinstance(
            n.ast.func, ast.Name) and n.ast.func.id == feat]
        gates = [n for n in cfg_d.nodes if n in live and n.kind == "test" and
                 n.ast is not None and any(
                     (isinstance(x, ast.Call) and (dotted(x.func) or "").endswith(
                         "can_cast")) or (isinstance(x, ast.Attribute) and
                                          x.attr == "kind")
                     for x in ast.walk(n.ast)) and any(
                         isinstance(m.ast, ast.Raise) for m in cfg_d.reachable(
                             [s for s, lab in n.succ if lab in ("true", "false")],
                             follow=lambda a, b, lab: lab != "exc")
                         if m.kind == "stmt" and m.ast is not None)]
        ungated = cfg_d.always_before(gates, feats, normal_only=True) \
            if feats else []
        rep.ob(rule, bool(feats) and not ungated, loc=to.loc(
            feats[0].ast) if feats else to.loc(), where=to.qualname,
               construct=f"{d}: <dtype gate that raises> ... {feat}(..)",
               message="values of a foreign kind (floats for an integer "
               "attribute) reach the typed list unchecked: TensorFlow drops "
               "them silently and the shard becomes undecodable")
    sv = ctx.fn("sedpack.io.shard.shard_writer_flatbuffer:"
                "ShardWriterFlatBuffer.save_numpy_vector_as_bytearray")
    wmod = sv.module
    # locals that name the declared dtype (`declared = attribute.dtype`)
    from sa.valuation import single_defs as _sd18
    dt_aliases = [k for k, v in _sd18(sv).items()
                  if dotted(v) == "attribute.dtype"]
    for d in ("str", "bytes"):
        ev = dtypeval.DtypeEval("attribute.dtype", d, wmod.globals)
        ev_alias = [dtypeval.DtypeEval(a_, d, wmod.globals) for a_ in dt_aliases]

        def oracle_(e, ev=ev, ev_alias=ev_alias):
            r = ev.oracle(e)
            for ea in ev_alias:
                if r is None:
                    r = ea.oracle(e)
            return r

        env_ = {"attribute.dtype": d}
        env_.update({a_: d for a_ in dt_aliases})
        cfg_s = CFG(sv, env=env_, oracle=oracle_)
        live = cfg_s.reachable([cfg_s.entry],
                               follow=lambda a, b, lab: lab != "exc")
        builder_calls = [n for n in cfg_s.calls() if n in live and isinstance(
            n.ast.func, ast.Attribute) and dotted(n.ast.func.value) == "builder"]
        rep.ob(rule, not builder_calls, loc=sv.loc(
            builder_calls[0].ast) if builder_calls else sv.loc(),
               where=sv.qualname,
               construct=f"attribute.dtype = {d!r}: builder reached: "
               f"{bool(builder_calls)}",
               message="the FlatBuffers writer accepts a variable-size "
               "declaration its reader cannot decode (np.dtype('str').itemsize "
               "is 0): every accepted write makes the shard unreadable")


def check_writer_state(ctx: Context, rep, rule: str) -> None:
    rep.rule(
        rule,
        "in every shard writer's _write: (a) the only attributes of self "
        "that are mutated are the commit-table store, the lazily created "
        "resource (assigned under `if self.X is None` / `if not self.X`) and "
        "calls on the FlatBuffers builder; (b) no except / finally block "
        "assigns an attribute of self or closes / resets a resource")
    wbase = ctx.repo.cls("sedpack.io.shard.shard_writer_base:ShardWriterBase")
    n_w = 0
    for ci in ctx.repo.subclasses(wbase):
        w = ci.methods.get("_write")
        if w is None or ci.name not in COMMIT_TABLE:
            continue
        n_w += 1
        field = COMMIT_TABLE[ci.name][0]
        bad_state = []
        # locals that name an attribute of self (x = self._y): mutating them
        # mutates the writer
        alias = {}
        for n in w.body_nodes():
            if isinstance(n, (ast.Assign, ast.AnnAssign)) and n.value is not None:
                t0 = n.targets[0] if isinstance(n, ast.Assign) else n.target
                dv = dotted(n.value) or ""
                if isinstance(t0, ast.Name) and dv.startswith("self."):
                    alias[t0.id] = dv
        for n in w.body_nodes():
            tgts = []
            if isinstance(n, ast.Assign):
                tgts = list(n.targets)
            elif isinstance(n, (ast.AugAssign, ast.AnnAssign)):
                tgts = [n.target]
            for t in tgts:
                base = t.value if isinstance(t, ast.Subscript) else t
                d = dotted(base) or ""
                if not d.startswith("self.") or d == f"self.{field}":
                    continue
                # lazily created resource: assignment guarded by a test of
                # the same attribute being unset
                guard = parent(n)
                lazy = isinstance(guard, ast.If) and d in ast.unparse(
                    guard.test) and not isinstance(t, ast.Subscript)
                if not lazy:
                    bad_state.append((n, f"assigns {d}"))
            if isinstance(n, ast.Call) and isinstance(n.func, ast.Attribute) \
                    and n.func.attr in ("append", "extend", "insert", "add",
                                        "update", "setdefault", "pop", "clear",
                                        "remove"):
                d = dotted(n.func.value) or ""
                d = alias.get(d, d)
                if d.startswith("self.") and d != f"self.{field}" and \
                        not d.startswith(f"self.{field}"):
                    bad_state.append((n, f"mutates {d}"))
        rep.ob(rule, not bad_state,
               loc=w.loc(bad_state[0][0]) if bad_state else w.loc(),
               where=w.qualname,
               construct=(f"{bad_state[0][1]}: {short(bad_state[0][0], 60)}"
                          if bad_state else
                          f"only self.{field} (and lazily created resources)"),
               message="per-writer state other than the example store "
               "survives a rejected write and leaks into the next example")
        bad_err = []
        for t in [x for x in w.body_nodes() if isinstance(x, ast.Try)]:
            for blk in [h.body for h in t.handlers] + [t.finalbody]:
                for s in blk:
                    for x in ast.walk(s):
                        if isinstance(x, (ast.Assign, ast.AugAssign)) and any(
                                (dotted(tg.value if isinstance(tg, ast.Subscript)
                                        else tg) or "").startswith("self.")
                                for tg in (x.targets if isinstance(
                                    x, ast.Assign) else [x.target])):
                            bad_err.append(x)
                        if isinstance(x, ast.Call) and isinstance(
                                x.func, ast.Attribute) and x.func.attr in (
                                    "close", "flush", "clear") and (dotted(
                                        x.func.value) or "").startswith("self."):
                            bad_err.append(x)
        rep.ob(rule, not bad_err,
               loc=w.loc(bad_err[0]) if bad_err else w.loc(), where=w.qualname,
               construct=short(bad_err[0], 70) if bad_err else
               "error paths leave the writer untouched",
               message="a rejected write must not close, reset or rebind the "
               "writer's resources (re-opening truncates the shard)")
    rep.floor(rule, n_w, 3, "writers")


def check_counters(ctx: Context, rep, rule: str) -> None:
    pairs = [
        ("sedpack.io.shard.shard:Shard.write", "number_of_examples",
         lambda fn, c: isinstance(c.func, ast.Attribute) and c.func.attr ==
         "write" and "_shard_writer" in ast.unparse(c.func.value)),
        ("sedpack.io.dataset_filler:_DatasetFillerContext.write_example",
         "written_examples",
         lambda fn, c: isinstance(c.func, ast.Attribute) and c.func.attr ==
         "write" and "shard" in ast.unparse(c.func.value)),
    ]
    for fq, counter, is_write in pairs:
        fn = ctx.fn(fq)
        cfg = ctx.cfg(fn)
        writes = cfg.calls(lambda c, fn=fn: is_write(fn, c))
        incs = [n for n in cfg.nodes if n.kind == "stmt" and isinstance(
            n.ast, ast.AugAssign) and ast.unparse(n.ast.target).endswith(counter)]
        if writes and not incs:
            # the counter is set some other way: not a count of the writes
            # that returned normally in this function
            others = [n for n in cfg.nodes if n.kind == "stmt" and isinstance(
                n.ast, (ast.Assign, ast.AnnAssign)) and any(
                    ast.unparse(t).endswith(counter) for t in (
                        n.ast.targets if isinstance(n.ast, ast.Assign)
                        else [n.ast.target]))]
            if others:
                rep.ob(rule, False, loc=fn.loc(others[0].ast),
                       where=fn.qualname, construct=short(others[0].ast, 70),
                       message="the counter is not `+= 1` after the write "
                       "returned: it is copied / computed from another "
                       "source, which may count writes that were rejected")
                continue
        if not writes or not incs:
            raise AnalysisError(f"{rule}: write/increment not found in {fq}")
        # increments reachable without a *normal* return of the write
        reach = cfg.reachable(
            [cfg.entry],
            follow=lambda a, b, lab: not (a in writes and lab == "next"))
        for inc in incs:
            ok_step = isinstance(inc.ast.op, ast.Add) and isinstance(
                inc.ast.value, ast.Constant) and inc.ast.value.value == 1
            rep.ob(rule, inc not in reach and ok_step, loc=fn.loc(inc.ast),
                   where=fn.qualname, construct=short(inc.ast),
                   message="the counter moves by one and only after the write "
                   "call returned normally (a failed write is not counted)")
        # exactly one increment per write on the normal path
        after = cfg.reachable(writes, strict=True,
                              follow=lambda a, b, lab: lab not in ("exc", "raise"))
        n_after = [i for i in incs if i in after]
        skip = cfg.reachable(
            [m for w in writes for m, lab in w.succ if lab == "next"],
            avoiding=incs, follow=lambda a, b, lab: lab not in ("exc", "raise"))
        rep.ob(rule, len(n_after) == 1 and cfg.exit not in skip, loc=fn.loc(),
               where=fn.qualname,
               construct=f"{counter}: {len(n_after)} increment(s) after the "
               "write",
               message="every successful write is counted exactly once")
        # ... and nothing that can fail sits between the write and its count:
        # an exception there leaves an example stored but not counted
        from sa.rules.common import trivial_call as _tc
        for w in writes:
            between = cfg.reachable(
                [m for m, lab in w.succ if lab == "next"], avoiding=incs,
                follow=lambda a, b, lab: lab not in ("exc", "raise"))
            risky = [n for n in between if n.kind == "call" and
                     not _tc(ctx, fn, n.ast)]
            rep.ob(rule, not risky, loc=fn.loc(risky[0].ast) if risky else
                   fn.loc(w.ast), where=fn.qualname,
                   construct=(short(risky[0].ast, 60) if risky else
                              "write -> count, nothing fallible between"),
                   message="a call between the successful write and the "
                   "increment of the counter can raise: the example is stored "
                   "but not counted (the shard then takes one too many)")


_SB = "src/sedpack/io/shard/shard_writer_base.py"
_NP = "src/sedpack/io/shard/shard_writer_np.py"
_FB = "src/sedpack/io/shard/shard_writer_flatbuffer.py"
_SH = "src/sedpack/io/shard/shard.py"
SELFTESTS = [
    dict(rule="C18.gate", name="tfrec-int-gate-dropped", expect="fire",
         path="src/sedpack/io/tfrec/tfdata.py",
         old='            if not np.can_cast(value.dtype, np.int64, casting="same_kind"):\n',
         new='            if False:\n'),
    dict(rule="C18.gate", name="tfrec-int-gate-kind-twin", expect="silent",
         path="src/sedpack/io/tfrec/tfdata.py",
         old='            if not np.can_cast(value.dtype, np.int64, casting="same_kind"):\n',
         new='            if value.dtype.kind not in "iub":\n'),
    dict(rule="C18.gate", name="fb-accepts-str-bytes", expect="fire", path=_FB,
         old='        if attribute.dtype in ("str", "bytes"):\n',
         new='        if attribute.dtype in ():\n'),
    dict(rule="C18.publish", name="no-publish-when-block-raised", expect="fire",
         path="src/sedpack/io/dataset_filler.py",
         old="        if self._auto_update_dataset:\n            # Note that when",
         new="        if self._auto_update_dataset and exc_type is None:\n            # Note that when"),
    dict(rule="C18.pre", name="write-before-check", expect="fire", path=_SB,
         old="        # Check the values are correct type and shape.\n",
         new="        self._write(values=values)\n        # Check the values are correct type and shape.\n"),
    dict(rule="C18.pre", name="check-only-first-attribute", expect="fire", path=_SB,
         old="        for attribute in self.dataset_structure.saved_data_description:\n",
         new="        for attribute in self.dataset_structure.saved_data_description[:1]:\n"),
    dict(rule="C18.pre", name="shape-compare-inverted", expect="fire", path=_SB,
         old="            if current_shape != attribute.shape:\n",
         new="            if current_shape == attribute.shape:\n"),
    dict(rule="C18.pre", name="skip-all-bytes", expect="fire", path=_SB,
         old="            if attribute.has_variable_size():\n",
         new="            if attribute.dtype == \"bytes\":\n"),
    dict(rule="C18.pre", name="not-eq-twin", expect="silent", path=_SB,
         old="            if current_shape != attribute.shape:\n",
         new="            if not current_shape == attribute.shape:\n"),
    dict(rule="C18.commit", name="npz-append-in-fallible-loop", expect="fire",
         path=_NP,
         old="        copies = {name: np.copy(value) for name, value in values.items()}\n\n        # Just buffer all values.\n        for name, value in copies.items():\n            self._buffer.setdefault(name, []).append(value)\n",
         new="        for name, value in values.items():\n            self._buffer.setdefault(name, []).append(np.copy(value))\n"),
    dict(rule="C18.commit", name="npz-keyerror-loop", expect="fire", path=_NP,
         old="        for name, value in copies.items():\n            self._buffer.setdefault(name, []).append(value)\n",
         new="        for name, value in copies.items():\n            self._buffer[name].append(value)\n"),
    dict(rule="C18.commit", name="fb-append-per-attribute", expect="fire", path=_FB,
         old="            saved_attributes.append(fbapi_Attribute.AttributeEnd(self._builder))\n",
         new="            saved_attributes.append(fbapi_Attribute.AttributeEnd(self._builder))\n            self._examples.append(saved_attributes[-1])\n"),
    dict(rule="C18.fb-order", name="validate-after-startvector", expect="fire",
         path=_FB,
         old="        # Copy values.\n",
         new="        if length % value_np.dtype.itemsize:\n            raise ValueError(\"bad length\")\n        # Copy values.\n"),
    dict(rule="C18.count", name="count-before-write", expect="fire", path=_SH,
         old="        self._shard_writer.write(values)\n        self.shard_info.number_of_examples += 1\n",
         new="        self.shard_info.number_of_examples += 1\n        self._shard_writer.write(values)\n"),
    dict(rule="C18.count", name="count-in-finally", expect="fire", path=_SH,
         old="        self._shard_writer.write(values)\n        self.shard_info.number_of_examples += 1\n",
         new="        try:\n            self._shard_writer.write(values)\n        finally:\n            self.shard_info.number_of_examples += 1\n"),
]
