"""C05 - the integrity check covers everything reachable and raises exactly
on a mismatch."""
from __future__ import annotations

import ast

from sa.cfg import CFG
from sa.context import Context, names_in, raises_in
from sa.dataflow import EMPTY, TagFlow
from sa.model import AnalysisError, FunctionInfo, dotted, parent, short
from sa.valuation import Valuation

DW = "sedpack.io.dataset_writing:DatasetWriting"


def role_flow(ctx: Context, fn: FunctionInfo) -> TagFlow:
    def hook(e, state, rec):
        if isinstance(e, ast.Call) and (ctx.is_call(
                fn, e, "utils.hash_checksums") or ctx.is_call(
                    fn, e, method="current_metadata_checksums")):
            return frozenset({"real"})
        if isinstance(e, ast.Attribute) and e.attr == "hash_checksums":
            return frozenset({"expected"})
        if isinstance(e, ast.Name) and e.id == "hash_checksums_values":
            return frozenset({"expected"})
        return None
    return TagFlow(ctx.cfg(fn), {}, hook=hook)


def comparisons(ctx: Context, fn: FunctionInfo, tf: TagFlow):
    """Compare nodes between a freshly computed digest tuple and a recorded
    one: [(compare, test_node)]"""
    cfg = ctx.cfg(fn)
    out = []
    for n in cfg.nodes:
        if n.kind != "test" or n.ast is None:
            continue
        for c in ast.walk(n.ast):
            if isinstance(c, ast.Compare) and len(c.ops) == 1 and isinstance(
                    c.ops[0], (ast.Eq, ast.NotEq)):
                l = tf.tags_at(n, c.left)
                r = tf.tags_at(n, c.comparators[0])
                if ("real" in l and "expected" in r) or ("expected" in l and
                                                         "real" in r):
                    out.append((c, n))
    return out


def check_polarity(ctx: Context, rep, rule: str, fn: FunctionInfo, minimum: int):
    tf = role_flow(ctx, fn)
    cmps = comparisons(ctx, fn, tf)
    rep.ob(rule, len(cmps) >= minimum, loc=fn.loc(), where=fn.qualname,
           construct=f"{len(cmps)} digest comparison(s), expected {minimum}",
           message="the recorded digests are compared with freshly computed "
           "ones as whole tuples (== / !=)")
    for c, node in cmps:
        whole = all(isinstance(x, (ast.Name, ast.Attribute, ast.Call))
                    for x in (c.left, c.comparators[0]))
        rep.ob(rule, whole, loc=fn.loc(c), where=fn.qualname,
               construct=short(c),
               message="whole tuples are compared (no element, slice or zip: "
               "a length mismatch must count as a difference)")
        res = {}
        stmt = node.stmt
        for differ in (True, False):
            def atom(e, c=c):
                if e is c:
                    return "cmp"
                # "expected digests were supplied" (the comparison is about
                # that case)
                if isinstance(e, ast.Name) and e.id == "hash_checksums_values":
                    return "given"
                return None
            val = differ if isinstance(c.ops[0], ast.NotEq) else not differ
            v = Valuation(fn, atom, {"cmp": val, "given": True}, inline=False)
            t = v.truth(stmt.test) if isinstance(stmt, ast.If) else None
            if t is None:
                res[differ] = "unknown"
                continue
            body = stmt.body if t else stmt.orelse
            has_raise = any(isinstance(x, ast.Raise) for b in body
                            for x in ast.walk(b))
            res[differ] = "raise" if raises_in(body) else (
                "maybe-raise" if has_raise else "continue")
        rep.ob(rule, res[True] == "raise" and res[False] == "continue",
               loc=fn.loc(c), where=fn.qualname, construct=short(node.ast),
               message=f"different digests -> {res[True]} (required raise); "
               f"equal digests -> {res[False]} (required continue)")
        # the comparison cannot be bypassed
        cfg = ctx.cfg(fn)
        loops = [a for a in __import__("sa.model", fromlist=["ancestors"]).ancestors(stmt)
                 if isinstance(a, (ast.For, ast.While))]
        if loops:
            head = [n for n in cfg.nodes if n.kind in ("for", "loop") and
                    n.ast is loops[0]]
            start = [m for h in head for m, lab in h.succ if lab in ("true", "next")]
            reach = cfg.reachable(start, avoiding=[node],
                                  follow=lambda a, b, lab: lab not in ("exc", "raise"))
            bypass = any(h in reach for h in head) or cfg.exit in reach
        else:
            reach = cfg.reachable([cfg.entry], avoiding=[node],
                                  follow=lambda a, b, lab: lab not in ("exc", "raise"))
            bypass = cfg.exit in reach
            # a comparison under `if <expected values supplied>` may be skipped
            guards = [a for a in __import__("sa.model", fromlist=["ancestors"]).ancestors(stmt)
                      if isinstance(a, ast.If)]
            if guards and all(ast.unparse(g.test) == "hash_checksums_values"
                              for g in guards):
                bypass = False
        rep.ob(rule, not bypass, loc=fn.loc(c), where=fn.qualname,
               construct="no path around " + short(node.ast, 60),
               message="every file visited must pass through its digest "
               "comparison (no early return / continue before it)")
    return cmps


def run(ctx: Context, rep) -> None:
    rep.not_decided = (
        "collision resistance of the algorithms; that a passing history "
        "exists for every sequence of sessions (C04/C08); behaviour with an "
        "empty algorithm tuple (the property requires at least one); "
        "detection at run time of every byte position (follows from hashing "
        "the whole file, C16.feed)")
    rep.assumptions += [
        "hash_checksums digests the complete file (C16.feed)",
        "tuple equality compares length and every element",
    ]
    check = ctx.fn(f"{DW}.check")
    rec = ctx.fn(f"{DW}._check_shard_list_info")

    rep.rule(
        "C05.polarity",
        "every comparison between a freshly computed digest tuple and a "
        "recorded one compares whole tuples and, evaluated under {equal, "
        "different}, raises on `different` and continues on `equal`")
    check_polarity(ctx, rep, "C05.polarity", check, 2)
    check_polarity(ctx, rep, "C05.polarity", rec, 1)

    rep.rule(
        "C05.cover",
        "check(): when expected root digests are supplied the current root "
        "digests are compared; every value of the split table goes to the "
        "recursive verifier; for every split every ShardInfo of "
        "shard_info_iterator and every element of its file_infos is hashed "
        "(root / file_path, the dataset's configured algorithms) and "
        "compared. The recursive verifier hashes the list file it was given, "
        "parses the same path and calls itself for every child")
    # (a) root
    cmc = [c for c in check.calls() if ctx.is_call(
        check, c, method="current_metadata_checksums")]
    g = None
    for c in cmc:
        p = c
        while p is not None and not isinstance(p, ast.If):
            p = parent(p)
        g = p
    def only_given(test: ast.AST, call: ast.AST) -> bool:
        # `if given:` around the comparison, or `if given and <comparison>:`
        if ast.unparse(test) == "hash_checksums_values":
            return True
        return isinstance(test, ast.BoolOp) and isinstance(
            test.op, ast.And) and ast.unparse(test.values[0]) == \
            "hash_checksums_values" and any(
                x is call for v_ in test.values[1:] for x in ast.walk(v_))

    rep.ob("C05.cover", bool(cmc) and isinstance(g, ast.If) and
           only_given(g.test, cmc[-1]), loc=check.loc(),
           where=check.qualname,
           construct=f"if {short(g.test) if g else '?'}: compare root digests",
           message="supplied root digests are verified")
    # ... on every path: with expected root digests supplied no normal exit
    # of check() is reachable without computing the current root digests and
    # without passing a comparison (an early "nothing to check" return would
    # accept a rolled-back description)
    from sa.cfg import TRUTHY as _T
    cfg_r = CFG(check, env={"hash_checksums_values": _T})
    nf_ = lambda a, b, lab: lab not in ("exc", "raise")  # noqa: E731
    cmc_nodes = [n for n in cfg_r.calls() if ctx.is_call(
        check, n.ast, method="current_metadata_checksums")]
    around = cfg_r.reachable([cfg_r.entry], avoiding=cmc_nodes, follow=nf_)
    rep.ob("C05.cover", bool(cmc_nodes) and cfg_r.exit not in around,
           loc=check.loc(), where=check.qualname,
           construct="expected root digests given: every normal path "
           "computes the current root digests",
           message="the root comparison cannot be skipped by an early return")
    cm = ctx.fn(f"{DW}.current_metadata_checksums")
    hc = [c for c in cm.calls() if ctx.is_call(cm, c, "utils.hash_checksums")]
    fp = ctx.arg(hc[0], 0, "file_path") if hc else None
    # (locals expanded; properties are inlined by the normaliser)
    from sa.norm import canon as _canon5
    fdef_s = _canon5(cm, fp) if fp is not None else ""
    rep.ob("C05.cover", fdef_s in (
        "self._get_config_path(self.path)",
        "self._get_config_path(path=self.path)",
        "DatasetWriting._get_config_path(self.path)",
        "DatasetBase._get_config_path(self.path)") and "hash_checksum_algorithms" in
           ast.unparse(ctx.arg(hc[0], 1, "hashes") or ast.Constant(0)),
           loc=cm.loc(), where=cm.qualname,
           construct=short(hc[0], 110) if hc else "<none>",
           message="root digests are those of the description file under the "
           "configured algorithms")
    # the verifier receives either the ShardListInfo record or its FileInfo
    from sa import norm
    param = rec.params()[1]
    ann = rec.param_annotation(param)
    takes_file = ann is not None and "FileInfo" in ast.unparse(ann)
    rec_file = param if takes_file else f"{param}.shard_list_info_file"

    def passes_record(fn_, call, elem: str) -> bool:
        """the call hands over the record of `elem` in the form the verifier
        takes"""
        if not call.args and not call.keywords:
            return False
        a = (list(call.args) + [k.value for k in call.keywords])[0]
        want = f"{elem}.shard_list_info_file" if takes_file else elem
        return norm.canon(fn_, a) == want

    # (b) all splits -> recursive verifier
    loops = [n for n in check.body_nodes() if isinstance(n, ast.For)]
    l1 = [l for l in loops if ast.unparse(l.iter) in (
        "self._dataset_info.splits.values()", )]
    ok_b = len(l1) == 1 and any(
        ctx.is_call(check, c, method="_check_shard_list_info") and
        passes_record(check, c, dotted(l1[0].target))
        for c in ast.walk(l1[0])
        if isinstance(c, ast.Call)) and not any(
            isinstance(x, (ast.Break, ast.Continue, ast.If))
            for x in ast.walk(l1[0]))
    rep.ob("C05.cover", ok_b, loc=check.loc(l1[0]) if l1 else check.loc(),
           where=check.qualname,
           construct="for info in self._dataset_info.splits.values(): "
           "self._check_shard_list_info(info)",
           message="every split's list tree is verified")
    # (c) all shards of all splits
    l2 = [l for l in loops if ast.unparse(l.iter) in (
        "self._dataset_info.splits", "self._dataset_info.splits.keys()")]
    ok_c = False
    detail = "<no loop over the splits>"
    if len(l2) == 1:
        inner = [l for l in ast.walk(l2[0]) if isinstance(l, ast.For) and
                 l is not l2[0]]
        it_shards = [l for l in inner if "shard_info_iterator" in
                     ast.unparse(l.iter)]
        it_files = [l for l in inner if ast.unparse(l.iter).endswith(
            ".file_infos")]
        if it_shards and it_files:
            s_it = it_shards[0].iter
            calls = [c for c in ast.walk(s_it) if isinstance(c, ast.Call) and
                     ast.unparse(c.func).endswith("shard_info_iterator")]
            arg_ok = calls and calls[0].args and dotted(calls[0].args[0]) == \
                dotted(l2[0].target)
            no_slice = not any(isinstance(x, (ast.Slice, ast.Subscript))
                               for x in ast.walk(s_it)) and not any(
                                   isinstance(x, ast.Slice) for x in
                                   ast.walk(it_files[0].iter))
            files_of = dotted(it_files[0].iter.value) == dotted(
                it_shards[0].target)
            nested = any(x is it_files[0] for x in ast.walk(it_shards[0]))
            hcalls = [c for c in ast.walk(it_files[0]) if isinstance(c, ast.Call)
                      and ctx.is_call(check, c, "utils.hash_checksums")]
            h_ok = len(hcalls) == 1 and norm.canon(check, ctx.arg(
                hcalls[0], 0, "file_path")) == \
                f"self.path / {it_files[0].target.id}.file_path" and \
                "hash_checksum_algorithms" in ast.unparse(
                    ctx.arg(hcalls[0], 1, "hashes"))
            no_skip = not any(isinstance(x, (ast.Break, ast.Continue))
                              for x in ast.walk(l2[0]))
            ok_c = bool(arg_ok and no_slice and files_of and nested and h_ok
                        and no_skip)
            detail = (f"split arg={bool(arg_ok)}, no slice={no_slice}, "
                      f"file_infos of shard={files_of}, hash of root/file_path "
                      f"with configured algorithms={h_ok}, no skip={no_skip}")
    rep.ob("C05.cover", ok_c, loc=check.loc(l2[0]) if l2 else check.loc(),
           where=check.qualname,
           construct="for split: for shard_info in shard_info_iterator(split): "
           "for file_info in shard_info.file_infos: hash + compare",
           message=f"every file of every shard of every split is hashed: "
           f"{detail}")
    # recursive verifier
    rhc = [c for c in rec.calls() if ctx.is_call(rec, c, "utils.hash_checksums")]
    reads = [c for c in rec.calls() if isinstance(c.func, ast.Attribute) and
             c.func.attr == "read_text"]
    fp_def = None
    for n in rec.body_nodes():
        if isinstance(n, (ast.Assign, ast.AnnAssign)):
            t = n.targets[0] if isinstance(n, ast.Assign) else n.target
            if dotted(t) == "file_path":
                fp_def = n.value
    ok_r = len(rhc) == 1 and len(reads) == 1 and fp_def is not None and \
        norm.canon(rec, fp_def) == f"{rec_file}.file_path" and \
        norm.canon(rec, ctx.arg(rhc[0], 0, "file_path")) == \
        f"self.path / {rec_file}.file_path" \
        and norm.canon(rec, reads[0].func.value) == \
        f"self.path / {rec_file}.file_path" and \
        "hash_checksum_algorithms" in ast.unparse(ctx.arg(rhc[0], 1, "hashes"))
    rep.ob("C05.cover", ok_r, loc=rec.loc(), where=rec.qualname,
           construct="hash(self.path / file_path) ... parse(self.path / "
           "file_path)",
           message="the list file named by the parent's record is the one "
           "hashed and the one parsed")
    exp = [n for n in rec.body_nodes() if isinstance(n, (ast.Assign,
                                                         ast.AnnAssign))
           and n.value is not None and norm.canon(rec, n.value).endswith(
               ".hash_checksums") and isinstance(n.value, ast.Attribute)]
    rep.ob("C05.cover", len(exp) == 1 and norm.canon(rec, exp[0].value) ==
           f"{rec_file}.hash_checksums", loc=rec.loc(),
           where=rec.qualname, construct=short(exp[0]) if exp else "<none>",
           message="the expected digests are the ones recorded by the parent")
    rl = [l for l in rec.body_nodes() if isinstance(l, ast.For)]
    ok_rec = len(rl) == 1 and ast.unparse(rl[0].iter).endswith(
        ".children_shard_lists") and any(
            ctx.is_call(rec, c, method="_check_shard_list_info") and
            passes_record(rec, c, dotted(rl[0].target))
            for c in ast.walk(rl[0])
            if isinstance(c, ast.Call)) and not any(
                isinstance(x, (ast.Break, ast.Continue, ast.If))
                for x in ast.walk(rl[0]))
    parsed = [n for n in rec.body_nodes() if isinstance(n, (ast.Assign,
                                                            ast.AnnAssign))
              and "model_validate_json" in ast.unparse(n.value or
                                                       ast.Constant(0))]
    ok_rec = ok_rec and len(parsed) == 1 and dotted(rl[0].iter.value) == dotted(
        parsed[0].targets[0] if isinstance(parsed[0], ast.Assign) else
        parsed[0].target)
    rep.ob("C05.cover", ok_rec, loc=rec.loc(rl[0]) if rl else rec.loc(),
           where=rec.qualname,
           construct="for child in <parsed list>.children_shard_lists: "
           "self._check_shard_list_info(child)",
           message="every child of the parsed list is verified recursively")
    # hash before parse (a damaged list is reported as a digest mismatch)
    cfg = ctx.cfg(rec)
    cmp_nodes = [n for n in cfg.nodes if n.kind == "test"]
    rd = cfg.calls(lambda c: isinstance(c.func, ast.Attribute) and
                   c.func.attr == "read_text")
    missed = cfg.always_before(cmp_nodes, rd, normal_only=True)
    rep.ob("C05.cover", bool(cmp_nodes) and not missed, loc=rec.loc(),
           where=rec.qualname, construct="compare -> parse",
           message="the digest comparison precedes parsing the list file")

    from sa.rules.c04 import check_fresh_records
    check_fresh_records(ctx, rep, "C05.fresh")

    rep.rule(
        "C05.same-walk",
        "check() enumerates shards through the same shard_info_iterator the "
        "iteration interfaces use, so everything that can be read is "
        "verified; the multi-writer call runs check() after its final "
        "write_config")
    base_it = ctx.fn("sedpack.io.dataset_base:DatasetBase.shard_info_iterator")
    tg = [t for c in check.calls() if ast.unparse(c.func).endswith(
        "shard_info_iterator") for t in ctx.internal_targets(check, c)]
    rep.ob("C05.same-walk", bool(tg) and all(t is base_it for t in tg),
           loc=check.loc(), where=check.qualname,
           construct="self.shard_info_iterator(split)",
           message="one enumeration routine for reading and verifying")
    wm = ctx.fn(f"{DW}.write_multiprocessing")
    wcfg = ctx.cfg(wm)
    chk = wcfg.calls(lambda c: ctx.is_call(wm, c, method="check"))
    wcs = wcfg.calls(lambda c: ctx.is_call(wm, c, method="write_config"))
    missed = wcfg.always_before(wcs, chk, normal_only=True)
    rep.ob("C05.same-walk", bool(chk) and not missed, loc=wm.loc(),
           where=wm.qualname, construct="write_config -> check()",
           message="the consistency check looks at the committed state")
    from sa.rules import shared
    shared.check_no_memo(ctx, rep, "C05.memo")
    # the verifier hashes exactly the file's bytes (same check as C16.feed)
    from sa.rules import shared as _sh05
    _sh05.share_rules(ctx, rep, "c16", {"C16.feed": "C05.feed"})
    from sa.rules import shared as _shl
    _shl.check_log_args_pure(ctx, rep, "C05.log")
    # the "current" digests of the description are computed now, from the file
    from sa import pathval
    cur = ctx.fn(f"{DW}.current_metadata_checksums")
    rets = pathval.returned_on(ctx, cur, {})
    ok = rets != pathval.RAISES and bool(rets) and all(
        isinstance(r, ast.Call) and ctx.is_call(cur, r, "utils.hash_checksums")
        for r in rets)
    hashes_ok = ok and all("hash_checksum_algorithms" in ast.unparse(
        ctx.arg(r, 1, "hashes") or ast.Constant(0)) for r in rets)
    rep.ob("C05.cover", ok and hashes_ok, loc=cur.loc(), where=cur.qualname,
           construct="returns " + "; ".join(short(r, 70) for r in rets)
           if isinstance(rets, list) else "raises",
           message="every result is hash_checksums(<description file>, "
           "<configured algorithms>) computed in this call; a remembered "
           "value would hide a modification made since")
    # check() verifies what the walk enumerates: the walk must be complete
    from sa.rules.c02 import check_walk
    check_walk(ctx, rep, "C05.walk")



_DW = "src/sedpack/io/dataset_writing.py"
SELFTESTS = [
    dict(rule="C05.polarity", name="shard-compare-inverted", expect="fire", path=_DW,
         old="                    if real_hashes != file_info.hash_checksums:\n",
         new="                    if real_hashes == file_info.hash_checksums:\n"),
    dict(rule="C05.polarity", name="not-eq-twin", expect="silent", path=_DW,
         old="        if real != expected:\n            raise ValueError(f\"Hash checksum miss-match in {file_path} \"",
         new="        if not real == expected:\n            raise ValueError(f\"Hash checksum miss-match in {file_path} \""),
    dict(rule="C05.polarity", name="zip-truncated", expect="fire", path=_DW,
         old="        if real != expected:\n            raise ValueError(f\"Hash checksum miss-match in {file_path} \"",
         new="        if any(r != e for r, e in zip(real, expected)):\n            raise ValueError(f\"Hash checksum miss-match in {file_path} \""),
    dict(rule="C05.polarity", name="first-digest-only", expect="fire", path=_DW,
         old="                    if real_hashes != file_info.hash_checksums:\n",
         new="                    if real_hashes[0] != file_info.hash_checksums[0]:\n"),
    dict(rule="C05.polarity", name="mismatch-only-logged", expect="fire", path=_DW,
         old="                    if real_hashes != file_info.hash_checksums:\n                        raise ValueError(\n                            f\"Hash checksum miss-match in {file_info.file_path}\"\n                        )\n",
         new="                    if real_hashes != file_info.hash_checksums:\n                        self._logger.warning(\"mismatch %s\", file_info.file_path)\n"),
    dict(rule="C05.cover", name="children-not-verified", expect="fire", path=_DW,
         old="        for child in shard_list.children_shard_lists:\n            self._check_shard_list_info(child)\n",
         new=""),
    dict(rule="C05.cover", name="first-file-only", expect="fire", path=_DW,
         old="                for file_info in shard_info.file_infos:\n",
         new="                for file_info in shard_info.file_infos[:1]:\n"),
    dict(rule="C05.polarity", name="early-return-empty-record", expect="fire", path=_DW,
         old="        expected: tuple[\n            str, ...] = shard_list_info.shard_list_info_file.hash_checksums\n",
         new="        expected: tuple[\n            str, ...] = shard_list_info.shard_list_info_file.hash_checksums\n        if not expected:\n            return\n"),
    dict(rule="C05.cover", name="hash-other-path", expect="fire", path=_DW,
         old="                        file_path=self.path / file_info.file_path,\n                        hashes=self._dataset_info.dataset_structure.\n                        hash_checksum_algorithms)",
         new="                        file_path=self.path / shard_info.file_infos[0].file_path,\n                        hashes=self._dataset_info.dataset_structure.\n                        hash_checksum_algorithms)"),
    dict(rule="C05.cover", name="train-split-only", expect="fire", path=_DW,
         old="        for shard_list_info in self._dataset_info.splits.values():\n            self._check_shard_list_info(shard_list_info)\n",
         new="        for split_name, shard_list_info in self._dataset_info.splits.items():\n            if split_name == \"train\":\n                self._check_shard_list_info(shard_list_info)\n"),
]
