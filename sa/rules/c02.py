"""C02 - exactly-once delivery: structural clauses of the buffering and
dispatch code."""
from __future__ import annotations

import ast

from sa.cfg import CFG, TRUTHY, Node, handler_names
from sa.context import Context, names_in
from sa.dataflow import EMPTY, TagFlow, param_tags
from sa.model import AnalysisError, FunctionInfo, ancestors, dotted, parent, short
from sa.rules import common as C, rustrules
from sa.rules.common import init_field_aliases

ITM = "sedpack.io.itertools.itertools"
ASYNC_CLOSING = {"zip", "map", "enumerate", "islice", "chain", "filter",
                 "takewhile", "dropwhile", "accumulate", "starmap", "batched",
                 "pairwise", "zip_longest", "compress", "tee", "cycle", "list",
                 "tuple", "set", "dict", "sum", "min", "max", "any", "all",
                 "reduce"}


def is_next_call(c: ast.AST) -> bool:
    return isinstance(c, ast.Call) and isinstance(c.func, ast.Name) and \
        c.func.id in ("next", "anext")


def partial_consumers(ctx: Context, fn: FunctionInfo):
    """[(call, variable name, kind)] sites that consume only part of an
    iterator held in a variable."""
    out = []
    for c in fn.calls():
        names = ctx.names(fn, c)
        f = c.func
        fname = f.id if isinstance(f, ast.Name) else (
            f.attr if isinstance(f, ast.Attribute) else None)
        if is_next_call(c) and c.args and isinstance(c.args[0], ast.Name):
            out.append((c, c.args[0].id, "next"))
        elif fname == "zip" and any(isinstance(a, ast.Call) and isinstance(
                a.func, ast.Name) and a.func.id == "range" for a in c.args):
            for a in c.args:
                if isinstance(a, ast.Name):
                    out.append((c, a.id, "zip(range)"))
                elif isinstance(a, ast.Call) and ast.unparse(a.func).endswith(
                        "borrow") and a.args and isinstance(a.args[0], ast.Name):
                    out.append((c, a.args[0].id, "zip(range)"))
        elif fname == "islice" and c.args and isinstance(c.args[0], ast.Name):
            out.append((c, c.args[0].id, "islice"))
        elif fname == "enumerate" and c.args and isinstance(
                c.args[0], ast.Name) and isinstance(parent(c), ast.For) and any(
                    isinstance(x, ast.Break) for x in ast.walk(parent(c))):
            out.append((c, c.args[0].id, "enumerate+break"))
    return out


def check_iter(ctx: Context, rep, rule: str, funcs: list[FunctionInfo]) -> None:
    rep.rule(
        rule,
        "single-iterator discipline: a variable consumed by more than one "
        "partial consumer (zip(range(n), x), islice(x, n), next/anext, "
        "enumerate with break) - or by one inside a loop - is bound to a "
        "one-shot iterator (iter()/aiter(), an itertools / map / zip object, "
        "a generator) before its first consumption and not rebound "
        "afterwards (a re-iterable input such as a list would otherwise be "
        "restarted and its head delivered twice)")
    n = 0
    for fn in funcs:
        sites = partial_consumers(ctx, fn)
        by_var: dict[str, list] = {}
        for c, v, k in sites:
            by_var.setdefault(v, []).append((c, k))
        cfg = ctx.cfg(fn)
        for v, uses in sorted(by_var.items()):
            in_loop = any(isinstance(a, (ast.For, ast.While, ast.AsyncFor))
                          for c, _k in uses for a in ancestors(c)
                          if a is not parent(c))
            if len(uses) < 2 and not in_loop:
                continue
            n += 1
            binds = [x for x in cfg.nodes if x.kind == "stmt" and isinstance(
                x.ast, (ast.Assign, ast.AnnAssign)) and dotted(
                    x.ast.targets[0] if isinstance(x.ast, ast.Assign) else
                    x.ast.target) == v]
            from sa.rules.common import is_iterator_expr
            iter_binds = [b for b in binds if is_iterator_expr(
                ctx, fn, b.ast.value)]
            use_nodes = [x for x in cfg.nodes if x.kind == "call" and any(
                x.ast is c for c, _k in uses)]
            missed = cfg.always_before(iter_binds, use_nodes)
            rebound = [b for b in binds if b not in iter_binds and any(
                b in cfg.reachable([ib], strict=True) for ib in iter_binds)]
            rep.ob(rule, bool(iter_binds) and not missed and not rebound,
                   loc=fn.loc(uses[0][0]), where=fn.qualname,
                   construct=f"{v}: {len(uses)} partial consumer(s) "
                   f"[{', '.join(sorted({k for _c, k in uses}))}], "
                   f"iter() binding: {bool(iter_binds)}",
                   message=f"`{v}` must be made a single iterator before it "
                   "is consumed piecewise")
    rep.floor(rule, n, 6, "piecewise-consumed variables")


def check_zip(ctx: Context, rep, rule: str, funcs) -> None:
    rep.rule(
        rule,
        "in a bounded prefill the finite bound is pulled before the source: "
        "zip(range(n), src), never zip(src, range(n)) (which pulls and drops "
        "one element of src when the range ends)")
    n = 0
    for fn in funcs:
        for c in fn.calls():
            f = c.func
            fname = f.id if isinstance(f, ast.Name) else (
                f.attr if isinstance(f, ast.Attribute) else None)
            if fname != "zip" or len(c.args) < 2:
                continue
            ranges = [i for i, a in enumerate(c.args) if isinstance(a, ast.Call)
                      and isinstance(a.func, ast.Name) and a.func.id == "range"]
            if not ranges:
                continue
            n += 1
            rep.ob(rule, ranges[0] == 0, loc=fn.loc(c), where=fn.qualname,
                   construct=short(c, 80),
                   message="the bound must be the first argument of zip")
    # a prefill may also be written as a counted loop with an explicit pull
    # (`for _ in range(n): x = next(src)`), which has no such pitfall
    counted = 0
    for fn in funcs:
        for lp in [x for x in fn.body_nodes() if isinstance(x, ast.For)]:
            it = lp.iter
            if isinstance(it, ast.Call) and isinstance(it.func, ast.Name) and \
                    it.func.id == "range" and any(
                        isinstance(x, ast.Call) and isinstance(
                            x.func, ast.Name) and x.func.id in ("next", "anext")
                        for b in lp.body for x in ast.walk(b)):
                counted += 1
    rep.floor(rule, n + counted, 3, "bounded prefills")


def check_borrow(ctx: Context, rep, rule: str, funcs) -> None:
    rep.rule(
        rule,
        "ownership of a source iterator: a variable that is used again after "
        "being passed to an asyncstdlib iterator tool (they all aclose() "
        "their inputs when they finish) must be lent with "
        "asyncstdlib.borrow(...) / scoped_iter; builtin zip, islice, next, "
        "anext do not close")
    n = 0
    for fn in funcs:
        cfg = ctx.cfg(fn)
        for node in cfg.calls():
            c = node.ast
            q = ctx.repo.qualify(fn.module, c.func) or ""
            if not q.startswith("asyncstdlib.") or q.rsplit(".", 1)[-1] not in \
                    ASYNC_CLOSING and not q.startswith("asyncstdlib.chain"):
                continue
            for a in c.args:
                if not isinstance(a, ast.Name):
                    continue
                v = a.id
                rebinds = [x for x in cfg.nodes if x.kind in ("stmt", "for",
                                                              "with") and
                           x.ast is not None and any(
                               isinstance(y, ast.Name) and y.id == v and
                               isinstance(y.ctx, ast.Store)
                               for y in ast.walk(x.ast))]
                if any(r.stmt is node.stmt for r in rebinds):
                    continue  # the consuming statement rebinds the name
                later = cfg.reachable([node], avoiding=rebinds, strict=True)
                used_later = [x for x in later if x.ast is not None and
                              x.stmt is not node.stmt and
                              x.kind in ("call", "stmt", "yield", "for", "test")
                              and any(isinstance(y, ast.Name) and y.id == v and
                                      isinstance(y.ctx, ast.Load)
                                      for y in ast.walk(
                                          x.ast if x.kind != "for" else
                                          x.ast.iter))]
                if not used_later:
                    continue
                n += 1
                rep.ob(rule, False, loc=fn.loc(c), where=fn.qualname,
                       construct=short(c, 80),
                       message=f"`{v}` is closed by this asyncstdlib tool but "
                       f"used again at L{used_later[0].lineno}; everything "
                       "after the prefill would be lost")
            for a in c.args:
                if isinstance(a, ast.Call) and (ctx.repo.qualify(
                        fn.module, a.func) or "").endswith(("asyncstdlib.borrow",
                                                            "scoped_iter")):
                    n += 1
                    rep.ob(rule, True, loc=fn.loc(c), where=fn.qualname,
                           construct=short(c, 80),
                           message="source is only lent to the closing tool")
    rep.info(rule, f"{n} lending site(s) of reused iterators inspected")


# ---------------------------------------------------------------------------
def gen_facts(ctx: Context, fn: FunctionInfo):
    cfg = ctx.cfg(fn)
    src = fn.params()[0]
    pulls = [n for n in cfg.calls() if is_next_call(n.ast) and n.ast.args and
             dotted(n.ast.args[0]) == src]
    return cfg, src, pulls


def find_buffer(fn: FunctionInfo):
    """(buffer variable, prefill comprehension or None): the buffer is a
    local bound to [] (filled by a prefill loop) or to a list comprehension
    over zip(range(n), source)."""
    buf = None
    comp = None
    for n in fn.body_nodes():
        if isinstance(n, (ast.Assign, ast.AnnAssign)) and n.value is not None:
            t = n.targets[0] if isinstance(n, ast.Assign) else n.target
            if isinstance(n.value, ast.List) and not n.value.elts:
                buf, comp = dotted(t), None
            elif isinstance(n.value, ast.ListComp) and len(
                    n.value.generators) == 1 and "zip(" in ast.unparse(
                        n.value.generators[0].iter) and "range(" in \
                    ast.unparse(n.value.generators[0].iter):
                buf, comp = dotted(t), n.value
    return buf, comp


def check_value_buffer(ctx: Context, rep, rule: str, fn: FunctionInfo) -> None:
    cfg, src, pulls = gen_facts(ctx, fn)
    buf, comp_prefill = find_buffer(fn)
    if buf is None or len(pulls) != 1:
        raise AnalysisError(f"{fn.qualname}: value buffer / pull site not "
                            f"recognised (buffer={buf}, pulls={len(pulls)})")
    pull = pulls[0]
    # exhaustion must be signalled by StopIteration, not by an in-band value
    ok_pull = len(pull.ast.args) == 1 and not pull.ast.keywords
    handlers = [h for h, lab in pull.succ if lab == "exc" and h.kind == "except"]
    stop = [h for h in handlers if set(handler_names(h.ast)) & {
        "StopIteration", "StopAsyncIteration"}]
    ok_stop = bool(stop) and all(
        isinstance(h.ast.body[-1], ast.Break) and len(h.ast.body) == 1
        for h in stop)
    rep.ob(rule, ok_pull and ok_stop, loc=fn.loc(pull.ast), where=fn.qualname,
           construct=short(pull.ast) + (" / except StopIteration: break"
                                        if ok_stop else ""),
           message="end of input is recognised only by the iterator protocol "
           "(no default value that a legal element could equal)")
    # prefill keeps every pulled element
    pre = [n for n in fn.body_nodes() if isinstance(n, (ast.For, ast.AsyncFor))
           and "zip" in ast.unparse(n.iter) and src in names_in(n.iter)]
    ok_pre = False
    if comp_prefill is not None:
        g = comp_prefill.generators[0]
        ok_pre = isinstance(g.target, ast.Tuple) and not g.ifs and dotted(
            comp_prefill.elt) == dotted(g.target.elts[1]) and src in \
            names_in(g.iter)
        pre_desc = short(comp_prefill, 90)
        pre_node = comp_prefill
    elif len(pre) == 1 and isinstance(pre[0].target, ast.Tuple):
        item = pre[0].target.elts[1]
        ok_pre = len(pre[0].body) == 1 and ast.unparse(pre[0].body[0]) == \
            f"{buf}.append({dotted(item)})"
        pre_desc = short(pre[0], 90)
        pre_node = pre[0]
    else:
        pre_desc, pre_node = "<no prefill>", None
    rep.ob(rule, ok_pre, loc=fn.loc(pre_node) if pre_node is not None else
           fn.loc(), where=fn.qualname, construct=pre_desc,
           message="every element pulled by the prefill is kept in the "
           "buffer")
    # main loop: yield buffer[i] then buffer[i] = new
    ys = [n for n in cfg.find(lambda n: n.kind == "yield") if isinstance(
        n.ast, ast.Yield) and isinstance(n.ast.value, ast.Subscript) and
          dotted(n.ast.value.value) == buf]
    ss = [n for n in cfg.nodes if n.kind == "stmt" and isinstance(
        n.ast, ast.Assign) and isinstance(n.ast.targets[0], ast.Subscript) and
          dotted(n.ast.targets[0].value) == buf]
    pulled_var = None
    if isinstance(pull.stmt, (ast.Assign, ast.AnnAssign)):
        t = pull.stmt.targets[0] if isinstance(pull.stmt, ast.Assign) else \
            pull.stmt.target
        pulled_var = dotted(t)
    heads = [n for n in cfg.nodes if n.kind == "loop"]
    ok_main = len(ys) == 1 and len(ss) == 1 and pulled_var is not None
    detail = ""
    if ok_main:
        y, s = ys[0], ss[0]
        same_idx = ast.unparse(y.ast.value.slice) == ast.unparse(
            s.ast.targets[0].slice)
        stores_pulled = dotted(s.ast.value) == pulled_var
        norm = lambda a, b, lab: lab not in ("exc", "raise")  # noqa: E731
        after_pull = [m for m, lab in pull.succ if lab == "next"]
        # store not reachable from the pull without the yield
        s_without_y = s in cfg.reachable(after_pull, avoiding=[y], follow=norm)
        # next round not reachable without the store
        head_without_s = any(h in cfg.reachable(after_pull, avoiding=[s],
                                                follow=norm) for h in heads)
        # index variable not modified between yield and store
        idx_names = names_in(y.ast.value.slice)
        between = cfg.reachable([y], avoiding=[s], strict=True, follow=norm)
        idx_mod = [n for n in between if n.kind == "stmt" and isinstance(
            n.ast, (ast.Assign, ast.AugAssign)) and names_in(
                n.ast.targets[0] if isinstance(n.ast, ast.Assign) else
                n.ast.target) & (idx_names | {buf})]
        ok_main = same_idx and stores_pulled and not s_without_y and \
            not head_without_s and not idx_mod
        detail = (f"same index={same_idx}, stores pulled element="
                  f"{stores_pulled}, store before yield possible={s_without_y}, "
                  f"round without store possible={head_without_s}, index "
                  f"modified in between={bool(idx_mod)}")
    rep.ob(rule, ok_main, loc=fn.loc(ys[0].ast) if ys else fn.loc(),
           where=fn.qualname,
           construct=f"yield {buf}[i]; {buf}[i] = {pulled_var}",
           message="per pulled element one buffered element is yielded and "
           f"its slot takes the new one ({detail})")
    # no other growth / shrink of the buffer
    muts = [c for c in fn.calls() if isinstance(c.func, ast.Attribute) and
            dotted(c.func.value) == buf and c.func.attr in (
                "append", "pop", "remove", "clear", "insert", "extend")]
    outside = [c for c in muts if not (pre and any(c is x for x in ast.walk(pre[0])))]
    if comp_prefill is not None:
        outside = muts
    dels = [n for n in fn.body_nodes() if isinstance(n, ast.Delete) and
            buf in ast.unparse(n)]
    rep.ob(rule, not outside and not dels, loc=fn.loc(), where=fn.qualname,
           construct=f"buffer mutations outside the prefill: "
           f"{[short(c) for c in outside] + [short(d) for d in dels]}",
           message="the buffer neither grows beyond the prefill nor drops "
           "elements")
    # flush
    flush = [n for n in cfg.find(lambda n: n.kind == "yield") if (
        isinstance(n.ast, ast.YieldFrom) and dotted(n.ast.value) == buf)]
    flush_loops = [n for n in cfg.nodes if n.kind == "for" and dotted(
        n.ast.iter) == buf and len(n.ast.body) == 1 and isinstance(
            n.ast.body[0], ast.Expr) and isinstance(
                n.ast.body[0].value, ast.Yield) and dotted(
                    n.ast.body[0].value.value) == dotted(n.ast.target)]
    fl = flush + flush_loops
    reach = cfg.reachable([cfg.entry], avoiding=fl,
                          follow=lambda a, b, lab: lab not in ("exc", "raise"))
    rep.ob(rule, bool(fl) and cfg.exit not in reach, loc=fn.loc(),
           where=fn.qualname, construct=f"flush: yield from {buf}",
           message="every normal end of the generator first yields all that "
           "is left in the buffer")
    rets = [n for n in fn.body_nodes() if isinstance(n, ast.Return)]
    rep.ob(rule, not rets, loc=fn.loc(rets[0]) if rets else fn.loc(),
           where=fn.qualname, construct=f"{len(rets)} return statement(s)",
           message="no early return that would skip the flush")


def check_iter_buffer(ctx: Context, rep, rule: str, fn: FunctionInfo) -> None:
    cfg, src, pulls = gen_facts(ctx, fn)
    buf, comp_prefill = find_buffer(fn)
    if buf is None:
        raise AnalysisError(f"{fn.qualname}: buffer not recognised")
    loops = [n for n in fn.body_nodes() if isinstance(n, ast.While)]
    main = [l for l in loops if buf in names_in(l.test)]
    ok_loop = len(main) == 1 and (
        dotted(main[0].test) == buf or ast.unparse(main[0].test) in (
            f"len({buf}) > 0", f"len({buf}) != 0", f"len({buf}) >= 1"))
    rep.ob(rule, ok_loop, loc=fn.loc(main[0]) if main else fn.loc(),
           where=fn.qualname,
           construct=f"while {short(main[0].test) if main else '?'}",
           message="the generator runs until the buffer of open inner "
           "iterators is empty")
    if not main:
        return
    lp = main[0]
    exits = [n for n in ast.walk(lp) if isinstance(n, (ast.Break, ast.Return))]
    rep.ob(rule, not exits, loc=fn.loc(exits[0]) if exits else fn.loc(lp),
           where=fn.qualname, construct=f"{len(exits)} break/return in the loop",
           message="the loop can only end through its condition")
    after = [s for s in fn.node.body[fn.node.body.index(lp) + 1:]] if lp in \
        fn.node.body else []
    rep.ob(rule, not any(isinstance(x, (ast.Yield, ast.YieldFrom))
                         for s in after for x in ast.walk(s)),
           loc=fn.loc(), where=fn.qualname,
           construct=f"{len(after)} statement(s) after the main loop",
           message="nothing is yielded outside the round-robin loop (a "
           "leftover drain would skip the refill)")
    # yield next(buffer[pos]) inside try
    ys = [y for y in ast.walk(lp) if isinstance(y, ast.Yield)]
    ok_y = False
    slot = None
    tr = None
    if len(ys) == 1:
        v = ys[0].value
        if isinstance(v, ast.Await):
            v = v.value
        if is_next_call(v) and len(v.args) == 1 and isinstance(
                v.args[0], ast.Subscript) and dotted(v.args[0].value) == buf:
            slot = ast.unparse(v.args[0])
            tr = parent(parent(ys[0]))
            ok_y = isinstance(tr, ast.Try) and len(tr.body) == 1
    rep.ob(rule, ok_y, loc=fn.loc(ys[0]) if ys else fn.loc(lp),
           where=fn.qualname,
           construct=short(ys[0]) if ys else "<no yield>",
           message="each element pulled from a slot is yielded directly "
           "(nothing buffered in between)")
    if not ok_y:
        return
    # slot writes / removals only in the exhaustion handler of that slot
    hs = [h for h in tr.handlers if set(handler_names(h)) & {
        "StopIteration", "StopAsyncIteration"} and len(handler_names(h)) == 1]
    rep.ob(rule, len(hs) == 1 and len(tr.handlers) == 1, loc=fn.loc(tr),
           where=fn.qualname,
           construct="except " + ", ".join(n for h in tr.handlers
                                           for n in handler_names(h)),
           message="only exhaustion of the slot's iterator (StopIteration) "
           "is handled; other errors propagate")
    if not hs:
        return
    h = hs[0]
    writes = []
    for n in ast.walk(lp):
        if isinstance(n, ast.Assign) and isinstance(
                n.targets[0], ast.Subscript) and dotted(
                    n.targets[0].value) == buf:
            writes.append(n)
        if isinstance(n, ast.Delete) and any(
                isinstance(t, ast.Subscript) and dotted(t.value) == buf
                for t in n.targets):
            writes.append(n)
        if isinstance(n, ast.Call) and isinstance(n.func, ast.Attribute) and \
                dotted(n.func.value) == buf and n.func.attr in (
                    "pop", "remove", "clear", "append", "insert"):
            writes.append(n)
    inside = all(any(w is x for x in ast.walk(h)) for w in writes)
    rep.ob(rule, bool(writes) and inside, loc=fn.loc(h), where=fn.qualname,
           construct=f"{len(writes)} slot write(s)/removal(s), all in the "
           f"exhaustion handler: {inside}",
           message="a slot is replaced or removed only after its iterator is "
           "exhausted")
    # refill: buffer[pos] = iter(next(iterables)) in inner try; on
    # StopIteration of the source: swap-remove or del/pop of that slot
    inner = [t for t in h.body if isinstance(t, ast.Try)]
    ok_refill = False
    ok_remove = False
    if len(inner) == 1:
        it = inner[0]
        refill = [s for s in it.body if isinstance(s, ast.Assign)]
        if len(refill) == 1 and len(it.body) == 1:
            r = refill[0]
            val = r.value
            if isinstance(val, ast.Call) and isinstance(val.func, ast.Name) and \
                    val.func.id in ("iter", "aiter") and len(val.args) == 1:
                inner_pull = val.args[0]
                if isinstance(inner_pull, ast.Await):
                    inner_pull = inner_pull.value
                ok_refill = ast.unparse(r.targets[0]) == slot and \
                    is_next_call(inner_pull) and len(inner_pull.args) == 1 and \
                    dotted(inner_pull.args[0]) == src
        ih = [x for x in it.handlers if set(handler_names(x)) & {
            "StopIteration", "StopAsyncIteration"}]
        if len(ih) == 1 and len(it.handlers) == 1:
            body = [ast.unparse(s) for s in ih[0].body]
            pos = slot[len(buf) + 1:-1]
            ok_remove = body in (
                [f"{slot} = {buf}[-1]", f"del {buf}[-1]"],
                [f"{slot} = {buf}[-1]", f"{buf}.pop()"],
                [f"del {slot}"], [f"{buf}.pop({pos})"])
    rep.ob(rule, ok_refill, loc=fn.loc(h), where=fn.qualname,
           construct=f"{slot} = iter(next({src}))",
           message="an exhausted slot is refilled from the outer source "
           "(exactly one pull)")
    rep.ob(rule, ok_remove, loc=fn.loc(h), where=fn.qualname,
           construct="swap-remove of the exhausted slot (or del/pop of it)",
           message="when the outer source is exhausted exactly the exhausted "
           "slot is removed, no live iterator is dropped")
    # prefill wraps each pulled inner iterable with iter()/aiter()
    apps = [c for c in fn.calls() if isinstance(c.func, ast.Attribute) and
            dotted(c.func.value) == buf and c.func.attr == "append"]
    if comp_prefill is not None:
        e = comp_prefill.elt
        ok_app = not apps and isinstance(e, ast.Call) and isinstance(
            e.func, ast.Name) and e.func.id in ("iter", "aiter") and \
            not comp_prefill.generators[0].ifs
        desc = short(comp_prefill, 80)
    else:
        from sa.norm import expand as _xp
        a0 = _xp(fn, apps[0].args[0]) if len(apps) == 1 else None
        ok_app = len(apps) == 1 and isinstance(a0, ast.Call) and \
            isinstance(a0.func, ast.Name) and \
            a0.func.id in ("iter", "aiter") and not any(
                apps[0] is x for x in ast.walk(lp))
        desc = short(apps[0]) if apps else "<none>"
    rep.ob(rule, ok_app, loc=fn.loc(apps[0]) if apps else fn.loc(),
           where=fn.qualname, construct=desc,
           message="the buffer is filled once, before the main loop, with "
           "one iterator per inner iterable")


# ---------------------------------------------------------------------------
def check_once(ctx: Context, rep, rule: str) -> None:
    rep.rule(
        rule,
        "process_record is applied exactly once per yielded example: along "
        "every path of each interface (and of RustGenerator._single_iter) "
        "with a transformation given, the number of application sites - an "
        "explicit map(process_record, stream) / tf map, a shard reader "
        "constructed with it whose process_and_list is used, or delegation "
        "to another interface - is exactly 1; process_and_list applies the "
        "reader's function once per example and iterate_shard never does")
    targets = [ctx.fn(fq) for fq in C.INTERFACES] + [
        ctx.fn(f"{C.ITER_MOD}:RustGenerator._single_iter")]
    readers = {c.fq for c in ctx.repo.subclasses(ctx.repo.cls(
        "sedpack.io.shard.iterate_shard_base:IterateShardBase"))}
    iface_fqs = set(C.INTERFACES)
    for fn in targets:
        state = param_tags(fn)
        state.update(init_field_aliases(ctx, fn))
        env = {"process_record": TRUTHY, "self._process_record": TRUTHY}
        cfg = ctx.cfg(fn, env)
        tf = TagFlow(cfg, state)
        uses_pal = any(isinstance(n, ast.Attribute) and n.attr ==
                       "process_and_list" for n in fn.body_nodes())
        apply_nodes: dict[Node, str] = {}
        for node in cfg.calls():
            c = node.ast
            f = c.func
            fname = f.id if isinstance(f, ast.Name) else (
                f.attr if isinstance(f, ast.Attribute) else None)
            if fname == "map" and c.args and "process_record" in tf.tags_at(
                    node, c.args[0]) and not isinstance(c.args[0], ast.Attribute
                                                        ) or (
                    fname == "map" and c.args and dotted(c.args[0]) in (
                        "process_record", "self._process_record")):
                apply_nodes[node] = "map"
                continue
            # a reader built with the transformation applies it where its
            # process_and_list is used (iterate_shard never applies it)
            pal_refs = [x for x in list(c.args) + [k.value for k in c.keywords]
                        + [c.func] if isinstance(x, ast.Attribute) and
                        x.attr == "process_and_list" and "process_record" in
                        tf.tags_at(node, x.value)]
            if pal_refs:
                apply_nodes[node] = "reader+process_and_list"
                continue
            for t in ctx.res.resolve_call(fn, c, count=False):
                if t.kind == "class" and t.cls.fq in readers:
                    pass
                elif t.kind == "class" and t.cls.fq == C.RUST_GEN.replace(":", "."):
                    e = ctx.arg(c, None, "process_record")
                    if e is not None and "process_record" in tf.tags_at(node, e):
                        apply_nodes[node] = "delegation"
                elif t.kind == "internal" and t.fn.fq in iface_fqs:
                    e = ctx.arg(c, None, "process_record")
                    if e is not None and "process_record" in tf.tags_at(node, e):
                        apply_nodes[node] = "delegation"
        # how many applications a yielded / returned stream went through:
        # streams carry the set of possible counts {c0, c1, c2}; an
        # application site maps every count k to k+1; joins keep all
        # possibilities; what leaves the function must be exactly {c1}
        COUNTS = ("c0", "c1", "c2")
        site_of = {id(n.ast): k for n, k in apply_nodes.items()}

        def bump(tags: frozenset) -> frozenset:
            cur = [t for t in tags if t in COUNTS] or ["c0"]
            return frozenset(t for t in tags if t not in COUNTS) | frozenset(
                COUNTS[min(2, COUNTS.index(t) + 1)] for t in cur)

        def count_hook(e, st, rec):
            if isinstance(e, ast.Lambda):
                return rec(e.body)
            if isinstance(e, ast.Call) and id(e) in site_of:
                args = list(e.args) + [k.value for k in e.keywords]
                if isinstance(e.func, ast.Attribute):
                    args.append(e.func.value)
                t = frozenset()
                for a in args:
                    t |= rec(a)
                return bump(t)
            return None

        # application sites inside lambdas (delegation in as_tfdataset)
        for n in ast.walk(fn.node):
            if isinstance(n, ast.Lambda):
                for c in ast.walk(n.body):
                    if isinstance(c, ast.Call):
                        e = ctx.arg(c, None, "process_record")
                        if e is not None and "process_record" in names_in(e):
                            site_of[id(c)] = "delegation"
        tfc = TagFlow(cfg, {}, hook=count_hook)
        outs: list[tuple[ast.AST, frozenset]] = []
        live = cfg.live_nodes()
        for node in cfg.nodes:
            if node not in live:
                continue
            if node.kind == "yield" and node.ast.value is not None:
                outs.append((node.ast, tfc.tags_at(node, node.ast.value)))
            elif node.kind == "stmt" and isinstance(node.ast, ast.Return) and \
                    node.ast.value is not None and not fn.is_generator():
                outs.append((node.ast, tfc.tags_at(node, node.ast.value)))
        seen_counts = set()
        for _o, t in outs:
            seen_counts |= {x for x in t if x in COUNTS} or {"c0"}
        at_exit = sorted(COUNTS.index(x) for x in seen_counts)
        rep.ob(rule, bool(outs) and at_exit == [1], loc=fn.loc(),
               where=fn.qualname,
               construct=f"applications on the yielded / returned streams: "
               f"{at_exit}; sites: " + ", ".join(
                   f"L{n.lineno}:{k}" for n, k in sorted(
                       apply_nodes.items(), key=lambda kv: kv[0].lineno)),
               message="exactly one application of the caller's "
               "transformation on every path")
    # readers: process_and_list applies once, iterate_shard does not apply
    n = 0
    for fq in sorted(readers):
        ci = ctx.repo.lookup(fq)
        pal = ci.methods.get("process_and_list")
        it = ci.methods.get("iterate_shard")
        if pal is None or it is None:
            raise AnalysisError(f"{fq}: reader methods missing")
        n += 1
        rets = [x for x in pal.body_nodes() if isinstance(x, ast.Return)]
        # [f(e) for e in iterate_shard(path)] as a comprehension or a loop
        from sa import collalg as _ca
        ca_ = _ca.CollAlg(pal)
        rt = ca_.term(ca_.returns[0]) if len(ca_.returns) == 1 else None
        parts_ = _ca.concat_parts(rt) if rt is not None else []
        ok = len(parts_) == 1 and parts_[0][0] == "map" and \
            parts_[0][1][0] == "gen" and "iterate_shard(" in parts_[0][1][1] \
            and parts_[0][2].replace(" ", "") == \
            "func_or_identity(self.process_record)(_)"
        rep.ob(rule, ok, loc=pal.loc(), where=pal.qualname,
               construct="returns " + (_ca.pretty(rt)[:110]
                                       if rt is not None else "<none>"),
               message="process_and_list = [f(example) for example in "
               "iterate_shard(path)] with f the reader's function or identity")
        for m in (it, ci.methods.get("iterate_shard_async"),
                  ci.methods.get("_iterate_content")):
            if m is None:
                continue
            rep.ob(rule, not any(isinstance(x, ast.Attribute) and x.attr ==
                                 "process_record" for x in m.body_nodes()),
                   loc=m.loc(), where=m.qualname,
                   construct="no use of self.process_record",
                   message="plain shard iteration yields untransformed "
                   "examples")
    fo = ctx.fn("sedpack.io.utils:func_or_identity")
    rets = [ast.unparse(x) for x in fo.body_nodes() if isinstance(x, ast.Return)]
    rep.ob(rule, rets == ["return identity", "return f"], loc=fo.loc(),
           where=fo.qualname, construct="; ".join(rets),
           message="func_or_identity returns the given function unchanged")


def check_stateless(ctx: Context, rep, rule: str) -> None:
    rep.rule(
        rule,
        "the iteration interfaces keep no per-pass state on the shared "
        "dataset object: no method of the iteration mixin assigns a `self` "
        "attribute (two live passes over one Dataset would otherwise "
        "overwrite each other's decoder / transformation)")
    mix = ctx.repo.cls(f"{C.ITER_MOD}:DatasetIteration")
    n = 0
    for m in mix.methods.values():
        n += 1
        stores = []
        for x in m.body_nodes():
            tgts = []
            if isinstance(x, ast.Assign):
                tgts = x.targets
            elif isinstance(x, (ast.AugAssign, ast.AnnAssign)):
                tgts = [x.target]
            for t in tgts:
                base = t
                while isinstance(base, (ast.Attribute, ast.Subscript)):
                    base = base.value
                if isinstance(t, (ast.Attribute, ast.Subscript)) and isinstance(
                        base, ast.Name) and base.id == "self":
                    stores.append(x)
            if isinstance(x, ast.Call) and isinstance(x.func, ast.Name) and \
                    x.func.id == "setattr" and x.args and dotted(x.args[0]) == "self":
                stores.append(x)
        rep.ob(rule, not stores, loc=m.loc(stores[0]) if stores else m.loc(),
               where=m.qualname,
               construct=short(stores[0], 70) if stores else
               "no store into self", message="iteration methods only read "
               "the dataset object", sample=False)
    rep.floor(rule, n, 8, "iteration mixin methods")
    check_reader_stateless(ctx, rep, rule)


def check_reader_stateless(ctx: Context, rep, rule: str) -> None:
    """One shard reader object serves every shard of a pass, and an
    interleaving keeps several of its generators open at once: no method of
    a reader class besides __init__ stores into self (a buffer kept on the
    reader is overwritten by the next shard while an earlier generator still
    decodes from it)."""
    base = None
    for mod in ctx.repo.hand_written():
        for ci in mod.classes.values():
            if ci.name == "IterateShardBase":
                base = ci
    if base is None:
        raise AnalysisError(f"{rule}: IterateShardBase not found")
    n_r = 0
    for ci in [base] + list(ctx.repo.subclasses(base)):
        for m in ci.methods.values():
            if m.name == "__init__" or isinstance(m.node, ast.Lambda):
                continue
            n_r += 1
            stores = []
            for x in m.body_nodes():
                tgts = []
                if isinstance(x, ast.Assign):
                    tgts = x.targets
                elif isinstance(x, (ast.AugAssign, ast.AnnAssign)):
                    tgts = [x.target]
                for t in tgts:
                    b = t
                    while isinstance(b, (ast.Attribute, ast.Subscript)):
                        b = b.value
                    if isinstance(t, (ast.Attribute, ast.Subscript)) and \
                            isinstance(b, ast.Name) and b.id == "self":
                        # lazily created, shard-independent resource:
                        # `if not self.X: self.X = <no parameter involved>`
                        g = parent(x)
                        params_ = set(m.params()) - {"self"}
                        lazy = isinstance(g, ast.If) and isinstance(
                            t, ast.Attribute) and (dotted(t) or "") in \
                            ast.unparse(g.test) and all(
                                y.id == "self" or y.id in m.module.globals or
                                y.id in m.module.imports or
                                y.id in m.module.functions or
                                y.id in m.module.classes or
                                hasattr(__import__("builtins"), y.id)
                                for y in ast.walk(x.value)
                                if isinstance(y, ast.Name)) if getattr(
                                    x, "value", None) is not None else False
                        if not lazy:
                            stores.append(x)
                if isinstance(x, ast.Call) and isinstance(
                        x.func, ast.Attribute) and x.func.attr in (
                            "append", "extend", "update", "clear", "pop",
                            "insert", "setdefault", "add", "readinto") and (
                                dotted(x.func.value) or "").startswith("self."):
                    stores.append(x)
                if isinstance(x, ast.Call) and isinstance(
                        x.func, ast.Attribute) and x.func.attr == "readinto" \
                        and any((dotted(a) or ast.unparse(a)).find("self.") >= 0
                                for a in x.args):
                    stores.append(x)
            rep.ob(rule, not stores, loc=m.loc(stores[0]) if stores else m.loc(),
                   where=m.qualname,
                   construct=short(stores[0], 70) if stores else
                   "no store into self",
                   message="shard readers keep no per-shard state on the "
                   "shared reader object", sample=False)
    rep.floor(rule, n_r, 6, "reader methods")


def walk_terms(ctx: Context) -> dict:
    """Collection-algebra view of the shard-list walk (shared with C03.walk):
    what `_shard_info_iterator` yields, and what `shard_info_iterator` yields
    for a named split and for split=None."""
    cached = ctx.__dict__.get("_walk_terms")
    if cached is not None:
        return cached
    from sa import collalg, norm
    w = ctx.fn("sedpack.io.dataset_base:DatasetBase._shard_info_iterator")
    s = ctx.fn("sedpack.io.dataset_base:DatasetBase.shard_info_iterator")
    wy = collalg.CollAlg(w).env.get("<yield>", ("empty", ))
    parts = collalg.concat_parts(wy)
    wname = w.name
    out = dict(w=w, s=s, stream=wy, parts=parts, own=None, children=None,
               order=False, obj=None, parsed=False)
    for k, p in enumerate(parts):
        if p[0] == "src" and p[1].endswith(".shard_files"):
            out["own"] = (k, p[1][:-len(".shard_files")])
        if p[0] == "flatmap" and p[1][0] == "src" and p[1][1].endswith(
                ".children_shard_lists"):
            try:
                e = ast.parse(p[2], mode="eval").body
            except SyntaxError:
                continue
            if isinstance(e, ast.Call) and isinstance(
                    e.func, ast.Attribute) and e.func.attr == wname and \
                    dotted(e.func.value) == "self" and len(e.args) + len(
                        e.keywords) == 1:
                arg = (e.args + [kw.value for kw in e.keywords])[0]
                if names_in(arg) == {"_"}:
                    out["children"] = (k, p[1][1][:-len(
                        ".children_shard_lists")])
    if out["own"] and out["children"] and len(parts) == 2 and \
            out["own"][1] == out["children"][1]:
        out["obj"] = out["own"][1]
        out["order"] = out["own"][0] < out["children"][0]
        # the object is the parsed list file named by the walker's argument
        d = norm.canon(w, ast.Name(id=out["obj"], ctx=ast.Load()))
        param = w.params()[1]
        out["parsed"] = "model_validate_json(" in d and param in {
            n.id for n in ast.walk(ast.parse(d, mode="eval"))
            if isinstance(n, ast.Name)} and "self.path" in d
    from sa.cfg import TRUTHY
    out["named"] = collalg.concat_parts(collalg.CollAlg(
        s, {"split": TRUTHY}).env.get("<yield>", ("empty", )))
    out["all"] = collalg.concat_parts(collalg.CollAlg(
        s, {"split": None}).env.get("<yield>", ("empty", )))
    ctx.__dict__["_walk_terms"] = out
    return out


def check_walk(ctx: Context, rep, rule: str) -> None:
    rep.rule(
        rule,
        "_shard_info_iterator yields all of a list's shard_files (no slice / "
        "filter) and recurses into every element of children_shard_lists of "
        "the list file its argument names; shard_info_iterator(split) walks "
        "exactly splits[split], refuses an unknown split, and walks every "
        "split for None")
    from sa import collalg
    wt = walk_terms(ctx)
    w, s = wt["w"], wt["s"]
    ok1 = wt["own"] is not None
    ok2 = wt["children"] is not None and len(wt["parts"]) == 2
    ok3 = wt["parsed"]
    rep.ob(rule, ok1 and ok2 and ok3, loc=w.loc(), where=w.qualname,
           construct="yields " + collalg.pretty(wt["stream"])[:160],
           message=f"all shards={ok1}, all children (and nothing else)={ok2}, "
           f"parses the list named by its argument={ok3}")

    def walk_call(text: str, var: str | None):
        """self._shard_info_iterator(ARG) -> canonical ARG text."""
        try:
            e = ast.parse(text, mode="eval").body
        except SyntaxError:
            return None
        if isinstance(e, ast.Call) and isinstance(e.func, ast.Attribute) and \
                e.func.attr == w.name and dotted(e.func.value) == "self" and \
                len(e.args) + len(e.keywords) == 1:
            return ast.unparse((e.args + [k.value for k in e.keywords])[0])
        return None

    named = wt["named"]
    arg = walk_call(named[0][1], None) if len(named) == 1 and \
        named[0][0] == "gen" else None
    from sa.context import raises_in
    from sa import norm as _norm
    TABLE = "self._dataset_info.splits"
    ok_named = arg is not None and (
        (arg.startswith(f"{TABLE}[split]") and arg.count("splits[") == 1) or
        (arg.startswith(f"{TABLE}.get(split)") and arg.count("splits") == 1))
    guard = [n for n in s.body_nodes() if isinstance(n, ast.If) and
             _norm.canon(s, n.test) in (
                 f"split not in {TABLE}", f"not split in {TABLE}",
                 f"{TABLE}.get(split) is None",
                 f"not {TABLE}.get(split)") and raises_in(n.body)]
    ok_guard = len(guard) == 1
    if ok_guard and arg is not None and ".get(split)" in arg:
        # the look-up that may yield None is tested before it is walked
        gcfg = ctx.cfg(s)
        gnodes = [n for n in gcfg.nodes if n.kind == "test" and
                  n.ast is guard[0].test]
        walks = [n for n in gcfg.calls() if ctx.is_call(
            s, n.ast, method=w.name)]
        ok_guard = bool(gnodes) and not gcfg.always_before(
            gnodes, [x for x in walks if ".get(split)" in _norm.canon(
                s, x.ast)], normal_only=True)
    rep.ob(rule, ok_named and ok_guard, loc=s.loc(), where=s.qualname,
           construct="split given: " + " ++ ".join(
               collalg.pretty(p) for p in named)[:120],
           message="exactly the requested split is enumerated "
           f"({ok_named}); an unknown split raises ({ok_guard})")
    al = wt["all"]
    arg = walk_call(al[0][2], "_v") if len(al) == 1 and al[0][0] == "flatmap" \
        and al[0][1] == ("items", ("src", "self._dataset_info.splits")) else None
    ok_all = arg is not None and arg.startswith("_v")
    rep.ob(rule, ok_all, loc=s.loc(), where=s.qualname,
           construct="split None: " + " ++ ".join(
               collalg.pretty(p) for p in al)[:120],
           message="without a split every split of the table is walked, in "
           "table order")


def check_batch(ctx: Context, rep, rule: str) -> None:
    rep.rule(
        rule,
        "the unshuffled concurrent path takes batches of file_parallelism "
        "paths from ONE iterator until a batch is empty, maps the whole "
        "batch and yields all of its results; the common shard stream is "
        "the full selected list, cycled iff repeat, shuffled with a buffer "
        "of the list's length iff shuffle")
    conc = ctx.fn(C.INTERFACES[2])
    loops = [n for n in conc.body_nodes() if isinstance(n, ast.While)]
    ok = False
    detail = "<batch loop not found>"
    fill_sources: set[str] = set()

    def is_fill(e: ast.AST | None) -> bool:
        # list(islice(<iterator variable>, file_parallelism))
        if not (isinstance(e, ast.Call) and dotted(e.func) in ("list", "tuple")
                and len(e.args) == 1 and isinstance(e.args[0], ast.Call)):
            return False
        sl = e.args[0]
        if not ((dotted(sl.func) or "").endswith("islice") and
                len(sl.args) == 2 and isinstance(sl.args[0], ast.Name)):
            return False
        from sa.norm import canon
        if canon(conc, sl.args[1]) != "file_parallelism":
            return False
        fill_sources.add(sl.args[0].id)
        return True

    for lp in loops:
        b = None
        fills_ok = False
        if isinstance(lp.test, ast.Name):
            # b = fill(); while b: ...; b = fill()
            b = lp.test.id
            refills = [n for n in ast.walk(lp) if isinstance(n, ast.Assign) and
                       dotted(n.targets[0]) == b]
            firsts = [n for n in conc.body_nodes() if isinstance(n, ast.Assign)
                      and dotted(n.targets[0]) == b and n not in refills]
            fills_ok = len(refills) == 1 and len(firsts) == 1 and is_fill(
                refills[0].value) and is_fill(firsts[0].value) and \
                lp.body[-1] is refills[0]
        elif isinstance(lp.test, ast.NamedExpr) and isinstance(
                lp.test.target, ast.Name):
            # while b := fill(): ...
            b = lp.test.target.id
            others = [n for n in ast.walk(lp) if isinstance(n, ast.Assign) and
                      dotted(n.targets[0]) == b]
            fills_ok = is_fill(lp.test.value) and not others
        if b is None:
            continue
        maps = [c for c in ast.walk(lp) if isinstance(c, ast.Call) and
                isinstance(c.func, ast.Attribute) and c.func.attr == "map" and
                "executor" in ast.unparse(c.func.value)]
        whole = len(maps) == 1 and len(maps[0].args) == 2 and dotted(
            maps[0].args[1]) == b and "process_and_list" in ast.unparse(
                maps[0].args[0])
        # all fills draw from one variable, bound once to an iterator object
        from sa.rules.common import is_iterator_expr
        one_source = len(fill_sources) == 1
        if one_source:
            src_name = next(iter(fill_sources))
            binds = [n for n in conc.body_nodes() if isinstance(
                n, (ast.Assign, ast.AnnAssign)) and dotted(
                    n.targets[0] if isinstance(n, ast.Assign) else n.target)
                == src_name and n.value is not None]
            one_source = bool(binds) and is_iterator_expr(
                ctx, conc, binds[-1].value)
        fills_ok = fills_ok and one_source
        ok = whole and fills_ok and not any(isinstance(
            x, (ast.Break, ast.Continue)) for x in ast.walk(lp))
        detail = (f"maps whole batch={whole}, every batch is the next "
                  f"file_parallelism paths of the one iterator={fills_ok}")
    rep.ob(rule, ok, loc=conc.loc(loops[0]) if loops else conc.loc(),
           where=conc.qualname,
           construct="while batch := list(islice(it, P)): yield from "
           "map(f, batch)   (or the explicit first-fill / refill form)",
           message=detail)
    com = ctx.fn(C.COMMON)
    for rpt in (True, False):
        for shf in (TRUTHY, 0):
            cfg = CFG(com, env={"repeat": rpt, "shuffle": shf})

            def hook(e, state, rec):
                if isinstance(e, ast.Call) and ctx.is_call(
                        com, e, method="shard_paths_dataset"):
                    return frozenset({"paths"})
                if isinstance(e, ast.Call) and ctx.is_call(
                        com, e, "itertools.cycle"):
                    return frozenset(rec(e.args[0]) | {"cycled"}) if e.args \
                        else None
                if isinstance(e, ast.Call) and ast.unparse(e.func).endswith(
                        "chain.from_iterable") and len(e.args) == 1 and \
                        isinstance(e.args[0], ast.Call) and ctx.is_call(
                            com, e.args[0], "itertools.repeat") and len(
                                e.args[0].args) == 1:
                    return frozenset(rec(e.args[0].args[0]) | {"cycled"})
                if isinstance(e, ast.Call) and ctx.is_call(
                        com, e, "itertools.shuffle_buffer"):
                    inner = rec(e.args[0]) if e.args else EMPTY
                    size = ctx.arg(e, 1, "buffer_size")
                    good = size is not None and ast.unparse(size) == \
                        "len(shard_paths)"
                    return frozenset(inner | {"shuffled" if good else
                                              "shuffled-bad-size"})
                if isinstance(e, ast.Subscript) and isinstance(
                        e.slice, ast.Slice):
                    return frozenset(rec(e.value) | {"sliced"})
                return None

            tf = TagFlow(cfg, {}, hook=hook)
            rets = [n for n in cfg.live_nodes() if n.kind == "stmt" and
                    isinstance(n.ast, ast.Return)]
            tags = frozenset().union(*[tf.tags_at(r, r.ast.value)
                                       for r in rets]) if rets else frozenset()
            want = {"paths"} | ({"cycled"} if rpt else set()) | (
                {"shuffled"} if shf is TRUTHY else set())
            rep.ob(rule, set(tags) == want, loc=com.loc(), where=com.qualname,
                   construct=f"repeat={rpt}, shuffle={'on' if shf is TRUTHY else 0}"
                   f": stream = {sorted(tags)}",
                   message=f"required {sorted(want)}", sample=False)


def stream_scope(ctx: Context):
    mod = ctx.repo.module(ITM)
    helpers = [mod.func(n) for n in ("shuffle_buffer", "shuffle_buffer_async",
                                     "round_robin", "round_robin_async")]
    scope = helpers + [
        ctx.fn("sedpack.io.itertools.lazy_pool:LazyPool.imap_unordered"),
        ctx.fn(C.INTERFACES[2]), ctx.fn(C.INTERFACES[1]),
        ctx.fn(C.INTERFACES[3]), ctx.fn(C.COMMON)]
    return helpers, scope


def run(ctx: Context, rep) -> None:
    rep.not_decided = (
        "the multiset actually yielded under thread timings, tf.data "
        "internals, the arithmetic of the shuffle index (r % len(buffer) is "
        "always a valid slot), LazyPool interleavings (C13); the rules "
        "decide the ownership / pairing structure the multiset rests on")
    rep.assumptions += [
        "every asyncstdlib iterator tool closes (aclose) its inputs when it "
        "finishes; asyncstdlib.borrow prevents that (read in asyncstdlib "
        "3.13.0)",
        "zip pulls its arguments left to right and stops at the first "
        "exhausted one",
    ]
    helpers, scope = stream_scope(ctx)
    check_iter(ctx, rep, "C02.iter", scope)
    check_zip(ctx, rep, "C02.zip", scope)
    check_borrow(ctx, rep, "C02.borrow", scope)
    rep.rule(
        "C02.own",
        "slot ownership in the buffer generators. Value buffers "
        "(shuffle_buffer[_async]): every pulled element is appended "
        "(prefill) or stored into the slot whose old element was just "
        "yielded (same unmodified index, yield before store), exhaustion is "
        "signalled only by StopIteration, every normal exit is preceded by a "
        "flush of the whole buffer. Iterator buffers (round_robin[_async]): "
        "elements pulled from a slot are yielded directly, a slot is "
        "refilled or swap-removed only in the StopIteration handler of that "
        "same slot, the loop ends only on an empty buffer")
    check_value_buffer(ctx, rep, "C02.own", helpers[0])
    check_value_buffer(ctx, rep, "C02.own", helpers[1])
    check_iter_buffer(ctx, rep, "C02.own", helpers[2])
    check_iter_buffer(ctx, rep, "C02.own", helpers[3])
    check_once(ctx, rep, "C02.once")
    check_stateless(ctx, rep, "C02.stateless")
    # the transformation is applied to single examples: in the tf.data
    # interface every .batch(..) comes after the .map(process_record) of its
    # branch (a transformation mapped after batching sees whole batches)
    rep.rule(
        "C02.tf-stages",
        "as_tfdataset, specialised on process_record given and batch_size "
        "> 0: every path to a `.batch(` call passes `.map(process_record` "
        "first (must-precede on the CFG)")
    from sa.cfg import TRUTHY as _T2
    tfd = ctx.fn(C.INTERFACES[0])
    for ft_ in ("tfrec", "fb"):
        cfg_t = CFG(tfd, env={"process_record": _T2, "batch_size": 8,
                              "self.dataset_structure.shard_file_type": ft_})
        maps_ = cfg_t.calls(lambda c_: isinstance(c_.func, ast.Attribute) and
                            c_.func.attr == "map" and c_.args and
                            dotted(c_.args[0]) == "process_record")
        batches_ = cfg_t.calls(lambda c_: isinstance(c_.func, ast.Attribute)
                               and c_.func.attr in ("batch", "padded_batch",
                                                    "ragged_batch"))
        early = cfg_t.always_before(maps_, batches_, normal_only=True)
        rep.ob("C02.tf-stages", bool(batches_) and not early,
               loc=tfd.loc(early[0].ast) if early else tfd.loc(),
               where=tfd.qualname,
               construct=f"{ft_}: map(process_record) ... batch(..)",
               message="the caller's transformation is mapped over examples "
               "before they are batched",
               path=cfg_t.describe_path(cfg_t.path_to(early[0], avoiding=maps_))
               if early else "")
    check_walk(ctx, rep, "C02.walk")
    check_batch(ctx, rep, "C02.batch")
    # the shuffled concurrent path goes through the lazy pool: its hand-over
    # protocol (C13) is a necessary condition for "none missing, none
    # duplicated, for every thread timing"
    from sa.rules import c13
    c13.check_sentinel(ctx, rep, "C02.pool-sentinel")
    c13.check_owner(ctx, rep, "C02.pool-owner")
    c13.check_consumer(ctx, rep, "C02.pool-consumer")
    rustrules.check_rotation(ctx, rep, "C02.rust-dispatch")
    rustrules.check_cursor(ctx, rep, "C02.rust-cursor")
    from sa.rules import shared
    shared.check_no_memo(ctx, rep, "C02.memo")
    # what a pass yields is decided by the shard lists read for that pass,
    # not by totals remembered on the handle (same check as C12.single)
    from sa.rules import shared as _sh02s
    _sh02s.share_rules(ctx, rep, "c12", {"C12.single": "C02.single"})
    from sa.rules import shared as _shl
    _shl.check_log_args_pure(ctx, rep, "C02.log")
    from sa.rules import shared as _sha
    _sha.check_assert_pure(ctx, rep, "C02.assert")
    from sa.rules import shared as _shared
    _shared.check_fresh_pass(ctx, rep, "C02.fresh-pass")
    _shared.check_interleave_nonempty(ctx, rep, "C02.interleave")
    _shared.check_one_shot(ctx, rep, "C02.one-shot", ("sedpack.io", ))
    # passes read the dataset the handle was opened on: the root is resolved
    # by the file system, not lexically (same check as C20.reloc's root part)
    from sa.rules.c20 import check_root_resolved as _crr
    rep.rule("C02.root", "the value self.path keeps is <path>.resolve() on "
             "every path through DatasetBase.__init__")
    _crr(ctx, rep, "C02.root")

_IT = "src/sedpack/io/itertools/itertools.py"
_DI = "src/sedpack/io/dataset_iteration.py"
_DB = "src/sedpack/io/dataset_base.py"
SELFTESTS = [
    dict(rule="C02.interleave", name="half-buffer-can-be-zero", expect="fire", path=_DI,
         old="                        # round_robin keeps the whole shard files in memory.\n                        buffer_size=file_parallelism,\n",
         new="                        buffer_size=file_parallelism // 2,\n"),
    dict(rule="C02.interleave", name="half-buffer-at-least-one-twin", expect="silent", path=_DI,
         old="                        # round_robin keeps the whole shard files in memory.\n                        buffer_size=file_parallelism,\n",
         new="                        buffer_size=max(1, file_parallelism // 2) + file_parallelism - max(1, file_parallelism // 2),\n"),
    dict(rule="C02.iter", name="drop-iter-shuffle-buffer", expect="fire", path=_IT,
         old="    # Otherwise the first elements of a list would be iterated multiple times.\n    iterable = iter(iterable)\n",
         new=""),
    dict(rule="C02.iter", name="drop-iter-batches", expect="fire", path=_DI,
         old="                    shard_paths_iterator = iter(shard_paths_iterator)\n", new=""),
    dict(rule="C02.zip", name="source-first", expect="fire", path=_IT,
         old="    for _, item in zip(range(buffer_size), iterable):\n        buffer.append(item)",
         new="    for item, _ in zip(iterable, range(buffer_size)):\n        buffer.append(item)"),
    dict(rule="C02.borrow", name="drop-borrow", expect="fire", path=_IT,
         old="    async for _, item in asyncstdlib.zip(range(buffer_size),\n                                         asyncstdlib.borrow(iterable)):",
         new="    async for _, item in asyncstdlib.zip(range(buffer_size), iterable):"),
    dict(rule="C02.own", name="store-before-yield", expect="fire", path=_IT,
         old="        i = r % len(buffer)\n        yield buffer[i]\n        buffer[i] = new_element\n\n        r = next_random_state(r)\n\n    # Finish what is left.\n    random.shuffle(buffer)\n    yield from buffer",
         new="        i = r % len(buffer)\n        buffer[i] = new_element\n        yield buffer[i]\n\n        r = next_random_state(r)\n\n    # Finish what is left.\n    random.shuffle(buffer)\n    yield from buffer"),
    dict(rule="C02.own", name="no-flush", expect="fire", path=_IT,
         old="    # Finish what is left.\n    random.shuffle(buffer)\n    yield from buffer\n", new=""),
    dict(rule="C02.own", name="sentinel-default", expect="fire", path=_IT,
         old="        try:\n            new_element = next(iterable)\n        except StopIteration:\n            break\n",
         new="        new_element = next(iterable, None)\n        if new_element is None:\n            break\n"),
    dict(rule="C02.own", name="flush-loop-twin", expect="silent", path=_IT,
         old="    random.shuffle(buffer)\n    yield from buffer\n",
         new="    random.shuffle(buffer)\n    for element in buffer:\n        yield element\n"),
    dict(rule="C02.own", name="round-robin-drop-last", expect="fire", path=_IT,
         old="                # Keep using the buffer until finished.\n                buffer[pos] = buffer[-1]\n                del buffer[-1]\n\n\nasync def",
         new="                # Keep using the buffer until finished.\n                del buffer[-1]\n\n\nasync def"),
    dict(rule="C02.own", name="round-robin-pop-twin", expect="silent", path=_IT,
         old="                # Keep using the buffer until finished.\n                buffer[pos] = buffer[-1]\n                del buffer[-1]\n\n\nasync def",
         new="                # Keep using the buffer until finished.\n                buffer.pop(pos)\n\n\nasync def"),
    dict(rule="C02.own", name="round-robin-len-gt-1", expect="fire", path=_IT,
         old="    # Use the buffer and refill as needed.\n    while buffer:\n        pos = r % len(buffer)\n        r = next_random_state(r)\n\n        try:\n            yield next(buffer[pos])",
         new="    # Use the buffer and refill as needed.\n    while len(buffer) > 1:\n        pos = r % len(buffer)\n        r = next_random_state(r)\n\n        try:\n            yield next(buffer[pos])"),
    dict(rule="C02.once", name="map-twice-concurrent", expect="fire", path=_DI,
         old="                        yield from itertools.chain.from_iterable(\n                            executor.map(shard_iterator.process_and_list,\n                                         batch))\n",
         new="                        yield from map(process_record, itertools.chain.from_iterable(\n                            executor.map(shard_iterator.process_and_list,\n                                         batch)))\n"),
    dict(rule="C02.once", name="never-applied-sync", expect="fire", path=_DI,
         old="        # Process each record if requested\n        if process_record:\n            example_iterator = map(process_record,\n                                   example_iterator)  # type: ignore\n",
         new=""),
    dict(rule="C02.once", name="reader-applies-in-iterate", expect="fire",
         path="src/sedpack/io/npz/iterate_npz.py",
         old="        for i in range(elements):\n            yield {name: value[i] for name, value in shard_content.items()}\n\n    async def",
         new="        for i in range(elements):\n            yield func_or_identity(self.process_record)({name: value[i] for name, value in shard_content.items()})\n\n    async def"),
    dict(rule="C02.stateless", name="decoder-cached-on-dataset", expect="fire", path=_DI,
         old="            case _:\n                raise ValueError(\"Unsupported shard_file_type \"\n                                 f\"{self.dataset_structure.shard_file_type}\")\n",
         new="            case _:\n                raise ValueError(\"Unsupported shard_file_type \"\n                                 f\"{self.dataset_structure.shard_file_type}\")\n        self._last_shard_iterator = shard_iterator\n"),
    dict(rule="C02.walk", name="skip-first-shard", expect="fire", path=_DB,
         old="        yield from shard_list.shard_files\n", new="        yield from shard_list.shard_files[1:]\n"),
    dict(rule="C02.walk", name="loop-instead-of-yield-from-twin", expect="silent",
         path=_DB,
         old="        for child in shard_list.children_shard_lists:\n            yield from self._shard_info_iterator(child)",
         new="        for child_info in shard_list.children_shard_lists:\n            yield from self._shard_info_iterator(child_info)"),
    dict(rule="C02.batch", name="map-first-of-batch", expect="fire", path=_DI,
         old="                            executor.map(shard_iterator.process_and_list,\n                                         batch))",
         new="                            executor.map(shard_iterator.process_and_list,\n                                         batch[:1]))"),
    dict(rule="C02.batch", name="cycle-sliced", expect="fire", path=_DI,
         old="            shard_paths_iterator = itertools.cycle(shard_paths)",
         new="            shard_paths_iterator = itertools.cycle(shard_paths[:-1])"),
    dict(rule="C02.batch", name="shuffle-buffer-too-small-ok-but-flagged", expect="fire", path=_DI,
         old="                buffer_size=len(shard_paths))",
         new="                buffer_size=0)"),
]
