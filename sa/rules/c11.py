"""C11 - shard-level custom metadata describes exactly the examples it labels."""
from __future__ import annotations

import ast

from sa.cfg import TRUTHY
from sa.context import Context, names_in
from sa.dataflow import EMPTY, TagFlow
from sa.model import AnalysisError, FunctionInfo, dotted, parent, short
from sa.valuation import Valuation

FILLER = "sedpack.io.dataset_filler"
WRITE_EXAMPLE = f"{FILLER}:_DatasetFillerContext.write_example"
PARAM = "custom_metadata"

from sa.rules.common import escape_sinks, TAG


def run(ctx: Context, rep) -> None:
    rep.not_decided = (
        "JSON fidelity of the metadata values; that predicate-based "
        "selection returns the right examples at run time (C12 decides the "
        "selection routine's shape)")
    rep.assumptions += [
        "copy.deepcopy produces an independent object that compares equal "
        "to the original",
        "dict(x), x.copy(), {**x}, copy.copy(x) are shallow (nested values "
        "stay shared) and are reported as such",
    ]
    we = ctx.fn(WRITE_EXAMPLE)
    if PARAM not in we.params():
        raise AnalysisError(f"write_example has no `{PARAM}` parameter")
    cfg = ctx.cfg(we)

    rep.rule(
        "C11.escape",
        "the object passed as custom_metadata never reaches an attribute / "
        "item store or a container mutation of an object that outlives the "
        "call (followed into callees, depth <= 3) unless it went through a "
        "deep copy; a rebinding to the copy kills the taint (flow-sensitive)")
    sinks = escape_sinks(ctx, we, PARAM, 0, set())
    attach = [
        n for n in we.body_nodes()
        if isinstance(n, (ast.Assign, ast.AnnAssign)) and any(
            isinstance(t, ast.Attribute) and t.attr == "custom_metadata"
            for t in (n.targets if isinstance(n, ast.Assign) else [n.target]))
    ]
    if not attach:
        rep.ob("C11.escape", False, loc=we.loc(), where=we.qualname,
               construct="<shard_info>.custom_metadata = ...",
               message="the metadata is never attached to the shard record")
    for a in attach:
        bad = [s for s in sinks if s[1] is a]
        rep.ob("C11.escape", not bad, loc=we.loc(a), where=we.qualname,
               construct=short(a),
               message="the shard record must hold a deep copy; it stores " +
               (bad[0][2] if bad else "an independent copy"))
    for fn, node, kind in sinks:
        if node in attach:
            continue
        rep.ob("C11.escape", False, loc=fn.loc(node), where=fn.qualname,
               construct=short(node),
               message=f"stores {kind} into longer-lived state")

    # ----------------------------------------------------------------------
    rep.rule(
        "C11.detect",
        "the rollover guard is true whenever the (non-empty) argument "
        "differs from the (non-empty) metadata stored on the open shard and, "
        "with the size test false, false when they are equal: evaluated "
        "under the valuations {differ, equal} of the comparison between the "
        "parameter and the value read from <open shard>.custom_metadata")
    tf = TagFlow(cfg, {PARAM: frozenset({"arg"})},
                 hook=lambda e, st, rec: frozenset({"stored"}) if isinstance(
                     e, ast.Attribute) and e.attr == "custom_metadata" else None)

    def role(e: ast.AST) -> set:
        node = None
        for n in cfg.nodes:
            if n.ast is not None and n.kind in ("stmt", "test", "call") and any(
                    x is e for x in ast.walk(n.ast)):
                node = n
                break
        return set(tf.tags(e, tf.at(node) if node else {}))

    def atom(e: ast.AST):
        if isinstance(e, ast.Compare) and len(e.ops) == 1 and isinstance(
                e.ops[0], (ast.Eq, ast.NotEq)):
            l, r = role(e.left), role(e.comparators[0])
            if ("arg" in l and "stored" in r) or ("stored" in l and "arg" in r):
                return "ne" if isinstance(e.ops[0], ast.NotEq) else "eq"
        if isinstance(e, ast.Compare) and len(e.ops) == 1:
            # scenario: the open shard holds one example and has room
            # (written = 1, limit = 2); comparisons of the counter with the
            # limit or with a number are evaluated on it
            from sa.rules.c10 import is_counter, is_limit

            def num(x):
                if is_counter(x):
                    return 1
                if is_limit(x):
                    return 2
                if isinstance(x, ast.Constant) and type(x.value) is int:
                    return x.value
                return None
            a, b = num(e.left), num(e.comparators[0])
            if a is not None and b is not None and (
                    is_counter(e.left) or is_counter(e.comparators[0])):
                r = {ast.Gt: a > b, ast.GtE: a >= b, ast.Lt: a < b,
                     ast.LtE: a <= b, ast.Eq: a == b,
                     ast.NotEq: a != b}.get(type(e.ops[0]))
                if r is not None:
                    return "num_true" if r else "num_false"
        if isinstance(e, ast.Compare) and any(
                isinstance(x, ast.Attribute) and x.attr == "written_examples"
                for x in ast.walk(e)):
            return "size"
        if isinstance(e, ast.Attribute) and e.attr == "written_examples":
            return "num_true"   # truthiness of the counter, written = 1
        if isinstance(e, ast.Compare) and len(e.ops) == 1 and isinstance(
                e.ops[0], (ast.Is, ast.IsNot)) and any(
                    isinstance(x, ast.Name) and x.id == PARAM
                    for x in (e.left, e.comparators[0])) and any(
                        isinstance(x, ast.Constant) and x.value is None
                        for x in (e.left, e.comparators[0])):
            return "arg_is_none" if isinstance(e.ops[0], ast.Is) \
                else "arg_is_not_none"
        if isinstance(e, ast.Name) and e.id == PARAM:
            return "arg_truthy"
        if isinstance(e, (ast.Name, ast.Attribute)) and "stored" in role(e) \
                and "arg" not in role(e) and not (
                    isinstance(e, ast.Attribute) and e.attr == "written_examples"):
            return "stored_truthy"
        return None

    from sa.cfg import CFG
    from sa.rules.common import reaches
    CLOSE = f"{FILLER}:_DatasetFillerContext.close_shard"
    if not cfg.calls(lambda c: reaches(ctx, we, c, CLOSE)):
        raise AnalysisError("C11.detect: no call reaching close_shard in "
                            "write_example")
    res = {}
    seen: set = set()
    for differ in (True, False):
        vals = {"ne": differ, "eq": not differ, "size": False,
                "num_true": True, "num_false": False,
                "arg_is_none": False, "arg_is_not_none": True,
                "arg_truthy": TRUTHY, "stored_truthy": TRUTHY}
        v = Valuation(we, atom, vals)
        c2 = CFG(we, oracle=v.truth)
        closes2 = c2.calls(lambda c: reaches(ctx, we, c, CLOSE))
        writes2 = [n for n in c2.calls() if isinstance(
            n.ast.func, ast.Attribute) and n.ast.func.attr == "write" and any(
                t.qualname == "Shard.write"
                for t in ctx.internal_targets(we, n.ast))]
        seen |= v.seen_atoms
        if differ:
            missed = c2.always_before(closes2, writes2, normal_only=True)
            res[differ] = bool(closes2) and not missed
        else:
            res[differ] = bool(closes2)
    ok = res[True] is True and res[False] is False and ({"ne", "eq"} & seen)
    rep.ob("C11.detect", bool(ok), loc=we.loc(), where=we.qualname,
           construct="rollover decision under metadata differ / equal "
           "(both non-empty; the shard holds one example and is not full)",
           message=f"differ -> previous shard closed before the write on "
           f"every path: {res[True]} (required True); equal -> a close is "
           f"reachable: {res[False]} (required False); comparison atom "
           f"found: {sorted(seen & {'ne', 'eq'})}")

    # ----------------------------------------------------------------------
    rep.rule(
        "C11.attach",
        "the metadata attach comes after the rollover block and before the "
        "shard write on every path with non-empty metadata, and targets the "
        "same shard expression the write uses")
    attach_nodes = [n for n in cfg.nodes if n.kind == "stmt" and n.ast in attach]
    closes = cfg.calls(lambda c: reaches(ctx, we, c, CLOSE))
    writes = [
        n for n in cfg.calls() if isinstance(n.ast.func, ast.Attribute) and
        n.ast.func.attr == "write" and any(
            t.qualname == "Shard.write" for t in ctx.internal_targets(we, n.ast))
    ]
    if not writes:
        raise AnalysisError("C11.attach: Shard.write call not found")
    after = cfg.reachable(attach_nodes, strict=True)
    for c in closes:
        rep.ob("C11.attach", c not in after, loc=we.loc(c.ast),
               where=we.qualname, construct="attach ... close_shard",
               message="the rollover (close of the previous shard) must not "
               "come after the attach: the new metadata would label the old "
               "shard")
    cfg_t = ctx.cfg(we, {PARAM: TRUTHY})
    attach_t = [n for n in cfg_t.nodes if n.kind == "stmt" and n.ast in attach]
    writes_t = [n for n in cfg_t.calls() if any(n.ast is w.ast for w in writes)]
    missed = cfg_t.always_before(attach_t, writes_t)
    for w in writes_t:
        rep.ob("C11.attach", w not in missed, loc=we.loc(w.ast),
               where=we.qualname, construct="attach -> " + short(w.ast),
               message="with non-empty metadata every path to the write "
               "passes the attach",
               path=cfg_t.describe_path(cfg_t.path_to(w, avoiding=attach_t))
               if w in missed else "")
    # an empty value (custom_metadata={}) is "no metadata" for the change
    # detection, so it must be "no metadata" for the attach too: with an empty
    # (not None) argument and a labelled, non-empty open shard the attach is
    # not reached (it would wipe the label of examples already written)
    v_e = Valuation(we, atom, {
        "ne": True, "eq": False, "size": False, "num_true": True,
        "num_false": False, "arg_is_none": False, "arg_is_not_none": True,
        "arg_truthy": False, "stored_truthy": TRUTHY})
    c_e = CFG(we, oracle=v_e.truth)
    live_e = c_e.reachable([c_e.entry],
                           follow=lambda a, b, lab: lab not in ("exc", "raise"))
    closes_e = set(c_e.calls(lambda c: reaches(ctx, we, c, CLOSE)))
    bad_e = [n for n in c_e.nodes
             if n.kind == "stmt" and n.ast in attach and n in live_e and
             c_e.always_before(closes_e, [n], normal_only=True)]
    rep.ob("C11.attach", not bad_e,
           loc=we.loc(bad_e[0].ast) if bad_e else we.loc(), where=we.qualname,
           construct="custom_metadata = {} (empty, not None): " +
           (short(bad_e[0].ast, 60) if bad_e else "attach not reached"),
           message="an empty metadata value must not replace the label "
           "of a shard that already holds labelled examples (the change "
           "detection treats it as absent, so no new shard was opened)")
    for a in attach:
        tgt = a.targets[0] if isinstance(a, ast.Assign) else a.target
        base = tgt
        while isinstance(base, ast.Attribute) and base.attr != "shard":
            base = base.value
        recv = [dotted(w.ast.func.value) for w in writes]
        # a local alias of the shard expression (helper parameter after
        # inlining, hoisted chain) names the same shard when no rebind of the
        # progress record's shard lies between the alias and the attach
        if isinstance(base, ast.Name) and base.id in v_e.defs and dotted(
                v_e.defs[base.id]) in recv:
            dnode = next((n for n in cfg.nodes if n.kind == "stmt" and isinstance(
                n.ast, (ast.Assign, ast.AnnAssign)) and any(
                    isinstance(t, ast.Name) and t.id == base.id for t in (
                        n.ast.targets if isinstance(n.ast, ast.Assign)
                        else [n.ast.target]))), None)
            rebinds = [n for n in cfg.nodes if n.kind == "stmt" and isinstance(
                n.ast, ast.Assign) and any(
                    dotted(t) == dotted(v_e.defs[base.id])
                    for t in n.ast.targets)]
            anode = next((n for n in cfg.nodes if n.ast is a), None)
            stale = dnode is None or anode is None or any(
                r in cfg.reachable([dnode], strict=True) and
                anode in cfg.reachable([r], strict=True) for r in rebinds)
            if not stale:
                base = v_e.defs[base.id]
        rep.ob("C11.attach", dotted(base) in recv, loc=we.loc(a),
               where=we.qualname, construct=short(tgt),
               message=f"attach target shard `{dotted(base)}` is the shard "
               f"written to ({recv})")
    from sa.rules import shared
    shared.check_no_memo(ctx, rep, "C11.memo")
    # merging never drops a list that is not superseded (same check as
    # C08.dedup): selection by metadata sees every shard written
    from sa.rules import shared as _sh11b
    _sh11b.share_rules(ctx, rep, "c08", {"C08.dedup": "C11.merge"})
    from sa.rules import shared as _shl
    _shl.check_log_args_pure(ctx, rep, "C11.log")
    # "selecting shards by metadata returns all and only the examples
    # written under that metadata": the predicate / per-metadata limit must
    # reach the selection routine on every interface (same rule as C12.forward)
    from sa.rules import common as C_
    from sa.rules.c12 import selection_functions
    rep.rule(
        "C11.select",
        "every call edge among the functions that reach the shard selection "
        "routine forwards shard_filter and custom_metadata_type_limit")
    C_.check_forwarding(ctx, rep, "C11.select", selection_functions(ctx),
                        ["shard_filter", "custom_metadata_type_limit"], {})
    rep.floor("C11.select", rep.count("C11.select"), 10, "instances")
    from sa.rules import shared as _sh
    _sh.check_label_copy(ctx, rep, "C11.label-copy")
    _sh.check_one_shot(ctx, rep, "C11.one-shot", ("sedpack.io", ))
    # selection by metadata returns ALL matching shards: the predicate is
    # applied to the whole walk, before any first-k truncation (C12.stages)
    from sa.rules import common as C__
    from sa.rules.c03 import selection_stages, selection_terms
    rep.rule("C11.stages", "in every combination of selection options the "
             "predicate filter is the first stage applied to the walk of the "
             "split")
    sel_fn_ = ctx.fn(C__.SHARD_PATHS)
    for key, t in sorted(selection_terms(ctx).items()):
        got = selection_stages(t)
        want = ["walk"] + [n for n, on in zip(("filter", "first-k", "limit"),
                                               key) if on] + ["paths"]
        rep.ob("C11.stages", got == want, loc=sel_fn_.loc(),
               where=sel_fn_.qualname, construct=f"options {key}: {got}",
               message=f"expected stages {want}", sample=False)
    # selection sees every shard of the split (same walk check as C02.walk)
    # and loading a list does not rewrite the recorded metadata values (same
    # check as C20.validators)
    from sa.rules import shared as _sh11
    _sh11.share_rules(ctx, rep, "c02", {"C02.walk": "C11.walk"})
    _sh11.share_rules(ctx, rep, "c20", {"C20.validators": "C11.validators"})

_P = "src/sedpack/io/dataset_filler.py"
_ATTACH = ("            current_progress.shard.shard_info.custom_metadata = copy.deepcopy(\n"
           "                custom_metadata)\n")
SELFTESTS = [
    dict(rule="C11.attach", name="empty-dict-wipes-label", expect="fire", path=_P,
         old="        if custom_metadata:\n            # Copy so that",
         new="        if custom_metadata is not None:\n            # Copy so that"),
    dict(rule="C11.attach", name="not-none-and-truthy-twin", expect="silent", path=_P,
         old="        if custom_metadata:\n            # Copy so that",
         new="        if custom_metadata is not None and custom_metadata:\n            # Copy so that"),
    dict(rule="C11.escape", name="drop-copy", expect="fire", path=_P,
         old=_ATTACH,
         new="            current_progress.shard.shard_info.custom_metadata = custom_metadata\n"),
    dict(rule="C11.escape", name="shallow-dict", expect="fire", path=_P,
         old=_ATTACH,
         new="            current_progress.shard.shard_info.custom_metadata = dict(custom_metadata)\n"),
    # (first thought to be a harmless twin; the fourth seeded round showed that a
    # JSON round trip is not equality preserving - tuples come back as lists -
    # so an unchanged label looks changed at the next write: C10-m7)
    dict(rule="C11.label-copy", name="json-roundtrip-not-equality-preserving",
         expect="fire", path=_P,
         old=_ATTACH,
         new="            import json\n            current_progress.shard.shard_info.custom_metadata = json.loads(json.dumps(custom_metadata))\n"),
    dict(rule="C11.escape", name="rebind-to-copy-twin", expect="silent", path=_P,
         old=_ATTACH,
         new="            custom_metadata = copy.deepcopy(custom_metadata)\n            current_progress.shard.shard_info.custom_metadata = custom_metadata\n"),
    dict(rule="C11.escape", name="alias-then-store", expect="fire", path=_P,
         old=_ATTACH,
         new="            md = custom_metadata\n            current_progress.shard.shard_info.custom_metadata = {**md}\n"),
    dict(rule="C11.detect", name="compare-inverted", expect="fire", path=_P,
         old="            custom_metadata != previous_metadata,\n",
         new="            custom_metadata == previous_metadata,\n"),
    dict(rule="C11.detect", name="detection-dropped", expect="fire", path=_P,
         old="            (metadata_changed and current_progress.written_examples > 0)):\n",
         new="            False):\n"),
    dict(rule="C11.detect", name="explicit-and-twin", expect="silent", path=_P,
         old="        metadata_changed: bool = all((\n            custom_metadata,\n            previous_metadata,\n            custom_metadata != previous_metadata,\n        ))\n",
         new="        metadata_changed: bool = bool(custom_metadata and previous_metadata and not custom_metadata == previous_metadata)\n"),
    dict(rule="C11.attach", name="attach-before-rollover", expect="fire", path=_P,
         edits=[dict(path=_P, old="        # Update custom_metadata is needed\n        if custom_metadata:\n            # Copy so that the caller mutating or reusing their object later\n            # does not relabel examples which were already written.\n" + _ATTACH, new=""),
                dict(path=_P, old="        # Open a new shard if the current one already contains too many\n",
                     new="        if custom_metadata:\n" + _ATTACH + "        # Open a new shard if the current one already contains too many\n")]),
]
