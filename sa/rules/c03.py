"""C03 - unshuffled iteration is deterministic and preserves write order."""
from __future__ import annotations

import ast

from sa import norm

from sa.cfg import TRUTHY, UNKNOWN, const_eval
from sa.context import Context, names_in
from sa.dataflow import TagFlow
from sa.model import AnalysisError, dotted, parent, short
from sa.rules import c04, common as C, rustrules
from sa.rules.pipeline import residual

IT = "sedpack.io.itertools"
FORBIDDEN_SUFFIXES = (
    f"{IT}.itertools.shuffle_buffer", f"{IT}.itertools.shuffle_buffer_async",
    f"{IT}.itertools.round_robin", f"{IT}.itertools.round_robin_async",
    f"{IT}.itertools.initial_random_state",
    f"{IT}.lazy_pool.LazyPool.imap_unordered",
)
ORDER_DESTROYING_FUNCS = {"sorted", "reversed", "set", "frozenset",
                          "random.shuffle", "random.sample"}
ORDER_DESTROYING_METHODS = {"sort", "reverse"}
SEQ_FUNCS = [
    "sedpack.io.dataset_base:DatasetBase._shard_info_iterator",
    "sedpack.io.dataset_base:DatasetBase.shard_info_iterator",
    C.SHARD_PATHS, C.COMMON,
    "sedpack.io.merge_shard_infos:merge_shard_infos",
    "sedpack.io.dataset_writing:DatasetWriting.write_config",
    "sedpack.io.dataset_writing:DatasetWriting.write_multiprocessing",
    "sedpack.io.dataset_filler:_DatasetFillerContext.close_shard",
    "sedpack.io.dataset_filler:DatasetFiller.__exit__",
    f"{C.ITER_MOD}:RustGenerator._single_iter",
]


def forbidden_name(names: set[str]) -> str | None:
    for n in names:
        nn = n.replace(":", ".")
        if nn in FORBIDDEN_SUFFIXES or nn.startswith(("random.",
                                                       "numpy.random.")):
            return nn
    return None


def selection_terms(ctx: Context) -> dict:
    """Collection-algebra term of what the shard selection routine returns,
    for every combination of {shard_filter, shards, custom_metadata_type_limit}
    given / absent (shared with C12)."""
    cached = ctx.__dict__.get("_selection_terms")
    if cached is not None:
        return cached
    import itertools
    from sa import collalg
    from sa.cfg import TRUTHY
    sel = ctx.fn(C.SHARD_PATHS)
    out = {}
    for sf, sh, lim in itertools.product((None, TRUTHY), repeat=3):
        ca = collalg.CollAlg(sel, {"shard_filter": sf, "shards": sh,
                                   "custom_metadata_type_limit": lim})
        if len(ca.returns) != 1:
            raise AnalysisError("shard selection: expected one return on the "
                                f"specialised path, found {len(ca.returns)}")
        out[(sf is not None, sh is not None, lim is not None)] = \
            ca.term(ca.returns[0])
    ctx.__dict__["_selection_terms"] = out
    return out


def selection_stages(t) -> list[str]:
    """Stages of a selection term from the source outwards."""
    from sa import collalg
    out: list[str] = []

    def rec(x):
        k = x[0]
        if k == "gen":
            out.append("walk" if "shard_info_iterator(" in x[1] else
                       f"gen:{x[1][:30]}")
        elif k == "filter":
            rec(x[1])
            txt = x[2][0]
            if "custom_metadata_type_limit" in txt:
                out.append("limit")
            elif txt.replace(" ", "") in ("shard_filter(_)", ):
                out.append("filter")
            else:
                out.append(f"filter:{txt[:40]}")
        elif k == "slice":
            rec(x[1])
            out.append("first-k" if x[2].replace(" ", "") == ":shards"
                       else f"slice:{x[2]}")
        elif k == "map":
            rec(x[1])
            out.append("paths" if "file_infos[0].file_path" in x[2]
                       else f"map:{x[2][:40]}")
        elif k == "concat":
            parts = collalg.concat_parts(x)
            if len(parts) == 1:
                rec(parts[0])
            else:
                out.append(f"concat of {len(parts)}")
        else:
            out.append(k)

    rec(t)
    return out


def check_select_order(ctx: Context, rep, rule: str) -> None:
    rep.rule(
        rule,
        "for every combination of selection options the returned shard "
        "paths derive from the walk of the requested split through "
        "order-preserving steps only (filter, prefix slice, per-element "
        "map); no sorting, set/dict iteration or re-grouping")
    from sa import collalg
    sel = ctx.fn(C.SHARD_PATHS)
    for key, t in sorted(selection_terms(ctx).items()):
        bad = collalg.reordering_on_path(t)
        gens = [x for x in collalg.spine(t) if x[0] == "gen"]
        ok_src = len(gens) == 1 and "shard_info_iterator(" in gens[0][1] and \
            not collalg.sources(t)
        opts = ", ".join(n for n, on in zip(("shard_filter", "shards",
                                             "custom_metadata_type_limit"),
                                            key) if on) or "no option"
        rep.ob(rule, not bad and ok_src, loc=sel.loc(), where=sel.qualname,
               construct=f"[{opts}] " + collalg.pretty(t)[:150] + (
                   f" :: {bad}" if bad else ""),
               message="selected shards keep the enumeration (= write) order",
               sample=False)


def run(ctx: Context, rep) -> None:
    rep.not_decided = (
        "that thread pools, asyncio and tf.data honour their documented "
        "ordering; equality of two passes at run time; order across "
        "different writing sessions (not promised by the property)")
    rep.assumptions += [
        "ThreadPoolExecutor.map, itertools.chain.from_iterable, builtin map, "
        "asyncstdlib.map / chain keep input order",
        "tf.data interleave with cycle_length=1 and deterministic unset/True "
        "keeps order",
        "dict / defaultdict preserve insertion order",
    ]
    rep.rule(
        "C03.det",
        "for each iteration interface, specialise(shuffle=0) (constructor "
        "fields are aliases of their parameters; constants are propagated "
        "into callees): no residual call is a randomised or unordered "
        "combinator (shuffle_buffer[_async], round_robin[_async], "
        "LazyPool.imap_unordered, random.*, tf shuffle) and no residual tf "
        "interleave has a cycle length other than 1, parallel calls or "
        "deterministic=False")
    for fq in C.INTERFACES:
        fn = ctx.fn(fq)
        if "shuffle" not in fn.params():
            raise AnalysisError(f"{fq} has no shuffle parameter")
        rs = residual(ctx, fn, {"shuffle": 0})
        bad = []
        n_inter = 0
        for r in rs:
            names = ctx.names(r.fn, r.call)
            fb = forbidden_name(names)
            f = r.call.func
            if fb:
                bad.append((r, fb))
            elif isinstance(f, ast.Attribute) and f.attr == "shuffle" and \
                    "random" not in ast.unparse(f.value):
                bad.append((r, "tf.data shuffle"))
            elif isinstance(f, ast.Attribute) and f.attr == "interleave":
                n_inter += 1
                kw = {k.arg: k.value for k in r.call.keywords}
                cl = const_eval(kw["cycle_length"], r.env) if "cycle_length" \
                    in kw else UNKNOWN
                det = const_eval(kw["deterministic"], r.env) if \
                    "deterministic" in kw else None
                if det is UNKNOWN:
                    # single-definition local computed from constants
                    det = eval_local(r, kw["deterministic"])
                npc = const_eval(kw["num_parallel_calls"], r.env) if \
                    "num_parallel_calls" in kw else None
                if cl != 1 or det not in (None, True) or npc is not None:
                    bad.append((r, f"interleave(cycle_length={cl}, "
                                f"deterministic={det}, num_parallel_calls={npc})"))
            elif isinstance(f, ast.Attribute) and any(
                    k.arg == "deterministic" for k in r.call.keywords):
                # any other tf.data stage (map, ..) asked not to keep order
                v = next(k.value for k in r.call.keywords
                         if k.arg == "deterministic")
                det = const_eval(v, r.env)
                if det is UNKNOWN:
                    det = eval_local(r, v)
                if det not in (None, True):
                    bad.append((r, f"{f.attr}(deterministic={det})"))
        for r, what in bad:
            rep.ob("C03.det", False, loc=r.fn.loc(r.call), where=fn.qualname,
                   construct=f"shuffle=0 still reaches {what} in "
                   f"{r.fn.qualname}",
                   message="an order-randomising operation is reachable with "
                   "shuffling disabled")
        rep.ob("C03.det", not bad, loc=fn.loc(), where=fn.qualname,
               construct=f"{len(rs)} residual calls with shuffle=0"
               + (f", {n_inter} interleave" if n_inter else ""),
               message="with shuffle=0 only order-preserving operations remain")
        # sanity / positive example: with shuffle on, a randomising op IS found
        rs_on = residual(ctx, fn, {"shuffle": TRUTHY})
        hit = any(forbidden_name(ctx.names(r.fn, r.call)) or (
            isinstance(r.call.func, ast.Attribute) and
            r.call.func.attr == "shuffle") for r in rs_on)
        if not hit and not rep.violations:
            raise AnalysisError(f"C03.det: no randomising call found in {fq} "
                                "even with shuffle on (analysis lost the "
                                "pipeline)")

    rep.rule(
        "C03.order",
        "no order-destroying operation (sorted, reversed, set, .sort, "
        ".reverse, random.shuffle, insert at the front) is applied to a "
        "sequence of shards / shard lists / shard paths in the functions "
        "that build the shard order (per-element metadata may be sorted)")
    n_sites = 0
    for fq in SEQ_FUNCS:
        fn = ctx.fn(fq)
        env = {"shuffle": 0} if "shuffle" in fn.params() else {}
        cfg = ctx.cfg(fn, env)

        def hook(e, state, rec):
            if isinstance(e, ast.Attribute) and e.attr in (
                    "shard_files", "children_shard_lists"):
                return frozenset({"seq"})
            if isinstance(e, ast.Call) and isinstance(
                    e.func, ast.Attribute) and e.func.attr in (
                        "shard_info_iterator", "_shard_info_iterator",
                        "shard_paths_dataset", "as_numpy_common",
                        "get_updated_infos"):
                return frozenset({"seq"})
            if isinstance(e, ast.Name) and e.id in ("updates", "updated_infos",
                                                    "custom_arguments"):
                return frozenset({"seq"})
            return None

        tf = TagFlow(cfg, {}, hook=hook,
                     iter_elem=lambda t: frozenset(
                         "elem" if x == "seq" else x for x in t))
        for node in cfg.calls():
            c = node.ast
            names = ctx.names(fn, c)
            f = c.func
            destroying = bool(names & ORDER_DESTROYING_FUNCS) or (
                isinstance(f, ast.Attribute) and f.attr in
                ORDER_DESTROYING_METHODS) or (
                    isinstance(f, ast.Attribute) and f.attr == "insert" and
                    c.args and isinstance(c.args[0], ast.Constant) and
                    c.args[0].value == 0)
            if not destroying:
                continue
            n_sites += 1
            target = f.value if isinstance(f, ast.Attribute) and (
                f.attr in ORDER_DESTROYING_METHODS or f.attr == "insert") else (
                    c.args[0] if c.args else None)
            tags = tf.tags_at(node, target) if target is not None else frozenset()
            rep.ob("C03.order", "seq" not in tags, loc=fn.loc(c),
                   where=fn.qualname, construct=short(c, 70),
                   message="reorders a shard sequence" if "seq" in tags else
                   "sorts per-element data only")
    rep.info("C03.order", f"{n_sites} reordering call(s) inspected in "
             f"{len(SEQ_FUNCS)} functions")

    check_select_order(ctx, rep, "C03.select")

    rep.rule(
        "C03.walk",
        "shard infos are enumerated as: the list's own shard_files in list "
        "order, then every child list depth-first in list order")
    from sa import collalg
    from sa.rules.c02 import walk_terms
    wt = walk_terms(ctx)
    w = wt["w"]
    ok = wt["obj"] is not None and wt["order"] and not \
        collalg.reordering_on_path(wt["stream"])
    rep.ob("C03.walk", ok, loc=w.loc(), where=w.qualname,
           construct="yields " + collalg.pretty(wt["stream"])[:160],
           message="own shards first, then children depth-first, nothing "
           "skipped or reordered")

    rep.rule(
        "C03.batch",
        "the unshuffled concurrent reader maps each batch with the ordered "
        "executor map and flattens it with chain.from_iterable; the sync and "
        "async readers chain the shards in path order")
    conc = ctx.fn(C.INTERFACES[2])
    cfg0 = ctx.cfg(conc, {"shuffle": 0})
    ys = [n for n in cfg0.find(lambda n: n.kind == "yield")]
    ok = False
    for y in ys:
        t = norm.canon(conc, y.ast.value)
        if "executor.map(" in t and t.startswith(
                "itertools.chain.from_iterable(executor.map("):
            ok = True
    bad_async = [c for c in conc.calls() if ctx.names(conc, c) & {
        "concurrent.futures.as_completed"} or (isinstance(
            c.func, ast.Attribute) and c.func.attr in ("submit", ))]
    rep.ob("C03.batch", ok and not bad_async, loc=conc.loc(),
           where=conc.qualname,
           construct="yield from chain.from_iterable(executor.map(f, batch))",
           message="batch results are yielded in shard order")
    sync = ctx.fn(C.INTERFACES[1])
    ok = any(norm.canon(sync, c).startswith(
        "itertools.chain.from_iterable(map(") for c in sync.calls())
    rep.ob("C03.batch", ok, loc=sync.loc(), where=sync.qualname,
           construct="chain.from_iterable(map(iterate_shard, paths))",
           message="shards are read one after another in path order")
    asy = ctx.fn(C.INTERFACES[3])
    cfg_a = ctx.cfg(asy, {"shuffle": 0})
    ok = any("asyncstdlib.chain.from_iterable(asyncstdlib.map(" in
             norm.canon(asy, n.ast) for n in cfg_a.calls())
    rep.ob("C03.batch", ok, loc=asy.loc(), where=asy.qualname,
           construct="asyncstdlib.chain.from_iterable(asyncstdlib.map(...))",
           message="async shards are chained in path order")

    from sa.rules.c09 import check_ordered
    check_ordered(ctx, rep, "C03.pool-order")
    c04.check_dump(ctx, rep, "C03.group")
    rep.rule(
        "C03.group",
        "write_config groups ALL updates of a split (insertion-ordered "
        "dictionary keyed by split, filled in argument order) before merging, "
        "so writers of one multi-writer call keep their argument order "
        "(same structural check as C04.dump)")
    rep.rule(
        "C03.merge",
        "merge_shard_infos keeps the order of its updates: the level / "
        "deeper partitions are order-preserving comprehensions over "
        "`updates`, directories are grouped in an insertion-ordered dict "
        "filled in update order, merged in that order and re-attached in "
        "that order")
    from sa import collalg
    from sa.rules.c08 import merge_terms
    mt = merge_terms(ctx)
    mg = mt["mg"]
    children = mt["children"]
    bad = collalg.reordering_on_path(children)
    rep.ob("C03.merge", not bad, loc=mg.loc(), where=mg.qualname,
           construct="children = " + collalg.pretty(children)[:140] + (
               f" :: {bad}" if bad else ""),
           message="the re-attached children derive from `updates` through "
           "order-preserving steps only (filter, map, concat, insertion-"
           "ordered grouping; no sorted/reversed/set iteration)")
    srcs = collalg.sources(children)
    rep.ob("C03.merge", "updates" in srcs and srcs <= {
        "updates", mt["obj"] + ".children_shard_lists"}, loc=mg.loc(),
           where=mg.qualname, construct=f"sources: {sorted(srcs)}",
           message="the order is that of `updates` followed by the already "
           "known children")
    G = mt["group"]
    rep.ob("C03.merge", G is not None and G[1][0] == "emptydict" and
           G[1][1].startswith(("dict", "defaultdict", "OrderedDict")),
           loc=mg.loc(), where=mg.qualname,
           construct="grouping into " + (collalg.pretty(G[1]) if G is not None
                                         else "<none>"),
           message="directories are grouped in an insertion-ordered mapping "
           "filled in update order")

    rustrules.check_rotation(ctx, rep, "C03.rust")
    from sa.rules import shared as _shared
    _shared.check_fresh_pass(ctx, rep, "C03.fresh-pass")
    # nothing read from the dataset's files / the environment is memoised
    from sa.rules import shared as _shm
    _shm.check_no_memo(ctx, rep, "C03.memo")
    # unshuffled concurrent reading covers the stream batch by batch (same
    # check as C02.batch); writers get sibling directories directly under the
    # split (same check as C09.fresh)
    from sa.rules import shared as _sh03
    _sh03.share_rules(ctx, rep, "c02", {"C02.batch": "C03.cover"})
    _sh03.share_rules(ctx, rep, "c09", {"C09.fresh": "C03.writer-dirs"})
    _shm.check_log_args_pure(ctx, rep, "C03.log")
    # write order is list order: shards enter a list's `shard_files` at the
    # end only
    rep.rule(
        "C03.append",
        "every mutation of a `shard_files` list in sedpack.io (directly or "
        "through a local alias) is append / extend; no insert, sort, reverse, "
        "pop, remove, item / slice assignment, del or re-binding to a "
        "reordered copy")
    from sa.valuation import single_defs as _sd
    n_app = 0
    for fn_ in ctx.repo.all_functions():
        if not fn_.module.name.startswith("sedpack.io") or isinstance(
                fn_.node, ast.Lambda):
            continue
        defs_ = None

        def is_list(e) -> bool:
            nonlocal defs_
            if isinstance(e, ast.Attribute) and e.attr == "shard_files":
                return True
            if isinstance(e, ast.Name):
                if defs_ is None:
                    defs_ = _sd(fn_)
                v = defs_.get(e.id)
                return isinstance(v, ast.Attribute) and v.attr == "shard_files"
            return False

        for n_ in fn_.body_nodes():
            bad = None
            if isinstance(n_, ast.Call) and isinstance(n_.func, ast.Attribute) \
                    and is_list(n_.func.value):
                if n_.func.attr in ("append", "extend"):
                    n_app += 1
                    continue
                if n_.func.attr in ("insert", "sort", "reverse", "pop",
                                    "remove", "clear"):
                    bad = n_
            elif isinstance(n_, (ast.Assign, ast.AugAssign, ast.Delete)):
                tgts = n_.targets if not isinstance(n_, ast.AugAssign) \
                    else [n_.target]
                for t_ in tgts:
                    if isinstance(t_, ast.Subscript) and is_list(t_.value):
                        bad = n_
                    if isinstance(t_, ast.Attribute) and \
                            t_.attr == "shard_files" and isinstance(
                                n_, ast.Assign) and not (isinstance(
                                    n_.value, ast.List) and not n_.value.elts):
                        bad = n_
            if bad is not None:
                rep.ob("C03.append", False, loc=fn_.loc(bad),
                       where=fn_.qualname, construct=short(bad, 70),
                       message="a shard list is changed other than by "
                       "appending: the list order no longer is the write order")
    rep.ob("C03.append", n_app >= 1, loc="src/sedpack/io/dataset_filler.py:1",
           where="sedpack.io", construct=f"{n_app} append site(s)",
           message="shards are appended to their list")

def eval_local(r, expr: ast.AST):
    """Evaluate a local that is assigned from constant-foldable expressions
    on the specialised CFG (last assignments on all live paths agree)."""
    if not isinstance(expr, ast.Name):
        return UNKNOWN
    vals = set()
    live = r.cfg.live_nodes()
    # walk assignments in order; keep the value of the assignments that can
    # reach the call without being overwritten
    assigns = [n for n in r.cfg.nodes if n in live and n.kind == "stmt" and
               isinstance(n.ast, (ast.Assign, ast.AnnAssign)) and dotted(
                   n.ast.targets[0] if isinstance(n.ast, ast.Assign) else
                   n.ast.target) == expr.id]
    target = r.node
    for a in assigns:
        others = [x for x in assigns if x is not a]
        reach = r.cfg.reachable([a], avoiding=others, strict=True)
        if target is None or target in reach:
            v = const_eval(a.ast.value, r.env)
            vals.add(repr(v) if v is UNKNOWN else v)
    if len(vals) == 1:
        v = vals.pop()
        return UNKNOWN if isinstance(v, str) and v.startswith("<") else v
    return UNKNOWN


_DI = "src/sedpack/io/dataset_iteration.py"
_DB = "src/sedpack/io/dataset_base.py"
_MG = "src/sedpack/io/merge_shard_infos.py"
SELFTESTS = [
    dict(rule="C03.det", name="map-not-deterministic", expect="fire", path=_DI,
         old="                    num_parallel_calls=parallelism,\n                )\n            if shuffle:\n                tf_dataset = tf_dataset.shuffle(shuffle)\n            if batch_size > 0:\n                # Batch",
         new="                    num_parallel_calls=parallelism,\n                    deterministic=False,\n                )\n            if shuffle:\n                tf_dataset = tf_dataset.shuffle(shuffle)\n            if batch_size > 0:\n                # Batch"),
    dict(rule="C03.det", name="map-deterministic-unless-shuffled-twin", expect="silent", path=_DI,
         old="                    num_parallel_calls=parallelism,\n                )\n            if shuffle:\n                tf_dataset = tf_dataset.shuffle(shuffle)\n            if batch_size > 0:\n                # Batch",
         new="                    num_parallel_calls=parallelism,\n                    deterministic=None if shuffle else True,\n                )\n            if shuffle:\n                tf_dataset = tf_dataset.shuffle(shuffle)\n            if batch_size > 0:\n                # Batch"),
    dict(rule="C03.append", name="shard-inserted-in-front", expect="fire",
         path="src/sedpack/io/dataset_filler.py",
         old="        self._shards_lists[split].shard_files.append(shard_info)\n",
         new="        self._shards_lists[split].shard_files.insert(0, shard_info)\n"),
    dict(rule="C03.append", name="append-through-alias-twin", expect="silent",
         path="src/sedpack/io/dataset_filler.py",
         old="        self._shards_lists[split].shard_files.append(shard_info)\n",
         new="        listed = self._shards_lists[split].shard_files\n        listed.append(shard_info)\n"),
    dict(rule="C03.det", name="shuffle-guarded-by-repeat", expect="fire", path=_DI,
         old="        # Randomize only if > 0 -- no shuffle in test/validation\n        if shuffle:\n            shard_paths_iterator = shuffle_buffer(",
         new="        # Randomize only if > 0 -- no shuffle in test/validation\n        if repeat:\n            shard_paths_iterator = shuffle_buffer("),
    dict(rule="C03.det", name="cycle-length-always-parallel", expect="fire", path=_DI,
         old="            cycle_length=file_parallelism if shuffle else 1,",
         new="            cycle_length=file_parallelism,"),
    dict(rule="C03.det", name="gt-zero-twin", expect="silent", path=_DI,
         old="        # Randomize only if > 0 -- no shuffle in test/validation\n        if shuffle:\n            shard_paths_iterator = shuffle_buffer(",
         new="        # Randomize only if > 0 -- no shuffle in test/validation\n        if shuffle > 0:\n            shard_paths_iterator = shuffle_buffer("),
    dict(rule="C03.det", name="lazy-pool-when-unshuffled", expect="fire", path=_DI,
         old="            if shuffle:\n                with LazyPool(file_parallelism) as pool:",
         new="            if shuffle or file_parallelism > 1:\n                with LazyPool(file_parallelism) as pool:"),
    dict(rule="C03.det", name="deterministic-false", expect="fire", path=_DI,
         old="            deterministic = False if cycle_length > 1 else None",
         new="            deterministic = False"),
    dict(rule="C03.order", name="sorted-shards", expect="fire", path=_DI,
         old="        shards_list: list[ShardInfo] = list(\n            self.shard_info_iterator(split=split))\n",
         new="        shards_list: list[ShardInfo] = sorted(\n            self.shard_info_iterator(split=split), key=lambda s: s.file_infos[0].file_path)\n"),
    dict(rule="C03.order", name="reversed-children", expect="fire", path=_DB,
         old="        for child in shard_list.children_shard_lists:\n            yield from self._shard_info_iterator(child)",
         new="        for child in reversed(shard_list.children_shard_lists):\n            yield from self._shard_info_iterator(child)"),
    dict(rule="C03.walk", name="children-first", expect="fire", path=_DB,
         old="        yield from shard_list.shard_files\n\n        for child in shard_list.children_shard_lists:\n            yield from self._shard_info_iterator(child)",
         new="        for child in shard_list.children_shard_lists:\n            yield from self._shard_info_iterator(child)\n\n        yield from shard_list.shard_files"),
    dict(rule="C03.merge", name="sorted-directories", expect="fire", path=_MG,
         old="        for directory, recursive_updates in recursively_update.items()\n",
         new="        for directory, recursive_updates in sorted(recursively_update.items())\n"),
    dict(rule="C03.batch", name="as-completed", expect="fire", path=_DI,
         old="                        yield from itertools.chain.from_iterable(\n                            executor.map(shard_iterator.process_and_list,\n                                         batch))\n",
         new="                        futures = [executor.submit(shard_iterator.process_and_list, b) for b in batch]\n                        for fut in futures:\n                            yield from fut.result()\n"),
]
