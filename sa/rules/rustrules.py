"""Rules over the Rust facts (parallel map protocol, shard cursor, codec and
vtable tables). Used by C01, C02, C03, C07, C14, C15."""
from __future__ import annotations

import ast
import re

from sa.context import Context
from sa.model import AnalysisError
from sa.rust import RustFn, kind, norm, text, walk, walk_no_closure

RECV_METHODS = {"recv", "recv_timeout", "try_recv", "recv_deadline"}
PM = "rust/src/parallel_map.rs"
EI = "rust/src/example_iteration.rs"
LIB = "rust/src/lib.rs"
GEN = "rust/src/shard_generated.rs"


def parent_map(root) -> dict[int, dict]:
    pm: dict[int, dict] = {}

    def rec(n, p):
        if isinstance(n, dict):
            if p is not None:
                pm[id(n)] = p
            for v in n.values():
                if isinstance(v, (dict, list)):
                    rec(v, n if "k" in n else p)
        elif isinstance(n, list):
            for x in n:
                rec(x, p)

    rec(root, None)
    return pm


def order_index(fn: RustFn) -> dict[int, int]:
    return {id(n): i for i, n in enumerate(walk(fn.body))}


def let_aliases(fn: RustFn) -> dict[str, str]:
    """`let i = self.now;` -> {"i": "self.now"} (simple place aliases)."""
    out = {}
    for n in walk(fn.body):
        if kind(n, "Local") and kind(n.get("pat"), "PIdent") and isinstance(
                n.get("init"), dict) and n["init"].get("k") in ("Field", "Path"):
            out[n["pat"]["name"]] = norm(text(n["init"]))
    return out


def subst(t: str, aliases: dict[str, str]) -> str:
    t = norm(t)
    return aliases.get(t, t)


# ---------------------------------------------------------------------------
def check_recv(ctx: Context, rep, rule: str) -> None:
    """C07.rust-recv"""
    rep.rule(
        rule,
        "in ParallelMap::next the Result of recv() on a worker's result "
        "channel must not be collapsed into the in-band end-of-stream value: "
        "accepted unwrap / expect / ? / match with a diverging Err arm; "
        "rejected unwrap_or_default, unwrap_or(..), unwrap_or_else(..), "
        ".ok(), if-let/match whose Err side yields None")
    fn = ctx.rust.fn(PM, "<Iterator for ParallelMap>::next")
    pm = parent_map(fn.body)
    recvs = [n for n in fn.method_calls() if n["method"] in RECV_METHODS and
             "receive" in norm(text(n["recv"]))]
    if not recvs:
        raise AnalysisError("C07.rust-recv: no recv() on a worker channel in "
                            "ParallelMap::next")
    for r in recvs:
        p = pm.get(id(r))
        verdict = None
        detail = ""
        rname = r["method"]
        rcall = "recv()" if rname == "recv" else f"{rname}(..)"
        construct = rcall
        if kind(p, "MethodCall") and p["recv"] is r:
            m = p["method"]
            construct = f"{rcall}.{m}({', '.join(norm(text(a)) for a in p['args'])})"
            if m in ("unwrap", "expect"):
                verdict = True
            elif m in ("unwrap_or_default", "unwrap_or", "unwrap_or_else", "ok",
                       "unwrap_unchecked", "is_ok", "is_err", "iter",
                       "into_iter", "map_or", "map_or_else", "and_then",
                       "or", "or_else"):
                verdict = False
                detail = (f"a disconnected worker (it panicked) becomes "
                          f"`{m}` = normal end of iteration")
        elif kind(p, "Try"):
            verdict = True
            construct = "recv()?"
        elif kind(p, "Match") and p["expr"] is r:
            construct = "match recv() {..}"
            err_arms = [a for a in p["arms"] if "Err" in text(a["pat"]) or
                        kind(a["pat"], "PWild")]
            if err_arms:
                body = err_arms[0]["body"]
                bt = norm(text(body))
                diverges = any(
                    n.get("k") in ("Macro", "MacroStmt") and n["path"] in (
                        "panic", "unreachable", "unimplemented", "todo")
                    for n in walk(body)) or "returnErr" in bt
                verdict = bool(diverges)
                detail = f"Err arm: {text(body)[:60]}"
        elif kind(p, "Let"):
            # if let Ok(x) = recv() { .. } else { None }
            verdict = False
            construct = "if/while let .. = recv()"
            detail = "the Err case falls through to the else value"
        if verdict is None:
            raise AnalysisError(
                f"{fn.loc(r)}: consumption of recv() result not understood "
                f"(parent {p.get('k') if p else None})")
        rep.ob(rule, verdict, loc=fn.loc(r), where=fn.qual,
               construct=construct,
               message="a receive error from a worker must surface as an "
               "error, not as the end of the stream" +
               (f" ({detail})" if detail else ""))


# ---------------------------------------------------------------------------
def check_rotation(ctx: Context, rep, rule: str) -> None:
    """C15.rot (also C03.rust, C02 dispatch)"""
    rep.rule(
        rule,
        "ParallelMap::next receives from, refills and then advances the same "
        "worker index (let aliases substituted) with a successor-modulo-"
        "length step, in that order, refilling with exactly one pull from "
        "the task iterator; parallel_map hands the k-th task to the k-th "
        "pushed channel inside one loop over 0..threads; the worker sends "
        "exactly one result per received task")
    fn = ctx.rust.fn(PM, "<Iterator for ParallelMap>::next")
    al = let_aliases(fn)
    oi = order_index(fn)
    recvs = [n for n in fn.method_calls() if n["method"] in RECV_METHODS]
    sends = [n for n in fn.method_calls("send")]
    for r in recvs:
        rep.ob(rule, r["method"] == "recv", loc=fn.loc(r), where=fn.qual,
               construct=norm(text(r))[-60:],
               message="the consumer waits for the worker whose turn it is "
               "with a blocking recv(): a timed / non-blocking receive turns "
               "a slow worker into a missing result (end of stream or a "
               "shifted rotation), so the output would depend on timing")
    if len(recvs) != 1 or len(sends) != 1:
        raise AnalysisError(f"C15.rot: expected one recv and one send in "
                            f"next(), found {len(recvs)}/{len(sends)}")

    # `let cur = self.communication.get(i)?;` / `&self.communication[i]`:
    # a checked or borrowed look-up of the same element
    elem_alias: dict[str, dict] = {}
    for loc_ in walk(fn.body):
        if kind(loc_, "Local") and kind(loc_.get("pat"), "PIdent") and \
                isinstance(loc_.get("init"), dict):
            init = loc_["init"]
            while init.get("k") in ("Try", "Ref") or (
                    kind(init, "MethodCall") and init["method"] in (
                        "unwrap", "expect") and not init["args"][1:]):
                init = init["expr"] if init.get("k") in ("Try", "Ref") \
                    else init["recv"]
            if kind(init, "MethodCall") and init["method"] in (
                    "get", "get_mut") and len(init["args"]) == 1:
                elem_alias[loc_["pat"]["name"]] = {
                    "k": "Index", "line": init.get("line"),
                    "base": init["recv"], "index": init["args"][0],
                    "text": f"{text(init['recv'])}[{text(init['args'][0])}]"}
            elif kind(init, "Index"):
                elem_alias[loc_["pat"]["name"]] = init

    def chan_index(call):
        for n in walk(call["recv"]):
            if kind(n, "Index"):
                return n
            if kind(n, "Path") and n["path"] in elem_alias:
                return elem_alias[n["path"]]
        return None

    ri, si = chan_index(recvs[0]), chan_index(sends[0])
    if ri is None or si is None:
        raise AnalysisError("C15.rot: channel index expression not found")
    r_idx, s_idx = subst(text(ri["index"]), al), subst(text(si["index"]), al)
    r_vec, s_vec = norm(text(ri["base"])), norm(text(si["base"]))
    rep.ob(rule, r_idx == s_idx and r_vec == s_vec, loc=fn.loc(sends[0]),
           where=fn.qual,
           construct=f"recv from [{r_idx}] / send to [{s_idx}]",
           message="the worker that just delivered result k is the one that "
           "receives the next task")
    # advance
    advances = [
        n for n in walk(fn.body)
        if (kind(n, "Assign") and subst(text(n["left"]), al) == r_idx) or
        (kind(n, "Binary") and n["op"] in ("+=", "%=", "-=", "*=") and
         subst(text(n["left"]), al) == r_idx)
    ]
    if not advances:
        rep.ob(rule, False, loc=fn.loc(), where=fn.qual,
               construct=f"{r_idx} = ({r_idx} + 1) % len",
               message="the worker index is never advanced")
    else:
        a = advances[0]
        ok, form = successor_mod(a, r_idx, r_vec, al, advances)
        if ok is None:
            raise AnalysisError(f"{fn.loc(a)}: advance form not understood: "
                                f"{text(a)}")
        rep.ob(rule, ok, loc=fn.loc(a), where=fn.qual,
               construct=norm(text(a)),
               message=f"advance must be successor modulo the number of "
               f"workers ({form})")
        rep.ob(rule, oi[id(recvs[0])] < oi[id(a)] and oi[id(sends[0])] < oi[id(a)],
               loc=fn.loc(a), where=fn.qual,
               construct="recv; send; advance",
               message="receive and refill use the index before it advances")
    # refill = exactly one pull
    arg = sends[0]["args"][0] if sends[0]["args"] else None
    pulls = [n for n in fn.method_calls("next") if "iter" in norm(text(n["recv"]))]
    in_loop = any(n.get("k") in ("While", "For", "Loop") and any(
        x is p for p in pulls for x in walk(n)) for n in walk(fn.body))
    rep.ob(rule, arg is not None and len(pulls) == 1 and any(
        x is pulls[0] for x in walk(arg)) and not in_loop,
           loc=fn.loc(sends[0]), where=fn.qual,
           construct=norm(text(sends[0])),
           message="each delivered result is paid for by exactly one pull "
           "from the task iterator, sent to that worker")
    # returns the received value
    result_names = [n["pat"]["name"] for n in walk(fn.body)
                    if kind(n, "Local") and kind(n.get("pat"), "PIdent") and
                    any(x is recvs[0] for x in walk(n.get("init")))]
    last = fn.body[-1] if fn.body else None
    ok_ret = kind(last, "ExprStmt") and not last["semi"] and (
        norm(text(last["expr"])) in result_names or
        any(x is recvs[0] for x in walk(last)))
    rep.ob(rule, bool(ok_ret), loc=fn.loc(last or fn.node), where=fn.qual,
           construct=norm(text(last)) if last else "<none>",
           message="next() returns exactly the value received from the "
           "current worker")

    # ---- initial dispatch
    pf = ctx.rust.fn(PM, "parallel_map")
    loops = [n for n in walk_no_closure(pf.body) if kind(n, "For")]
    if len(loops) != 1:
        raise AnalysisError(f"C15.rot: parallel_map has {len(loops)} loops")
    lp = loops[0]
    rng = lp["iter"]
    var = lp["pat"].get("name")
    implicit_pull = None   # name bound to the pulled task by the loop header
    ok_rng = kind(rng, "Range") and norm(text(rng.get("from"))) == "0" and \
        norm(text(rng.get("to"))) == "threads" and rng.get("limits") == ".."
    if not ok_rng and norm(text(rng)) in (
            "iter.by_ref().take(threads).enumerate()",
            "(&mutiter).take(threads).enumerate()") and \
            kind(lp["pat"], "PTuple") and len(lp["pat"]["elems"]) == 2 and \
            all(kind(e, "PIdent") for e in lp["pat"]["elems"]):
        # for (t, task) in iter.by_ref().take(threads).enumerate(): one pull
        # per round, at most `threads` rounds, index counts from 0
        ok_rng = True
        var = lp["pat"]["elems"][0]["name"]
        implicit_pull = lp["pat"]["elems"][1]["name"]
    rep.ob(rule, bool(ok_rng), loc=pf.loc(lp), where=pf.qual,
           construct=f"for {var} in {norm(text(rng))}",
           message="worker start-up loop runs over 0..threads")
    body_nodes = list(walk_no_closure(lp["body"]))
    pushes = [n for n in body_nodes if kind(n, "MethodCall") and
              n["method"] == "push" and "communication" in norm(text(n["recv"]))]
    lsends = [n for n in body_nodes if kind(n, "MethodCall") and
              n["method"] == "send"]
    pulls = [n for n in body_nodes if kind(n, "MethodCall") and
             n["method"] == "next" and norm(text(n["recv"])) == "iter"]
    conts = [n for n in body_nodes if kind(n, "Continue")]
    cond_push = any(n.get("k") in ("If", "Match") and any(
        x is p for p in pushes for x in walk(n)) for n in body_nodes)
    n_pulls = len(pulls) + (1 if implicit_pull else 0)
    ok = len(pushes) == 1 and len(lsends) == 1 and n_pulls == 1 and \
        not conts and not cond_push
    idx = None
    if lsends:
        for n in walk(lsends[0]["recv"]):
            if kind(n, "Index"):
                idx = norm(text(n["index"]))
    rep.ob(rule, ok and idx == var, loc=pf.loc(lp), where=pf.qual,
           construct=f"push x{len(pushes)}, pull x{n_pulls}, send to "
           f"[{idx}] x{len(lsends)}",
           message="per loop round: one pull, one channel pushed, the task "
           "sent to the channel with the loop index (k-th task -> k-th "
           "worker)")
    if (pulls or implicit_pull) and lsends:
        sent = lsends[0]["args"][0] if lsends[0]["args"] else None
        # the sent value derives from the pulled task
        pulled_names = [implicit_pull] if implicit_pull else []
        for n in body_nodes:
            if pulls and kind(n, "Local") and any(
                    x is pulls[0] for x in walk(n.get("init"))):
                pulled_names += [p["name"] for p in walk(n.get("pat"))
                                 if kind(p, "PIdent")]
        sent_t = norm(text(sent)) if sent is not None else ""
        rep.ob(rule, any(sent_t in (nm, f"Some({nm})") for nm in pulled_names),
               loc=pf.loc(lsends[0]), where=pf.qual,
               construct=norm(text(lsends[0])),
               message="the task sent is the one just pulled")
    # worker loop
    closures = [n for n in walk(lp["body"]) if kind(n, "Closure")]
    spawn = [c for c in closures if any(
        kind(x, "While") for x in walk(c["body"]))]
    if len(spawn) != 1:
        raise AnalysisError("C15.rot: worker closure not found")
    wl = [x for x in walk(spawn[0]["body"]) if kind(x, "While")][0]
    wsends = [n for n in walk(wl["body"]) if kind(n, "MethodCall") and
              n["method"] == "send"]
    wconts = [n for n in walk(wl["body"]) if kind(n, "Continue")]
    cond = wl["cond"]
    ok_w = kind(cond, "Let") and "recv()" in norm(text(cond["expr"])) and \
        len(wsends) == 1 and not wconts and \
        "Some(" in norm(text(wsends[0]["args"][0])) and \
        "(fun)" in norm(text(wsends[0]["args"][0])).replace("fun(", "(fun)(")
    rep.ob(rule, bool(ok_w), loc=pf.loc(wl), where=pf.qual + "::<worker>",
           construct=f"while let {norm(text(cond.get('pat', {})))} = recv() "
           f"{{ send x{len(wsends)} }}",
           message="the worker answers every received task with exactly one "
           "Some(fun(task)) and stops on None / disconnect")
    # struct initialisation
    inits = [n for n in walk_no_closure(pf.body) if kind(n, "Struct") and
             "ParallelMap" in n["path"]]
    now0 = any(norm(text(f["expr"])) == "0" for s in inits
               for f in s["fields"] if f["member"] == "now")
    rep.ob(rule, now0, loc=pf.loc(inits[0]) if inits else pf.loc(),
           where=pf.qual, construct="ParallelMap { now: 0, .. }",
           message="rotation starts at the worker that received the first "
           "task")


def successor_mod(a, idx: str, vec: str, al, all_adv):
    """Is `a` (Assign / compound assign) the step idx = (idx+1) % vec.len()?"""
    length = f"{vec}.len()"
    if kind(a, "Assign"):
        r = norm(text(a["right"]))
        r_sub = r
        for k, v in al.items():
            r_sub = re.sub(rf"\b{k}\b", v, r_sub)
        forms = {f"({idx}+1)%{length}", f"(1+{idx})%{length}",
                 f"if{idx}+1=={length}{{0}}else{{{idx}+1}}",
                 f"if{idx}+1>={length}{{0}}else{{{idx}+1}}"}
        if r_sub in forms:
            return True, "(i + 1) % len"
        if "%" in r_sub or "if" in r_sub or "+" in r_sub or "-" in r_sub:
            return False, f"found {r}"
        return None, ""
    if kind(a, "Binary") and a["op"] == "+=" and norm(text(a["right"])) == "1":
        # increment-then-wrap: needs a later `%= len` or `if idx == len {idx = 0}`
        wraps = [b for b in all_adv[1:] if
                 (kind(b, "Binary") and b["op"] == "%=" and
                  norm(text(b["right"])) == length) or
                 (kind(b, "Assign") and norm(text(b["right"])) == "0")]
        return (True, "i += 1; wrap") if wraps else (False, "increment without wrap")
    return False, f"found {norm(text(a))}"


# ---------------------------------------------------------------------------
def check_drop(ctx: Context, rep, rule: str) -> None:
    rep.rule(
        rule,
        "in Drop::drop every join() is preceded by a stop message to every "
        "worker (a loop over all channels sending None) or by dropping all "
        "senders (clear / drop of the channel vector)")
    fn = ctx.rust.fn(PM, "<Drop for ParallelMap>::drop")
    oi = order_index(fn)
    joins = fn.method_calls("join")
    rep.ob(rule, bool(joins), loc=fn.loc(), where=fn.qual,
           construct=f"{len(joins)} join() call(s) in Drop::drop",
           message="dropping the parallel map joins its worker threads (a "
           "detached worker keeps reading shards after the iterator is gone)")
    if not joins:
        return
    stops = []
    for n in walk(fn.body):
        if kind(n, "For") and "communication" in norm(text(n["iter"])):
            if any(kind(x, "MethodCall") and x["method"] == "send" and
                   norm(text(x["args"][0])) == "None" for x in walk(n["body"])):
                # must cover all: iterating the vector itself (no take/skip)
                it = norm(text(n["iter"]))
                if not any(w in it for w in (".take(", ".skip(", "[", ".step_by(")):
                    stops.append(n)
        if kind(n, "MethodCall") and n["method"] in ("clear", ) and \
                "communication" in norm(text(n["recv"])):
            stops.append(n)
        if kind(n, "Call") and norm(text(n["func"])) in ("drop", "std::mem::drop") \
                and n["args"] and "communication" in norm(text(n["args"][0])):
            stops.append(n)
    for j in joins:
        before = [s for s in stops if oi[id(s)] < oi[id(j)]]
        rep.ob(rule, bool(before), loc=fn.loc(j), where=fn.qual,
               construct=f"{len(before)} stop action(s) before join()",
               message="joining a worker that was not told to stop blocks "
               "forever (it waits in recv)")


def check_channels(ctx: Context, rep, rule: str) -> None:
    rep.rule(
        rule,
        "the per-worker channels are unbounded std::sync::mpsc::channel()s: "
        "send never blocks, which the refill in next() and the stop messages "
        "in Drop rely on (a rendezvous / bounded channel makes Drop's "
        "send(None) wait for a worker that is itself waiting to deliver its "
        "result -> deadlock on early drop)")
    fn = ctx.rust.fn(PM, "ThreadCommunication::new_pair")
    ctors = [n for n in walk(fn.body) if kind(n, "Call") and
             "channel" in norm(text(n["func"]))]
    rep.ob(rule, len(ctors) == 2, loc=fn.loc(), where=fn.qualname
           if hasattr(fn, "qualname") else fn.qual,
           construct=f"{len(ctors)} channel constructions",
           message="one channel per direction")
    for c in ctors:
        f = norm(text(c["func"]))
        base = f.split("::<")[0]
        rep.ob(rule, base.endswith("mpsc::channel") or base == "channel",
               loc=fn.loc(c), where=fn.qual, construct=f,
               message="unbounded asynchronous channel (sync_channel / "
               "bounded channels block the sender)")
    # field types
    for rel, items in ctx.rust.files.items():
        for it in items or []:
            if it.get("k") == "Struct" and it.get("name") == "ThreadCommunication":
                for fld in it["fields"]:
                    if fld["name"] == "send":
                        rep.ob(rule, "SyncSender" not in fld["ty"],
                               loc=f"{rel}:{it['line']}",
                               where="ThreadCommunication",
                               construct=f"send: {norm(fld['ty'])}",
                               message="the sending half is an unbounded "
                               "Sender")


# ---------------------------------------------------------------------------
def check_cursor(ctx: Context, rep, rule: str) -> None:
    rep.rule(
        rule,
        "ShardProgress::next returns None iff used >= total, otherwise "
        "yields the example at index `used` (read before the increment) and "
        "adds exactly 1")
    fn = ctx.rust.fn(EI, "<Iterator for ShardProgress>::next")
    oi = order_index(fn)
    # the cursor: either two counters (used, total) or one half-open range
    # of the ids still to come (position = range.start)
    ifs = [n for n in walk(fn.body) if kind(n, "If") and any(
        kind(x, "Return") and norm(text(x.get("expr") or {})) == "None"
        for x in walk(n["then"]))]
    guard, POS = None, None
    for n in ifs:
        ct = norm(text(n["cond"]))
        if "used_examples" in ct and "total_examples" in ct:
            guard, POS = n, "self.used_examples"
            ok_forms = {"self.used_examples>=self.total_examples",
                        "self.total_examples<=self.used_examples",
                        "self.used_examples==self.total_examples",
                        "!(self.used_examples<self.total_examples)"}
        elif ct.endswith(".is_empty()") and ct.startswith("self."):
            base = ct[:-len(".is_empty()")]
            guard, POS = n, base + ".start"
            ok_forms = {base + ".is_empty()", base + ".start>=" + base + ".end"}
        elif ct.startswith("self.") and ".start>=" in ct and ct.endswith(".end"):
            base = ct.split(".start>=")[0]
            guard, POS = n, base + ".start"
            ok_forms = {base + ".start>=" + base + ".end"}
    rep.ob(rule, guard is not None, loc=fn.loc(), where=fn.qual,
           construct="if used >= total { return None }",
           message="exhaustion test present")
    if guard is None:
        return
    ct = norm(text(guard["cond"]))
    rep.ob(rule, ct in ok_forms, loc=fn.loc(guard), where=fn.qual,
           construct=ct,
           message="None exactly when used >= total (used <= total is an "
           "invariant, so == is accepted)")
    if POS.endswith(".start"):
        # the range must be initialised as 0 .. total where it is built
        fld = POS[len("self."):-len(".start")]
        inits = []
        for key, f in ctx.rust.functions.items():
            if not key.startswith(EI):
                continue
            for st in walk(f.body):
                if kind(st, "Struct") and "ShardProgress" in st["path"]:
                    for fl in st["fields"]:
                        if fl["member"] == fld:
                            inits.append(norm(text(fl["expr"])))
        rep.ob(rule, bool(inits) and all(
            x.startswith("0..") and not x.startswith("0..=") for x in inits),
               loc=fn.loc(), where="ShardProgress",
               construct=f"{fld} = {inits}",
               message="the range of remaining ids starts at 0 and excludes "
               "the total")
    incs = [n for n in walk(fn.body) if kind(n, "Binary") and n["op"] == "+=" and
            norm(text(n["left"])) == POS]
    # the read of the example: `examples.get(IDX)`, either here (helper
    # inlined / written in place) or in the one function this one calls with
    # the cursor as an argument
    reader, idx_ok, read_site = None, False, None
    here = [n for n in fn.method_calls("get")
            if "examples" in norm(text(n["recv"]))]
    if here:
        reader = fn
        read_site = here[0]
        idx_ok = len(here) == 1 and norm(text(here[0]["args"][0])) == POS
        site_in_next = here[0]
    else:
        site_in_next = None
        for c in [n for n in walk(fn.body) if kind(n, "Call") and
                  kind(n.get("func"), "Path")]:
            pos = [k for k, a in enumerate(c["args"])
                   if norm(text(a)) == POS]
            if len(pos) != 1:
                continue
            cand = [f for key, f in ctx.rust.functions.items()
                    if key.startswith(EI) and f.name == norm(
                        text(c["func"])).split("::")[-1]]
            if len(cand) != 1:
                continue
            g = cand[0]
            params = [p["name"].replace("mut ", "").strip()
                      for p in g.node.get("params", [])]
            getc = [n for n in g.method_calls("get")
                    if "examples" in norm(text(n["recv"]))]
            if len(params) > pos[0] and getc:
                reader, read_site, site_in_next = g, getc[0], c
                idx_ok = len(getc) == 1 and norm(
                    text(getc[0]["args"][0])) == params[pos[0]]
    if reader is None:
        raise AnalysisError("C15.cursor: the read `examples.get(..)` of the "
                            "cursor position was not found")
    ok = len(incs) == 1 and norm(text(incs[0]["right"])) == "1" and idx_ok \
        and oi[id(site_in_next)] < oi[id(incs[0])] and \
        oi[id(guard)] < oi[id(site_in_next)]
    rep.ob(rule, bool(ok), loc=fn.loc(incs[0]) if incs else fn.loc(),
           where=fn.qual,
           construct="examples.get(self.used_examples) ..; "
           "self.used_examples += 1",
           message="index read before a single +1 increment, after the "
           "exhaustion test")
    last = fn.body[-1]
    res_names = [n["pat"]["name"] for n in walk(fn.body) if kind(n, "Local") and
                 kind(n.get("pat"), "PIdent") and
                 any(x is site_in_next for x in walk(n.get("init")))]
    lt = norm(text(last))
    rep.ob(rule, any(lt == f"Some({r})" for r in res_names) or any(
        x is site_in_next for x in walk(last)), loc=fn.loc(last),
           where=fn.qual, construct=lt,
           message="the example read is the one returned")
    rep.ob(rule, idx_ok, loc=reader.loc(read_site), where=reader.qual,
           construct=norm(text(read_site)),
           message="the example with the requested index is read")
    # attributes in stored order, all of them
    maps = [n for n in reader.method_calls("map") if norm(
        text(n["recv"])) == "attributes.iter()" and
        ".attribute_bytes()" in norm(text(n))]
    chain_ok = False
    lt = "<none>"
    if len(maps) == 1:
        # the whole chain the map sits in: walk up through method calls
        pm = parent_map(reader.body)
        top = maps[0]
        while kind(pm.get(id(top)), "MethodCall") and \
                pm[id(top)]["recv"] is top:
            top = pm[id(top)]
        lt = norm(text(top))
        chain_ok = not any(w in lt for w in (".rev()", ".skip(", ".take(",
                                              ".filter(", ".step_by("))
    if not maps:
        # for a in attributes.iter() { out.push(a.attribute_bytes()...) }
        loops = [n for n in walk_no_closure(reader.body) if kind(n, "For") and
                 norm(text(n["iter"])) in ("attributes.iter()", "attributes",
                                           "&attributes")]
        if len(loops) == 1:
            body = list(walk(loops[0]["body"]))
            pushes = [n for n in body if kind(n, "MethodCall") and
                      n["method"] == "push"]
            has_bytes = any(kind(n, "MethodCall") and
                            n["method"] == "attribute_bytes" for n in body)
            skips = [n for n in body if n.get("k") in ("Continue", "Break",
                                                       "If", "Match")]
            chain_ok = len(pushes) == 1 and has_bytes and not skips
            lt = norm(text(loops[0]))[:100]
    rep.ob(rule, chain_ok, loc=reader.loc(maps[0]) if maps else reader.loc(),
           where=reader.qual, construct=lt[:100],
           message="all attribute byte vectors are copied in stored order")


# ---------------------------------------------------------------------------
RUST_DECODERS = {
    "flate2::read::GzDecoder": "gzip",
    "flate2::read::MultiGzDecoder": "gzip",
    "flate2::bufread::GzDecoder": "gzip",
    "lz4_flex::frame::FrameDecoder": "lz4.frame",
    "flate2::read::ZlibDecoder": "zlib",
    "flate2::read::DeflateDecoder": "deflate",
    "bzip2::read::BzDecoder": "bz2",
    "zstd::Decoder": "zstandard",
    "zstd::stream::read::Decoder": "zstandard",
    "xz2::read::XzDecoder": "lzma",
}


def rust_codec_tables(ctx: Context):
    """(name->variant, variant->name, variant->family, supported source)"""
    fs = ctx.rust.fn(EI, "<std::str::FromStr for CompressionType>::from_str")
    dp = ctx.rust.fn(EI, "<std::fmt::Display for CompressionType>::fmt")
    gb = ctx.rust.fn(EI, "get_file_bytes")
    name2var: dict[str, str] = {}
    for m in [n for n in walk(fs.body) if kind(n, "Match")]:
        for a in m["arms"]:
            pats = a["pat"]["cases"] if kind(a["pat"], "POr") else [a["pat"]]
            for p in pats:
                if kind(p, "PLit"):
                    lit = ast.literal_eval(p["value"])
                    mm = re.search(r"Ok\(CompressionType::(\w+)\)",
                                   norm(text(a["body"])))
                    if mm is None:
                        raise AnalysisError(f"{fs.loc(a)}: from_str arm not "
                                            "understood")
                    name2var[lit] = mm.group(1)
    var2name: dict[str, str] = {}
    for m in [n for n in walk(dp.body) if kind(n, "Match")]:
        for a in m["arms"]:
            pats = a["pat"]["cases"] if kind(a["pat"], "POr") else [a["pat"]]
            lits = [n for n in walk(a["body"]) if n.get("k") in (
                "Macro", "MacroStmt") and n["path"] == "write"]
            if lits and lits[0].get("args") and len(lits[0]["args"]) >= 2:
                lit = ast.literal_eval(lits[0]["args"][1]["value"])
            elif kind(a["body"], "Lit") and a["body"]["value"].startswith('"'):
                # a name table: `Variant => "NAME"` (written by the caller)
                lit = ast.literal_eval(a["body"]["value"])
            else:
                raise AnalysisError(f"{dp.loc(a)}: Display arm not understood")
            for p in pats:
                mm = re.search(r"CompressionType::(\w+)", norm(text(p)))
                if mm:
                    var2name[mm.group(1)] = lit
    if not name2var:
        # from_str searches the variants for the one whose name equals the
        # input: the inverse of the name table by construction
        bt = norm(text({"text": " ".join(text(x) for x in fs.body)}))
        if ".find(" in bt and "==input" in bt and "iter()" in bt and \
                len(set(var2name.values())) == len(var2name):
            name2var = {n: v for v, n in var2name.items()}
    var2fam: dict[str, str] = {}
    wild = False
    for m in [n for n in walk(gb.body) if kind(n, "Match")]:
        for a in m["arms"]:
            pats = a["pat"]["cases"] if kind(a["pat"], "POr") else [a["pat"]]
            bt = norm(text(a["body"]))
            fam = None
            for path, f in RUST_DECODERS.items():
                if path in bt:
                    fam = f
            if fam is None:
                decs = re.findall(r"([\w:]+Decoder)::new", bt)
                fam = ("unknown:" + decs[0]) if decs else "identity"
            for p in pats:
                if kind(p, "PWild"):
                    wild = True
                mm = re.search(r"CompressionType::(\w+)", norm(text(p)))
                if mm:
                    var2fam[mm.group(1)] = fam
    enum = ctx.rust.enums.get("CompressionType")
    if enum is None:
        raise AnalysisError("anchor vanished: enum CompressionType")
    return name2var, var2name, var2fam, enum["variants"], wild, (fs, dp, gb)


def check_rust_codec(ctx: Context, rep, rule: str, py_family: dict[str, str]) -> None:
    rep.rule(
        rule,
        "Rust CompressionType: from_str and Display are inverse bijections "
        "over all enum variants; every variant has a decoder arm in "
        "get_file_bytes (no wildcard) whose codec family equals the family "
        "the Python writer uses for the same name")
    name2var, var2name, var2fam, variants, wild, (fs, dp, gb) = \
        rust_codec_tables(ctx)
    rep.ob(rule, set(name2var.values()) == set(variants) == set(var2name) and
           all(var2name.get(v) == n for n, v in name2var.items()) and
           len(set(name2var.values())) == len(name2var),
           loc=fs.loc(), where=fs.qual,
           construct=f"from_str {name2var} / Display {var2name}",
           message="name <-> variant tables are inverse bijections over "
           f"{variants}")
    rep.ob(rule, not wild and set(var2fam) == set(variants), loc=gb.loc(),
           where=gb.qual, construct=f"decoder arms {var2fam}",
           message="every variant has its own decoder arm")
    for name, var in sorted(name2var.items()):
        rf = var2fam.get(var)
        pf = py_family.get(name)
        rep.ob(rule, rf is not None and rf == pf, loc=gb.loc(), where=gb.qual,
               construct=f"{name!r}: python writes {pf}, rust reads {rf}",
               message=f"compression {name!r} must be decoded by the codec "
               "family that encoded it")


# ---------------------------------------------------------------------------
def fbs_tables(ctx: Context) -> dict[str, list[str]]:
    p = ctx.repo.root / "src/sedpack/io/flatbuffer/shard.fbs"
    rel = "src/sedpack/io/flatbuffer/shard.fbs"
    if rel in ctx.overlay:
        src_text = ctx.overlay[rel]
    elif p.exists():
        src_text = p.read_text()
    else:
        raise AnalysisError("anchor vanished: shard.fbs")
    src_text = re.sub(r"//[^\n]*", "", src_text)
    tables: dict[str, list[str]] = {}
    for m in re.finditer(r"table\s+(\w+)\s*\{([^}]*)\}", src_text):
        fields = [f.split(":")[0].strip() for f in m.group(2).split(";")
                  if ":" in f]
        tables[m.group(1)] = fields
    return tables


def check_vtables(ctx: Context, rep, rule: str) -> None:
    rep.rule(
        rule,
        "FlatBuffers vtable slots agree between shard.fbs (slot = 4 + 2 * "
        "field index), the generated Python readers (self._tab.Offset(n)) "
        "and the generated Rust reader (VT_* constants)")
    tables = fbs_tables(ctx)
    if not {"Shard", "Example", "Attribute"} <= set(tables):
        raise AnalysisError(f"shard.fbs tables not understood: {tables}")
    for table, fields in sorted(tables.items()):
        for i, field in enumerate(fields):
            slot = 4 + 2 * i
            # Rust
            cname = "VT_" + field.upper()
            rust_vals = [int(norm(text(c["value"])))
                         for owner, c in ctx.rust.consts.get(cname, [])
                         if table in owner and norm(text(c["value"])).isdigit()]
            # Python generated accessor
            mod = ctx.repo.modules.get(
                f"sedpack.io.flatbuffer.shardfile.{table}")
            py_vals: set[int] = set()
            if mod is not None:
                camel = "".join(w.capitalize() for w in field.split("_"))
                for q, f in mod.functions.items():
                    if q.startswith(f"{table}.{camel}"):
                        for c in f.calls():
                            if isinstance(c.func, ast.Attribute) and \
                                    c.func.attr == "Offset" and c.args and \
                                    isinstance(c.args[0], ast.Constant):
                                py_vals.add(c.args[0].value)
            # Python generated writer: AddX -> PrependUOffsetTRelativeSlot(i,
            py_slots: set[int] = set()
            if mod is not None:
                camel = "".join(w.capitalize() for w in field.split("_"))
                for q, f in mod.functions.items():
                    if q in (f"{table}Add{camel}", f"Add{camel}"):
                        for c in f.calls():
                            if isinstance(c.func, ast.Attribute) and \
                                    "Slot" in c.func.attr and c.args and \
                                    isinstance(c.args[0], ast.Constant):
                                py_slots.add(4 + 2 * c.args[0].value)
            ok = rust_vals == [slot] and py_vals == {slot} and \
                py_slots <= {slot} and bool(py_slots)
            rep.ob(rule, ok, loc=f"{GEN}:1", where=f"{table}.{field}",
                   construct=f"fbs slot {slot}, rust {cname}={rust_vals}, "
                   f"python reader Offset{sorted(py_vals)}, python writer "
                   f"slot{sorted(py_slots)}",
                   message="writer and both readers must use the same vtable "
                   "slot for this field")


# ---------------------------------------------------------------------------
def check_repeat_assert(ctx: Context, rep, rule: str) -> None:
    fn = ctx.rust.fn(EI, "ExampleIterator::new")
    asserts = [m for m in fn.macros("assert") if norm(m["tokens"]).startswith(
        "!repeat")]
    rep.ob(rule, bool(asserts), loc=fn.loc(), where=fn.qual,
           construct="assert!(!repeat, ..)",
           message="the native iterator refuses repeat=true (the epoch loop "
           "lives in Python)")


def check_pulls(ctx: Context, rep, rule: str) -> None:
    """C14.rust"""
    rep.rule(
        rule,
        "the native reader pulls shard tasks lazily: one pull per start-up "
        "loop round (bounded by `threads`) and one per next(); the iterator "
        "built from parallel_map is only wrapped by lazy adaptors (no "
        "collect/count/fold/last/for_each on it)")
    fn = ctx.rust.fn(EI, "ExampleIterator::new")
    pm = parent_map(fn.body)
    calls = [n for n in walk(fn.body) if kind(n, "Call") and
             norm(text(n["func"])).endswith("parallel_map")]
    if not calls:
        raise AnalysisError("C14.rust: parallel_map call not found in "
                            "ExampleIterator::new")
    LAZY = {"flatten", "map", "filter", "flat_map", "take", "skip", "chain",
            "peekable", "fuse", "into_iter", "by_ref", "inspect", "filter_map"}
    for c in calls:
        cur = c
        chain = []
        while True:
            p = pm.get(id(cur))
            if kind(p, "MethodCall") and p["recv"] is cur:
                chain.append(p["method"])
                cur = p
            else:
                break
        eager = [m for m in chain if m not in LAZY]
        rep.ob(rule, not eager, loc=fn.loc(c), where=fn.qual,
               construct="parallel_map(..)" + "".join(f".{m}()" for m in chain),
               message=f"only lazy adaptors may wrap the shard stream; eager: "
               f"{eager}")
        threads_arg = c["args"][2] if len(c["args"]) > 2 else None
        rep.ob(rule, threads_arg is not None and norm(text(threads_arg)) ==
               "threads", loc=fn.loc(c), where=fn.qual,
               construct=f"threads = {norm(text(threads_arg)) if threads_arg else None}",
               message="number of outstanding shard tasks is the configured "
               "thread count")
        # one task = one shard of the `files` argument, opened (not decoded)
        # by the worker: the task stream is <files>.into_iter() / .iter() /
        # .drain(..), the mapped function is get_shard_progress applied to
        # its parameter (a path or a closure whose body is that one call),
        # and `threads` is the function's own parameter (not shadowed)
        params = [norm(text(p)).split(":")[0].strip().removeprefix("mut ")
                  for p in fn.raw.get("inputs", [])] if hasattr(fn, "raw") else []
        # immutable `let` bindings name their initialisers
        inits = {}
        for n in walk(fn.body):
            pat_ = n.get("pat") if n.get("k") == "Local" else None
            if isinstance(pat_, dict) and pat_.get("k") == "PType":
                pat_ = pat_.get("pat")       # `let x: T = ..`
            if isinstance(pat_, dict) and pat_.get("k") == "PIdent" and \
                    not pat_.get("mutable") and isinstance(n.get("init"), dict):
                inits.setdefault(pat_["name"], []).append(n["init"])

        def through_lets(a):
            seen = 0
            while kind(a, "Path") and len(inits.get(norm(text(a)), [])) == 1 \
                    and seen < 5:
                a = inits[norm(text(a))][0]
                seen += 1
            return a

        task_arg = through_lets(c["args"][1]) if len(c["args"]) > 1 else None
        ok_tasks = kind(task_arg, "MethodCall") and task_arg["method"] in (
            "into_iter", "iter", "drain") and kind(task_arg["recv"], "Path") \
            and norm(text(task_arg["recv"])) == "files"
        rep.ob(rule, bool(ok_tasks), loc=fn.loc(c), where=fn.qual,
               construct=f"tasks = {norm(text(task_arg)) if task_arg else None}",
               message="one task per shard file (a task that is a run of "
               "shards makes every worker read its whole run ahead)")
        f_arg = through_lets(c["args"][0]) if c["args"] else None
        ok_f = False
        if kind(f_arg, "Path"):
            ok_f = norm(text(f_arg)).endswith("get_shard_progress")
        elif kind(f_arg, "Closure") and len(f_arg.get("inputs", [])) == 1:
            b = f_arg["body"]
            while kind(b, "Block") and len(b.get("stmts", [])) == 1:
                b = b["stmts"][0]
                if kind(b, "ExprStmt"):
                    b = b.get("expr", b)
            pname = f_arg["inputs"][0].get("name")
            if kind(b, "Call") and norm(text(b["func"])).endswith(
                    "get_shard_progress") and len(b["args"]) == 1:
                a0 = b["args"][0]
                inner = a0["expr"] if kind(a0, "Ref") else a0
                ok_f = kind(inner, "Path") and norm(text(inner)) == pname
        rep.ob(rule, ok_f, loc=fn.loc(c), where=fn.qual,
               construct=f"worker function = {norm(text(f_arg))[:70] if f_arg else None}",
               message="the worker opens one shard (get_shard_progress); "
               "decoding / collecting examples in the worker reads ahead "
               "whole shards' worth of decoded data and moves decode failures "
               "into the worker, where a panic reads as end of stream")
        shadows = [n for n in walk(fn.body) if n.get("k") == "Local" and
                   isinstance(n.get("pat"), dict) and any(
                       x.get("k") == "PIdent" and x.get("name") == "threads"
                       for x in walk(n["pat"]))]
        rep.ob(rule, not shadows, loc=fn.loc(shadows[0]) if shadows else
               fn.loc(c), where=fn.qual,
               construct=(norm(text(shadows[0]))[:70] if shadows
                          else "threads is the parameter"),
               message="the thread count handed to parallel_map is the "
               "caller's (a clamp against the number of files panics for an "
               "empty list and changes the configured parallelism)")
    nx = ctx.rust.fn(PM, "<Iterator for ParallelMap>::next")
    pulls = [n for n in nx.method_calls("next") if "iter" in norm(text(n["recv"]))]
    loops = [n for n in walk(nx.body) if n.get("k") in ("While", "For", "Loop")]
    rep.ob(rule, len(pulls) == 1 and not loops, loc=nx.loc(), where=nx.qual,
           construct=f"{len(pulls)} pull(s), {len(loops)} loop(s)",
           message="one task pulled per result returned, no loop in next()")
    pf = ctx.rust.fn(PM, "parallel_map")
    collects = [n for n in pf.method_calls() if n["method"] in (
        "collect", "count", "last", "fold", "for_each", "sum")]
    rep.ob(rule, not collects, loc=pf.loc(), where=pf.qual,
           construct=f"eager consumers in parallel_map: "
           f"{[n['method'] for n in collects]}",
           message="parallel_map must not drain its input")
    ploops = [n for n in walk_no_closure(pf.body) if n.get("k") in (
        "While", "Loop")]
    rep.ob(rule, not ploops, loc=pf.loc(), where=pf.qual,
           construct=f"{len(ploops)} unbounded loop(s) outside the worker",
           message="start-up pulls are bounded by the for loop over threads")


def check_static_map(ctx: Context, rep, rule: str) -> None:
    rep.rule(
        rule,
        "the per-iterator state map: insert only in RustIter::new, remove "
        "in __exit__, lookups in next() only after the can_iterate test")
    ins, rem = [], []
    for key, f in ctx.rust.functions.items():
        if not key.startswith(LIB):
            continue
        for n in f.method_calls():
            if "hash_map" in norm(text(n["recv"])):
                if n["method"] == "insert":
                    ins.append(f.qual)
                elif n["method"] == "remove":
                    rem.append(f.qual)
    rep.ob(rule, ins == ["static_iter::RustIter::new"], loc=f"{LIB}:1",
           where="static_iter", construct=f"insert in {ins}",
           message="state is registered once, at construction")
    rep.ob(rule, rem == ["static_iter::RustIter::__exit__"], loc=f"{LIB}:1",
           where="static_iter", construct=f"remove in {rem}",
           message="state is dropped on __exit__ (threads are joined by Drop)")
    # the key of a new entry cannot collide with a live iterator's key
    new = ctx.rust.fn(LIB, "static_iter::RustIter::new")
    inserts = [n for n in new.method_calls("insert")
               if "hash_map" in norm(text(n["recv"])) and n["args"]]
    for ins_call in inserts:
        key = ins_call["args"][0]
        kt = norm(text(key))
        src_t = kt
        for loc_ in walk(new.body):
            if kind(loc_, "Local") and kind(loc_.get("pat"), "PIdent") and \
                    loc_["pat"]["name"] == kt and isinstance(
                        loc_.get("init"), dict):
                src_t = norm(text(loc_["init"]))
        unique = any(w in src_t for w in ("rand::random", "fetch_add",
                                          "Uuid::new_v4", "thread_rng"))
        rep.ob(rule, unique and ".len()" not in src_t, loc=new.loc(ins_call),
               where=new.qual, construct=f"key = {src_t[:60]}",
               message="the key of a new iterator is drawn from a source "
               "that does not depend on the map's current content (entries "
               "are removed on __exit__, so a key derived from len() can "
               "equal the key of a live iterator and replace its state)")
    # the look-up lives in RustIter's next() or, when that single-caller
    # method is inlined, in __next__
    holders = [f for key, f in ctx.rust.functions.items()
               if key.startswith(LIB) and f.method_calls("get_mut") and any(
                   "hash_map" in norm(text(g["recv"]))
                   for g in f.method_calls("get_mut"))]
    if len(holders) != 1:
        raise AnalysisError(f"{rule}: the state look-up (hash_map.get_mut) "
                            f"was found in {len(holders)} functions")
    nx = holders[0]
    oi = order_index(nx)
    guards = [n for n in walk(nx.body) if kind(n, "If") and
              re.fullmatch(r"!(self|slf)\.can_iterate",
                           norm(text(n["cond"]))) and any(
                  kind(x, "Return") for x in walk(n["then"]))]
    gets = nx.method_calls("get_mut")
    rep.ob(rule, bool(guards) and bool(gets) and all(
        oi[id(guards[0])] < oi[id(g)] for g in gets), loc=nx.loc(),
           where=nx.qual, construct="if !self.can_iterate { return None } .. get_mut",
           message="no lookup of a removed entry")


def panic_inventory(ctx: Context, rep, rule: str) -> None:
    sites = []
    for f in [f for key, f in ctx.rust.functions.items()
              if key.startswith(EI) and "::tests::" not in key]:
        for n in f.method_calls():
            if n["method"] in ("unwrap", "expect"):
                sites.append(f"{f.loc(n)} {f.qual}: .{n['method']}()")
        for m in f.macros():
            if m["path"] in ("assert", "panic", "assert_eq", "unreachable"):
                sites.append(f"{f.loc(m)} {f.qual}: {m['path']}!")
    rep.info(rule, f"{len(sites)} panic-capable sites reachable from the "
             "worker closure (a panic there disconnects the worker's result "
             "channel): " + "; ".join(sites))
