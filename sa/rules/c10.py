"""C10 - shards respect the configured size."""
from __future__ import annotations

import ast

from sa.cfg import TRUTHY
from sa.context import Context, names_in
from sa.interval import BOTTOM, CounterInterval, fmt, geq, leq
from sa.model import AnalysisError, dotted, parent, short
from sa.valuation import Valuation

FILLER = "sedpack.io.dataset_filler"
WRITE_EXAMPLE = f"{FILLER}:_DatasetFillerContext.write_example"
CLOSE_SHARD = f"{FILLER}:_DatasetFillerContext.close_shard"
EXIT = f"{FILLER}:DatasetFiller.__exit__"
COUNTER = "written_examples"


def is_counter(e: ast.AST) -> bool:
    return isinstance(e, ast.Attribute) and e.attr == COUNTER


def is_limit(e: ast.AST) -> bool:
    d = dotted(e) or ""
    return d.rsplit(".", 1)[-1].lstrip("_") == "examples_per_shard"


def fresh_record_value(ctx: Context, st: ast.AST) -> int | None:
    """`x = ShardProgress(<shard>[, written_examples=k])` (a new progress
    record, bound to a local or stored in the registry): the counter value k
    the record starts with (class default when omitted); None otherwise."""
    if not isinstance(st, (ast.Assign, ast.AnnAssign)) or st.value is None:
        return None
    v = st.value
    if not (isinstance(v, ast.Call) and (dotted(v.func) or "").rsplit(
            ".", 1)[-1] == "ShardProgress"):
        return None
    e = Context.arg(v, 1, COUNTER)
    if e is None:
        ci = ctx.repo.cls(f"{WRITE_EXAMPLE.split(':')[0]}:ShardProgress")
        # dataclass default
        for n in ci.node.body:
            if isinstance(n, ast.AnnAssign) and isinstance(
                    n.target, ast.Name) and n.target.id == COUNTER:
                e = n.value
    if isinstance(e, ast.Constant) and type(e.value) is int:
        return e.value
    return None


def check_couple(ctx: Context, rep, rule: str) -> None:
    from sa.rules.common import reaches, helper_assigns
    we = ctx.fn(WRITE_EXAMPLE)
    cfg = ctx.cfg(we)
    close_sites = cfg.calls(lambda c: reaches(ctx, we, c, CLOSE_SHARD))
    writes = [
        n for n in cfg.calls()
        if isinstance(n.ast.func, ast.Attribute) and n.ast.func.attr == "write"
        and any(t.qualname == "Shard.write"
                for t in ctx.internal_targets(we, n.ast))
    ]
    # coupling of shard rebinding and counter reset
    rep.rule(
        rule,
        "every rebinding of the progress record's shard sits in one block "
        "with `written_examples = 0`, after the close of the previous shard; "
        "every counter reset sits with a shard rebinding")
    def assigns_shard(st):
        # the record's shard is re-pointed, or a fresh record takes over
        return (isinstance(st, ast.Assign) and any(
            isinstance(t, ast.Attribute) and t.attr == "shard"
            for t in st.targets)) or fresh_record_value(ctx, st) is not None

    def resets_counter(st):
        return (isinstance(st, ast.Assign) and any(
            is_counter(t) for t in st.targets) and isinstance(
                st.value, ast.Constant) and st.value.value == 0) or \
            fresh_record_value(ctx, st) == 0

    norm = lambda a, b, lab: lab not in ("exc", "raise")  # noqa: E731
    opens = [n for n in cfg.nodes if (n.kind == "stmt" and assigns_shard(n.ast))
             or (n.kind == "call" and helper_assigns(ctx, we, n.ast,
                                                    assigns_shard))]
    resets = [n for n in cfg.nodes if (n.kind == "stmt" and
                                       resets_counter(n.ast)) or (
        n.kind == "call" and helper_assigns(ctx, we, n.ast, resets_counter))]
    # once the previous shard is closed the filler's registry must stop
    # naming it before the (rejectable) write is attempted: every path from a
    # close site to the shard write passes an update of the registry (the
    # record's `.shard`, or the registry entry itself)
    def registry_store(st):
        return isinstance(st, ast.Assign) and any(
            isinstance(t, ast.Subscript) and (dotted(t.value) or "").endswith(
                "_current_shards_progress") for t in st.targets)

    def mutates_record(st):
        return isinstance(st, ast.Assign) and any(
            isinstance(t, ast.Attribute) and t.attr == "shard"
            for t in st.targets)

    updates = [n for n in cfg.nodes if (n.kind == "stmt" and (
        registry_store(n.ast) or mutates_record(n.ast))) or (
            n.kind == "call" and helper_assigns(ctx, we, n.ast,
                                                mutates_record))]
    for cs in close_sites:
        after_c = cfg.reachable([cs], avoiding=updates, strict=True, follow=norm)
        stale = [w for w in writes if w in after_c]
        rep.ob(rule, not stale, loc=we.loc(cs.ast), where=we.qualname,
               construct="close_shard ... <registry update> ... shard.write",
               message="after the previous shard is closed the progress "
               "registry must point at the new shard before the write is "
               "attempted (a rejected write would leave the closed shard "
               "registered: every later write and __exit__ fail)",
               path=cfg.describe_path(cfg.path_to(stale[0])) if stale else "")
    if not opens:
        raise AnalysisError("C10.couple: no shard rebinding in write_example")
    def first_use(node) -> bool:
        """a fresh record created because the split has none yet (under
        `split not in <registry>`): there is no previous shard to close"""
        if node.kind != "stmt" or fresh_record_value(ctx, node.ast) is None:
            return False
        from sa.model import ancestors as _anc
        tgt = node.ast.targets[0] if isinstance(node.ast, ast.Assign) \
            else node.ast.target
        for a in _anc(node.ast):
            if not (isinstance(a, ast.If) and any(
                    node.ast is x for s in a.body for x in ast.walk(s))):
                continue
            t = a.test
            if isinstance(t, ast.Compare) and len(t.ops) == 1 and isinstance(
                    t.ops[0], ast.NotIn) and (dotted(
                        t.comparators[0]) or "").endswith(
                            "_current_shards_progress"):
                return True
            # `rec = registry.get(split)` ... `if rec is None:` / `if not rec:`
            sub = None
            if isinstance(t, ast.Compare) and len(t.ops) == 1 and isinstance(
                    t.ops[0], ast.Is) and isinstance(
                        t.comparators[0], ast.Constant) and \
                    t.comparators[0].value is None:
                sub = t.left
            elif isinstance(t, ast.UnaryOp) and isinstance(t.op, ast.Not):
                sub = t.operand
            if isinstance(sub, ast.Name) and isinstance(tgt, ast.Name) and \
                    sub.id == tgt.id and any(
                        isinstance(x, (ast.Assign, ast.AnnAssign)) and
                        x.value is not None and isinstance(
                            x.value, ast.Call) and isinstance(
                                x.value.func, ast.Attribute) and
                        x.value.func.attr == "get" and (dotted(
                            x.value.func.value) or "").endswith(
                                "_current_shards_progress") and dotted(
                                    x.targets[0] if isinstance(x, ast.Assign)
                                    else x.target) == sub.id
                        for x in we.body_nodes()):
                return True
        return False

    opens = [o for o in opens if not first_use(o)]
    resets = [r for r in resets if not first_use(r)]
    for o in opens:
        after = cfg.reachable([o], avoiding=resets, strict=True, follow=norm)
        if o in resets:
            after = set()
        bad = [w for w in writes if w in after]
        rep.ob(rule, not bad, loc=we.loc(o.ast), where=we.qualname,
               construct=short(o.ast, 70),
               message="after a new shard is opened the counter must be "
               "reset to 0 before the next write (otherwise the new shard is "
               "closed early or grows past the limit)",
               path=cfg.describe_path(cfg.path_to(bad[0])) if bad else "")
        missed = cfg.always_before(close_sites, [o], normal_only=True)
        rep.ob(rule, not missed, loc=we.loc(o.ast), where=we.qualname,
               construct="close_shard ... " + short(o.ast, 50),
               message="the previous shard is closed (and listed) before the "
               "progress record is pointed at a new one")
    for r in resets:
        if r in opens:
            continue
        before = cfg.reachable([cfg.entry], avoiding=opens, follow=norm)
        after = cfg.reachable([r], avoiding=opens, strict=True, follow=norm)
        bad = r in before and any(w in after for w in writes)
        rep.ob(rule, not bad, loc=we.loc(r.ast), where=we.qualname,
               construct=short(r.ast),
               message="a counter reset without a new shard lets a shard grow "
               "beyond the limit")



def may_be_true(fn, test: ast.AST, written: int, limit: int) -> bool:
    """Can `test` be true when the counter is `written` and the limit is
    `limit`, for some value of every other condition? (single-definition
    locals expanded)"""
    from sa.norm import expand
    e = expand(fn, test)

    def val(x):
        if is_counter(x):
            return written
        if is_limit(x):
            return limit
        if isinstance(x, ast.Constant) and isinstance(x.value, (int, float)):
            return x.value
        return None

    def mt_mf(x):
        """(may be true, may be false)"""
        if isinstance(x, ast.BoolOp):
            parts = [mt_mf(v) for v in x.values]
            if isinstance(x.op, ast.And):
                return all(p[0] for p in parts), any(p[1] for p in parts)
            return any(p[0] for p in parts), all(p[1] for p in parts)
        if isinstance(x, ast.UnaryOp) and isinstance(x.op, ast.Not):
            t, f_ = mt_mf(x.operand)
            return f_, t
        if isinstance(x, ast.Call) and isinstance(x.func, ast.Name) and \
                x.func.id in ("all", "any") and len(x.args) == 1 and \
                isinstance(x.args[0], (ast.Tuple, ast.List)):
            parts = [mt_mf(v) for v in x.args[0].elts]
            if x.func.id == "all":
                return all(p[0] for p in parts), any(p[1] for p in parts)
            return any(p[0] for p in parts), all(p[1] for p in parts)
        if isinstance(x, ast.Compare) and len(x.ops) == 1:
            a, b = val(x.left), val(x.comparators[0])
            if a is not None and b is not None:
                op = x.ops[0]
                r = {ast.Gt: a > b, ast.GtE: a >= b, ast.Lt: a < b,
                     ast.LtE: a <= b, ast.Eq: a == b,
                     ast.NotEq: a != b}.get(type(op))
                if r is not None:
                    return r, not r
        if is_counter(x):
            return bool(written), not written
        return True, True   # any other condition: adversary's choice

    return mt_mf(e)[0]


def run(ctx: Context, rep) -> None:
    rep.not_decided = (
        "that ShardInfo.number_of_examples equals what is in the file (C04); "
        "'at least one example' on the metadata-change path after a failed "
        "write; values of examples_per_shard < 1 (outside the quantifier)")
    rep.assumptions += [
        "examples_per_shard >= 1 (the property's quantifier)",
        "the per-split progress record is only written by the functions "
        "found by who-may-write on `written_examples` (checked)",
    ]
    we = ctx.fn(WRITE_EXAMPLE)
    cfg = ctx.cfg(we)

    # who may write the counter
    rep.rule(
        "C10.who",
        "the progress counter `written_examples` is assigned only in "
        "write_example (and initialised to 0 by its dataclass default)")
    writers = 0
    for f in ctx.repo.all_functions():
        for n in f.body_nodes():
            tgts = []
            if isinstance(n, ast.Assign):
                tgts = n.targets
            elif isinstance(n, (ast.AugAssign, ast.AnnAssign)):
                tgts = [n.target]
            for t in tgts:
                if is_counter(t):
                    writers += 1
                    rep.ob("C10.who", f is we, loc=f.loc(n), where=f.qualname,
                           construct=short(n),
                           message="only write_example may move the counter")
    sp = ctx.repo.cls(f"{FILLER}:ShardProgress")
    default = sp.field_defaults.get(COUNTER)
    rep.ob("C10.who", isinstance(default, ast.Constant) and default.value == 0,
           loc=f"{sp.module.relpath}:{sp.node.lineno}", where="ShardProgress",
           construct=f"{COUNTER}: int = {short(default)}",
           message="a fresh progress record starts with 0 written examples")
    for f in ctx.repo.all_functions():
        for c in f.calls():
            if ctx.is_call(f, c, f"{FILLER}.ShardProgress"):
                extra = [k for k in c.keywords if k.arg == COUNTER] or c.args[1:]
                ok = not extra or all(
                    isinstance(getattr(x, "value", x), ast.Constant) and
                    getattr(getattr(x, "value", x), "value", None) == 0
                    for x in extra)
                rep.ob("C10.who", ok, loc=f.loc(c), where=f.qualname,
                       construct=short(c),
                       message="progress records are created with counter 0")
    if writers < 1:
        raise AnalysisError("C10.who: counter writes not found "
                            f"({writers}); anchor changed")

    # interval
    rep.rule(
        "C10.interval",
        "interval analysis of d = written_examples - examples_per_shard over "
        "write_example's CFG with entry invariant d <= 0 and limit >= 1: "
        "d <= -1 holds at the shard write (so a shard never receives more "
        "than the limit), d <= 0 at every normal and exceptional exit, and "
        "the size test alone implies d >= 0 (only full shards roll over when "
        "the metadata did not change)")
    ci = CounterInterval(cfg, is_counter, is_limit, entry=(None, 0),
                         fresh_value=lambda st: fresh_record_value(ctx, st))
    writes = [
        n for n in cfg.calls()
        if isinstance(n.ast.func, ast.Attribute) and n.ast.func.attr == "write"
        and any(t.qualname == "Shard.write"
                for t in ctx.internal_targets(we, n.ast))
    ]
    if not writes:
        raise AnalysisError("C10.interval: call to Shard.write not found in "
                            "write_example")
    for w in writes:
        iv = ci.at(w)
        rep.ob("C10.interval", leq(iv, -1), loc=we.loc(w.ast),
               where=we.qualname, construct=short(w.ast),
               message=f"before the write the open shard must have room: "
               f"d = written - limit is {fmt(iv)}, need d <= -1",
               path=cfg.describe_path(cfg.path_to(w)))
    for ex, label in ((cfg.exit, "normal exit"), (cfg.raise_exit,
                                                  "exceptional exit")):
        iv = ci.at(ex)
        rep.ob("C10.interval", leq(iv, 0), loc=we.loc(), where=we.qualname,
               construct=f"{label}: d in {fmt(iv)}",
               message=f"invariant written <= limit must hold at the {label}")
    if not ci.size_atoms:
        rep.ob("C10.interval", False, loc=we.loc(), where=we.qualname,
               construct="written_examples >= examples_per_shard",
               message="no comparison of the counter with the limit found")
    from sa.rules.common import reaches, helper_assigns
    close_sites = cfg.calls(lambda c: reaches(ctx, we, c, CLOSE_SHARD))
    if not close_sites:
        raise AnalysisError("C10: no call in write_example reaches close_shard")
    # the rollover decision: tests that control whether a close site runs
    guards = []
    for n in cfg.find(lambda n: n.kind == "test"):
        t_succ = [m for m, lab in n.succ if lab == "true"]
        f_succ = [m for m, lab in n.succ if lab == "false"]
        rt = cfg.reachable(t_succ, follow=lambda a, b, lab: lab not in ("exc", "raise"))
        rf = cfg.reachable(f_succ, follow=lambda a, b, lab: lab not in ("exc", "raise"))
        if any(c in rt for c in close_sites) != any(c in rf for c in close_sites) \
                and ci.mentions_counter(n.ast) or (
                    any(c in rt for c in close_sites) and not any(
                        c in rf for c in close_sites) and any(
                            isinstance(x, ast.Name) and x.id in ci.defs
                            for x in ast.walk(n.ast))):
            guards.append(n)
    size_guards = [g for g in guards if ci.mentions_counter(g.ast)]
    if not size_guards:
        rep.ob("C10.interval", False, loc=we.loc(), where=we.qualname,
               construct="size test guarding the rollover",
               message="no comparison of the counter with the limit controls "
               "the rollover")
    for gnode in size_guards:
        iv = ci.refine(gnode.ast, True, (None, 0), opaque_bottom=True)
        rep.ob("C10.interval", geq(iv, 0), loc=we.loc(gnode.ast),
               where=we.qualname, construct=short(gnode.ast),
               message="with unchanged metadata the rollover guard is true "
               "only for a full shard (d >= 0); under the invariant it gives "
               f"d in {fmt(iv)}")

    check_couple(ctx, rep, "C10.couple")

    from sa.rules.c18 import check_counters
    check_counters(ctx, rep, "C10.count")
    rep.rule(
        "C10.count",
        "the size recorded for a shard counts exactly the successful "
        "writes: the per-shard counter and the filler's progress counter "
        "both advance by one only after the write returned normally (same "
        "check as C18.count), so the recorded size can neither exceed the "
        "limit nor disagree with the rollover test")
    # who may call close_shard
    rep.rule(
        "C10.close",
        "close_shard is called only from the guarded rollover in "
        "write_example and from DatasetFiller.__exit__ under a test that is "
        "true exactly when written_examples >= 1; the rollover guard depends "
        "only on the size test and the metadata-change flag")
    ex = ctx.fn(EXIT)
    n_calls = 0
    helpers = set()
    for f in ctx.repo.all_functions():
        if f.cls is we.cls and f is not we and f.name.startswith("_") and \
                ctx.cg.callers(f.fq) == {we.fq} and any(
                    ctx.is_call(f, c, method="close_shard") for c in f.calls()):
            helpers.add(f.fq)
    sites = []
    for f in ctx.repo.all_functions():
        for c in f.calls():
            if f.fq in helpers:
                continue
            direct = ctx.is_call(f, c, method="close_shard") or any(
                t.fq == CLOSE_SHARD for t in ctx.internal_targets(f, c))
            via = any(t.fq in helpers for t in ctx.internal_targets(f, c))
            if direct or via:
                sites.append((f, c))
    for f, c in sites:
            n_calls += 1
            guards = []
            cur = c
            while parent(cur) is not None and parent(cur) is not f.node:
                p = parent(cur)
                if isinstance(p, ast.If) and any(cur is s for s in p.body):
                    guards.append(p)
                elif isinstance(p, ast.If) and any(cur is s for s in p.orelse):
                    guards.append(None)
                elif isinstance(p, (ast.For, ast.AsyncFor)) and any(
                        cur is s for s in p.body):
                    # a loop over a filtered stream: the filter conditions
                    # guard the body (generator expression / comprehension
                    # with `if`, filter(lambda ..: cond, src))
                    from sa.valuation import single_defs
                    it = p.iter
                    if isinstance(it, ast.Name) and it.id in single_defs(f):
                        it = single_defs(f)[it.id]
                    if isinstance(it, (ast.GeneratorExp, ast.ListComp)):
                        for gen in it.generators:
                            for cond in gen.ifs:
                                guards.append(ast.If(test=cond, body=[],
                                                     orelse=[]))
                    elif isinstance(it, ast.Call) and isinstance(
                            it.func, ast.Name) and it.func.id == "filter" and \
                            it.args and isinstance(it.args[0], ast.Lambda):
                        guards.append(ast.If(test=it.args[0].body, body=[],
                                             orelse=[]))
                cur = p
            if f is we:
                # an `elif` arm: the chain of tests decides
                chain = [g for g in guards if g is not None]
                ok = bool(chain)
                if ok:
                    g = chain[0]
                    v = Valuation(we, lambda e: "size" if ci.compare_atom(e)
                                  else None, {})
                    bare: set[str] = set()
                    attrs: set[str] = set()
                    todo = [g.test]
                    # tests of enclosing if/elif chain
                    pp = parent(g)
                    while isinstance(pp, ast.If) and g in pp.orelse:
                        todo.append(pp.test)
                        g2 = pp
                        pp = parent(pp)
                        if not (isinstance(pp, ast.If) and g2 in pp.orelse):
                            break
                    seen_defs: set[str] = set()
                    while todo:
                        e = todo.pop()
                        for x in ast.walk(e):
                            if isinstance(x, ast.Attribute) and not isinstance(
                                    parent(x), ast.Attribute):
                                attrs.add(x.attr.lstrip("_"))
                            if isinstance(x, ast.Name) and not (isinstance(
                                    parent(x), ast.Attribute) and
                                                                parent(x).value is x):
                                if x.id in v.defs:
                                    if x.id not in seen_defs:
                                        seen_defs.add(x.id)
                                        todo.append(v.defs[x.id])
                                else:
                                    bare.add(x.id)
                    extra = (bare - {"custom_metadata", "all", "any", "bool"}) | {
                        "." + a for a in attrs - {
                            COUNTER, "examples_per_shard", "custom_metadata"}}
                    ok = not extra
                    rep.ob("C10.close", ok, loc=f.loc(c), where=f.qualname,
                           construct=f"if {short(g.test)}: close_shard",
                           message="rollover guard may depend only on the "
                           f"size test and the metadata flag; extra: "
                           f"{sorted(extra)}")
                    # the rollover never closes an EMPTY shard: with
                    # written = 0 (limit >= 1) the guard is false whatever the
                    # other conditions are (a rejected first write leaves a
                    # labelled shard with no example)
                    empty_closed = any(
                        may_be_true(we, g.test, 0, lim) for lim in (1, 4))
                    rep.ob("C10.close", not empty_closed, loc=f.loc(c),
                           where=f.qualname,
                           construct=f"written = 0: `{short(g.test, 70)}` can "
                           f"be true: {empty_closed}",
                           message="a shard is closed (and listed) by the "
                           "rollover only when it holds at least one example")
                else:
                    rep.ob("C10.close", False, loc=f.loc(c), where=f.qualname,
                           construct=short(c),
                           message="close_shard in write_example must sit "
                           "under a rollover guard")
            elif f is ex:
                ok = len(guards) == 1 and guards[0] is not None
                detail = ""
                if ok:
                    g = guards[0]
                    res = []
                    for val in (0, 1, 7):
                        v = Valuation(ex, lambda e: "n" if is_counter(e) else
                                      None, {"n": val}, inline=True)
                        res.append(v.truth(g.test))
                    ok = res == [False, True, True]
                    detail = f"test at n=0,1,7 -> {res}"
                rep.ob("C10.close", ok, loc=f.loc(c), where=f.qualname,
                       construct="if " + (short(guards[0].test) if guards and
                                          guards[0] is not None else "<none>") +
                       ": close_shard",
                       message="on exit only shards with at least one example "
                       f"are closed and listed ({detail})")
            else:
                rep.ob("C10.close", False, loc=f.loc(c), where=f.qualname,
                       construct=short(c),
                       message="close_shard called from an unexpected function")
    rep.floor("C10.close", n_calls, 2, "instances")
    # a recorded shard holds at least one example: it is listed only after
    # its file is complete (same rule as C06.order for close_shard)
    from sa.rules.c06 import check_close_order
    rep.rule("C10.order", "close_shard: shard.close() precedes the append "
             "to the list, which precedes the list write")
    check_close_order(ctx, rep, "C10.order")
    from sa.rules import shared as _sh
    _sh.check_label_copy(ctx, rep, "C10.label-copy")
    # nothing read from the dataset's files / the environment is memoised
    from sa.rules import shared as _shm
    _shm.check_no_memo(ctx, rep, "C10.memo")
    _shm.check_no_shared_class_state(ctx, rep, "C10.class-state")
    _shm.check_assert_pure(ctx, rep, "C10.assert")

_P = "src/sedpack/io/dataset_filler.py"
SELFTESTS = [
    dict(rule="C10.interval", name="gt-for-ge", expect="fire", path=_P,
         old="if (current_progress.written_examples >= self._examples_per_shard or",
         new="if (current_progress.written_examples > self._examples_per_shard or"),
    dict(rule="C10.interval", name="eq-twin", expect="silent", path=_P,
         old="if (current_progress.written_examples >= self._examples_per_shard or",
         new="if (current_progress.written_examples == self._examples_per_shard or"),
    dict(rule="C10.interval", name="not-lt-twin", expect="silent", path=_P,
         old="if (current_progress.written_examples >= self._examples_per_shard or",
         new="if (not current_progress.written_examples < self._examples_per_shard or"),
    dict(rule="C10", name="drop-reset", expect="fire", path=_P,
         old="            current_progress.shard = self._get_new_shard(split=split)\n            current_progress.written_examples = 0\n",
         new="            current_progress.shard = self._get_new_shard(split=split)\n"),
    dict(rule="C10.interval", name="increment-by-two", expect="fire", path=_P,
         old="        current_progress.written_examples += 1\n",
         new="        current_progress.written_examples += 2\n"),
    dict(rule="C10.interval", name="early-rollover", expect="fire", path=_P,
         old="if (current_progress.written_examples >= self._examples_per_shard or",
         new="if (current_progress.written_examples + 1 >= self._examples_per_shard or"),
    dict(rule="C10.close", name="unguarded-close-on-exit", expect="fire", path=_P,
         old="            if shard_progress.written_examples > 0:\n",
         new="            if shard_progress.written_examples >= 0:\n"),
    dict(rule="C10.close", name="ge-1-twin", expect="silent", path=_P,
         old="            if shard_progress.written_examples > 0:\n",
         new="            if shard_progress.written_examples >= 1:\n"),
    dict(rule="C10.close", name="extra-rollover-condition", expect="fire", path=_P,
         old="            (metadata_changed and current_progress.written_examples > 0)):\n",
         new="            (metadata_changed and current_progress.written_examples > 0) or split == \"test\"):\n"),
    dict(rule="C10.close", name="empty-shard-closed-on-label-change",
         expect="fire", path=_P,
         old="            (metadata_changed and current_progress.written_examples > 0)):\n",
         new="            metadata_changed):\n"),
    dict(rule="C10.close", name="nonempty-truthiness-twin", expect="silent",
         path=_P,
         old="            (metadata_changed and current_progress.written_examples > 0)):\n",
         new="            (metadata_changed and current_progress.written_examples)):\n"),
    dict(rule="C10.close", name="nonempty-ge-1-twin", expect="silent",
         path=_P,
         old="            (metadata_changed and current_progress.written_examples > 0)):\n",
         new="            (current_progress.written_examples >= 1 and metadata_changed)):\n"),
    dict(rule="C10.close", name="nonempty-in-flag-twin", expect="silent",
         path=_P,
         old="            custom_metadata != previous_metadata,\n        ))\n",
         new="            custom_metadata != previous_metadata,\n            current_progress.written_examples > 0,\n        ))\n"),
    dict(rule="C10.couple", name="reset-without-new-shard", expect="fire", path=_P,
         old="        # Write the current example and update counters.\n",
         new="        if custom_metadata is None:\n            current_progress.written_examples = 0\n        # Write the current example and update counters.\n"),
]
