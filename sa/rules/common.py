"""Helpers shared by several rule modules."""
from __future__ import annotations

from sa.model import clone as _clone

import ast
from typing import Iterator

from sa.cfg import CFG, Node
from sa.context import Context
from sa.dataflow import EMPTY, State, TagFlow, param_tags
from sa.model import AnalysisError, FunctionInfo, dotted, parent, short

ITER_MOD = "sedpack.io.dataset_iteration"
INTERFACES = [
    f"{ITER_MOD}:DatasetIteration.as_tfdataset",
    f"{ITER_MOD}:DatasetIteration.as_numpy_iterator",
    f"{ITER_MOD}:DatasetIteration.as_numpy_iterator_concurrent",
    f"{ITER_MOD}:DatasetIteration.as_numpy_iterator_async",
    f"{ITER_MOD}:DatasetIteration.as_numpy_iterator_rust",
]
COMMON = f"{ITER_MOD}:DatasetIteration.as_numpy_common"
SHARD_PATHS = f"{ITER_MOD}:DatasetIteration.shard_paths_dataset"
RUST_GEN = f"{ITER_MOD}:RustGenerator"


def init_field_aliases(ctx: Context, fn: FunctionInfo) -> State:
    """For a method: `self.f` -> tags of the constructor parameters it was
    assigned from in `__init__` (fields assigned exactly once there and
    nowhere else in the class)."""
    state: State = {}
    if fn.cls is None:
        return state
    init = fn.cls.methods.get("__init__")
    if init is None or init is fn:
        return state
    cfg = ctx.cfg(init)
    tf = TagFlow(cfg, param_tags(init))
    assigned_elsewhere: set[str] = set()
    for m in fn.cls.methods.values():
        if m is init:
            continue
        for n in m.body_nodes():
            if isinstance(n, (ast.Assign, ast.AugAssign, ast.AnnAssign)):
                tgts = n.targets if isinstance(n, ast.Assign) else [n.target]
                for t in tgts:
                    d = dotted(t)
                    if d and d.startswith("self."):
                        assigned_elsewhere.add(d)
    for node in cfg.nodes:
        a = node.ast
        if node.kind != "stmt" or not isinstance(a, (ast.Assign, ast.AnnAssign)):
            continue
        tgts = a.targets if isinstance(a, ast.Assign) else [a.target]
        if getattr(a, "value", None) is None:
            continue
        for t in tgts:
            d = dotted(t)
            if d and d.startswith("self.") and d not in assigned_elsewhere:
                tags = tf.tags_at(node, a.value)
                tags = frozenset(x for x in tags if x != "self")
                if tags:
                    state[d] = state.get(d, EMPTY) | tags
    return state


def calls_with_lambdas(fn: FunctionInfo) -> Iterator[tuple[ast.Call, ast.AST]]:
    """Calls of fn including those inside lambdas / comprehensions written in
    fn; second item is the outermost lambda (or the call itself)."""
    if isinstance(fn.node, ast.Lambda):
        roots = [fn.node.body]
    else:
        roots = list(fn.node.body)
    stack: list[tuple[ast.AST, ast.AST | None]] = [(r, None) for r in roots]
    while stack:
        n, lam = stack.pop()
        if isinstance(n, (ast.FunctionDef, ast.AsyncFunctionDef, ast.ClassDef)):
            continue
        if isinstance(n, ast.Call):
            yield n, (lam or n)
        for c in ast.iter_child_nodes(n):
            if isinstance(c, ast.Lambda):
                stack.append((c.body, lam or c))
            else:
                stack.append((c, lam))


def node_of(cfg: CFG, sub: ast.AST) -> Node | None:
    """The CFG event node whose AST is `sub` or contains it (innermost)."""
    best: Node | None = None
    for n in cfg.nodes:
        if n.ast is None:
            continue
        if n.ast is sub:
            return n
    # containment: prefer call nodes, then stmt nodes
    for kind in ("call", "yield", "test", "for", "with", "stmt"):
        for n in cfg.nodes:
            if n.kind != kind or n.ast is None:
                continue
            target = n.ast
            if kind == "for":
                target = n.ast.iter  # type: ignore[attr-defined]
            if kind == "with":
                target = n.ast.context_expr  # type: ignore[attr-defined]
            if any(x is sub for x in ast.walk(target)):
                if best is None:
                    best = n
        if best is not None:
            return best
    return best


def star_kwargs_literal(call: ast.Call) -> dict[str, ast.AST] | None:
    """Expand `**name` arguments when `name` is a local of the enclosing
    function assigned exactly once from a dict literal with constant string
    keys (a very common refactoring of long keyword lists). None when some
    `**` argument cannot be expanded."""
    stars = [k.value for k in call.keywords if k.arg is None]
    if not stars:
        return {}
    from sa.model import ancestors
    encl = next((a for a in ancestors(call) if isinstance(
        a, (ast.FunctionDef, ast.AsyncFunctionDef))), None)
    out: dict[str, ast.AST] = {}
    for st in stars:
        lit = st if isinstance(st, ast.Dict) else None
        if lit is None and isinstance(st, ast.Name) and encl is not None:
            defs = [n for n in ast.walk(encl) if isinstance(
                n, (ast.Assign, ast.AnnAssign)) and any(
                    isinstance(t, ast.Name) and t.id == st.id
                    for t in (n.targets if isinstance(n, ast.Assign)
                              else [n.target]))]
            muts = [n for n in ast.walk(encl) if (isinstance(
                n, ast.Subscript) and isinstance(n.ctx, ast.Store) and isinstance(
                    n.value, ast.Name) and n.value.id == st.id) or (
                        isinstance(n, ast.Call) and isinstance(
                            n.func, ast.Attribute) and isinstance(
                                n.func.value, ast.Name) and
                        n.func.value.id == st.id and n.func.attr in (
                            "update", "pop", "setdefault", "clear"))]
            if len(defs) == 1 and not muts and isinstance(defs[0].value,
                                                          ast.Dict):
                lit = defs[0].value
        if lit is None or not all(isinstance(k, ast.Constant) and isinstance(
                k.value, str) for k in lit.keys):
            return None
        for k, v in zip(lit.keys, lit.values):
            out[k.value] = v
    return out


def passed_expr(call: ast.Call, callee: FunctionInfo, param: str) -> ast.AST | None:
    """Expression passed for `param` of `callee` at `call` (keyword,
    expanded `**literal dict`, or positional), None when omitted."""
    for k in call.keywords:
        if k.arg == param:
            return k.value
    extra = star_kwargs_literal(call)
    if extra and param in extra:
        return extra[param]
    a = callee.node.args
    pos = [x.arg for x in a.posonlyargs + a.args]
    if pos and pos[0] in ("self", "cls") and not callee.is_static:
        pos = pos[1:]
    if param in pos:
        i = pos.index(param)
        if i < len(call.args) and not any(
                isinstance(x, ast.Starred) for x in call.args[:i + 1]):
            return call.args[i]
    return None


def has_star_kwargs(call: ast.Call) -> bool:
    """True when the call has a `**` argument that cannot be expanded."""
    return star_kwargs_literal(call) is None


def option_sources(ctx: Context, fn: FunctionInfo) -> tuple[State, set[str]]:
    """Initial tag state of fn (params + constructor aliases) and the set of
    option names fn 'has'."""
    state = param_tags(fn)
    state.update(init_field_aliases(ctx, fn))
    have: set[str] = set()
    for tags in state.values():
        have |= set(tags)
    return state, have


def check_forwarding(ctx: Context, rep, rule: str, funcs: list[FunctionInfo],
                     options: list[str],
                     exceptions: dict[tuple[str, str, str], str]) -> int:
    """For every call edge A->B among `funcs` and every option both have,
    the call must pass an expression derived from A's option."""
    fset = {f.fq: f for f in funcs}
    n_edges = 0
    for a in funcs:
        state, have = option_sources(ctx, a)
        cfg = ctx.cfg(a)
        tf = TagFlow(cfg, state)
        for call, anchor in calls_with_lambdas(a):
            for b in ctx.internal_targets(a, call):
                if b.fq not in fset or b is a:
                    continue
                n_edges += 1
                node = node_of(cfg, anchor)
                st = tf.at(node) if node is not None else state
                for p in options:
                    if p not in b.params() or p not in have:
                        continue
                    construct = f"{a.qualname} -> {b.qualname} [{p}]"
                    exc = exceptions.get((a.qualname, b.qualname, p))
                    if exc is None and a.cls is not None:
                        exc = exceptions.get((a.cls.name + ".*", b.qualname, p))
                    expr = passed_expr(call, b, p)
                    if exc is not None:
                        rep.info(rule, f"table exception {construct}: {exc}; "
                                 f"passed {short(expr)}")
                        ok_exc = expr is not None and isinstance(
                            expr, ast.Constant)
                        rep.ob(rule, ok_exc, loc=a.loc(call),
                               where=a.qualname, construct=construct,
                               message=f"table exception requires the literal "
                               f"argument documented for it ({exc}); got "
                               f"{short(expr)}")
                        continue
                    if expr is None and has_star_kwargs(call):
                        raise AnalysisError(
                            f"{a.loc(call)}: **kwargs forwarding not modelled")
                    ok = expr is not None and p in tf.tags(expr, st)
                    rep.ob(
                        rule, ok, loc=a.loc(call), where=a.qualname,
                        construct=construct,
                        message=f"option `{p}` accepted by {a.qualname} must "
                        f"be forwarded to {b.qualname}; passed: "
                        f"{short(expr) if expr is not None else '<omitted, callee default>'}")
    return n_edges


TAG = "caller-object"
DEEP_COPIES = {"copy.deepcopy", "json.dumps", "pickle.dumps", "str", "repr",
               "bool", "len", "hash", "isinstance", "id"}
SHALLOW = {"dict", "copy.copy", "list", "tuple"}
FRESH_LITERALS = (ast.Dict, ast.List, ast.Set, ast.Tuple)


def escape_sinks(ctx: Context, fn: FunctionInfo, param: str, depth: int,
                 seen: set[str], extra_copies: frozenset = frozenset()
                 ) -> list[tuple[FunctionInfo, ast.AST, str]]:
    """Sites where the object bound to `param` (or a shallow copy of it) is
    stored into state that outlives the call."""
    if fn.fq in seen or depth > 3:
        return []
    seen.add(fn.fq)
    cfg = ctx.cfg(fn)

    def hook(e, state, rec):
        if isinstance(e, ast.Call):
            names = ctx.names(fn, e)
            if names & DEEP_COPIES or names & extra_copies or any(
                    n.endswith((".deepcopy", ".dumps")) for n in names):
                return EMPTY
            if isinstance(e.func, ast.Attribute) and e.func.attr in (
                    "model_copy", "copy") and any(
                        k.arg == "deep" and isinstance(k.value, ast.Constant)
                        and k.value.value is True for k in e.keywords):
                return EMPTY
            if names & SHALLOW or (isinstance(e.func, ast.Attribute) and
                                   e.func.attr == "copy"):
                inner = EMPTY
                for a in list(e.args) + [k.value for k in e.keywords]:
                    inner |= rec(a)
                if isinstance(e.func, ast.Attribute):
                    inner |= rec(e.func.value)
                return frozenset(inner | {"shallow-copy"}) if inner else EMPTY
        if isinstance(e, ast.Compare):
            return EMPTY  # a comparison result does not alias its operands
        if isinstance(e, ast.Dict) and any(k is None for k in e.keys):
            inner = EMPTY
            for v in e.values:
                inner |= rec(v)
            return frozenset(inner | {"shallow-copy"}) if inner else EMPTY
        return None

    tf = TagFlow(cfg, {param: frozenset({TAG})}, hook=hook)
    fresh_locals = set()
    for n in fn.body_nodes():
        if isinstance(n, (ast.Assign, ast.AnnAssign)) and isinstance(
                getattr(n, "value", None), FRESH_LITERALS):
            tgts = n.targets if isinstance(n, ast.Assign) else [n.target]
            for t in tgts:
                if isinstance(t, ast.Name):
                    fresh_locals.add(t.id)
    out: list[tuple[FunctionInfo, ast.AST, str]] = []
    for node in cfg.live_nodes():
        a = node.ast
        st = tf.at(node)
        if node.kind == "stmt" and isinstance(
                a, (ast.Assign, ast.AnnAssign, ast.AugAssign)):
            val = getattr(a, "value", None)
            if val is None:
                continue
            tags = tf.tags(val, st)
            if TAG not in tags:
                continue
            tgts = a.targets if isinstance(a, ast.Assign) else [a.target]
            for t in tgts:
                if isinstance(t, (ast.Attribute, ast.Subscript)):
                    root = t
                    while isinstance(root, (ast.Attribute, ast.Subscript)):
                        root = root.value
                    if isinstance(root, ast.Name) and root.id in fresh_locals:
                        continue
                    kind = "shallow copy of the caller's object" if \
                        "shallow-copy" in tags else "the caller's object itself"
                    out.append((fn, a, kind))
        elif node.kind == "call" and isinstance(a, ast.Call):
            # mutator on non-fresh receiver
            f = a.func
            argtags = EMPTY
            cargs = list(a.args) + [k.value for k in a.keywords]
            if isinstance(f, ast.Attribute) and f.attr == "setdefault":
                cargs = cargs[1:]  # the key does not alias
            for x in cargs:
                argtags |= tf.tags(x, st)
            if TAG not in argtags:
                continue
            if isinstance(f, ast.Attribute) and f.attr in (
                    "append", "extend", "add", "update", "insert",
                    "setdefault", "__setitem__", "put"):
                root = f.value
                while isinstance(root, (ast.Attribute, ast.Subscript)):
                    root = root.value
                if not (isinstance(root, ast.Name) and root.id in fresh_locals):
                    out.append((fn, a, "the caller's object (container "
                                "mutation)"))
                continue
            for callee in ctx.internal_targets(fn, a):
                for p in callee.params():
                    e = passed_expr(a, callee, p)
                    if e is not None and TAG in tf.tags(e, st):
                        out += escape_sinks(ctx, callee, p, depth + 1, seen,
                                            extra_copies)
    return out




TRIVIAL_BUILTINS = {"isinstance", "len", "id", "type", "bool", "time.sleep",
                    "print", "str", "repr"}


def trivial_call(ctx: Context, fn: FunctionInfo, call: ast.AST) -> bool:
    """Calls that cannot raise for the purposes of exception-flow rules:
    constructors of internal classes whose __init__ only stores fields, and
    a few total builtins."""
    if not isinstance(call, ast.Call):
        return False
    names = ctx.names(fn, call)
    if names & TRIVIAL_BUILTINS:
        return True
    for t in ctx.res.resolve_call(fn, call, count=False):
        if t.kind == "class" and t.cls is not None:
            init = t.cls.methods.get("__init__")
            if init is None:
                return not ctx.repo.external_bases(t.cls)
            body = [s for s in init.node.body
                    if not (isinstance(s, ast.Expr) and isinstance(
                        s.value, ast.Constant))]
            return all(
                isinstance(s, (ast.Assign, ast.AnnAssign)) and not any(
                    isinstance(x, (ast.Call, ast.Subscript))
                    for x in ast.walk(s.value if s.value is not None else s))
                for s in body)
    return False


def reaches(ctx: Context, fn: FunctionInfo, call: ast.AST, target_fq: str) -> bool:
    """Does this call (through resolved internal callees) reach target_fq?"""
    if not isinstance(call, ast.Call):
        return False
    for t in ctx.internal_targets(fn, call):
        if t.fq == target_fq or target_fq in ctx.cg.reachable([t.fq]):
            return True
    return False


def helper_assigns(ctx: Context, fn: FunctionInfo, call: ast.AST,
                   pred, depth: int = 2) -> bool:
    """Does a helper reached by this call contain a statement satisfying
    pred(stmt)? (summary, depth-bounded)"""
    if not isinstance(call, ast.Call) or depth <= 0:
        return False
    for t in ctx.internal_targets(fn, call):
        if isinstance(t.node, ast.Lambda):
            continue
        for n in t.body_nodes():
            if isinstance(n, ast.stmt) and pred(n):
                return True
            if isinstance(n, ast.Call) and helper_assigns(ctx, t, n, pred,
                                                          depth - 1):
                return True
    return False


def return_tags(ctx: Context, callee: FunctionInfo, call: ast.Call, arg_tags,
                hook_factory, depth: int) -> frozenset:
    """Tags of the value returned by `callee` at `call`: the callee is
    specialised on the constant arguments of the call (E4) and analysed
    with the same hook (built by hook_factory(callee, depth))."""
    from sa.cfg import CFG
    env = {}
    init: State = {}
    for p in callee.params():
        e = passed_expr(call, callee, p)
        if e is None:
            d = callee.param_default(p)
            if isinstance(d, ast.Constant):
                env[p] = d.value
            continue
        if isinstance(e, ast.Constant):
            env[p] = e.value
        init[p] = arg_tags(e)
    if callee.cls is not None and not callee.is_static and callee.params():
        init.setdefault(callee.params()[0], EMPTY)
    cfg = CFG(callee, env=env)
    tf = TagFlow(cfg, init, hook=hook_factory(callee, depth + 1))
    out = EMPTY
    for n in cfg.live_nodes():
        if n.kind == "stmt" and isinstance(n.ast, ast.Return) and \
                n.ast.value is not None:
            out |= tf.tags_at(n, n.ast.value)
    return out


def interproc(ctx: Context, base_factory, max_depth: int = 2):
    """Wrap a hook factory `base_factory(fn) -> hook` so that calls resolved
    to exactly one internal function get the tags of that function's return
    value (helper extraction is then transparent to tag rules)."""

    def factory(fn: FunctionInfo, depth: int = 0):
        base = base_factory(fn)

        def hook(e, state, rec):
            r = base(e, state, rec) if base is not None else None
            if r is not None:
                return r
            if isinstance(e, ast.Call) and depth < max_depth:
                targets = [t for t in ctx.internal_targets(fn, e)
                           if not isinstance(t.node, ast.Lambda) and
                           t.name != "__init__"]
                if len(targets) == 1 and any(
                        isinstance(x, ast.Return) and x.value is not None
                        for x in targets[0].body_nodes()):
                    return return_tags(ctx, targets[0], e, rec, factory, depth)
            return None

        return hook

    return factory


ITERATOR_CTORS = {"iter", "aiter", "map", "filter", "zip", "enumerate",
                  "reversed"}


def is_iterator_expr(ctx: Context, fn: FunctionInfo, e: ast.AST | None) -> bool:
    """Does `e` evaluate to a one-shot iterator object (so that partial
    consumers continue where the previous one stopped)?"""
    if isinstance(e, ast.GeneratorExp):
        return True
    if not isinstance(e, ast.Call):
        return False
    if isinstance(e.func, ast.Name) and e.func.id in ITERATOR_CTORS:
        return True
    q = ctx.repo.qualify(fn.module, e.func) or ""
    if q.startswith("itertools.") or q.startswith("asyncstdlib."):
        return True
    for t in ctx.internal_targets(fn, e):
        if not isinstance(t.node, ast.Lambda) and any(
                isinstance(x, (ast.Yield, ast.YieldFrom))
                for x in t.body_nodes()):
            return True
    return False


def expand_calls(ctx: Context, fn: FunctionInfo, expr: ast.AST | None,
                 depth: int = 3) -> ast.AST | None:
    """`expr` with temporaries expanded and calls of argument-less internal
    single-return methods/properties replaced by the returned expression."""
    import copy
    from sa import norm
    e = norm.expand(fn, expr)
    if e is None or depth == 0:
        return e
    orig_calls = [n for n in ast.walk(expr) if isinstance(n, ast.Call)]

    def single_return(h: FunctionInfo):
        body = [s for s in h.node.body if not (isinstance(s, ast.Expr) and
                                               isinstance(s.value, ast.Constant))]
        if len(body) == 1 and isinstance(body[0], ast.Return) and \
                body[0].value is not None:
            return body[0].value
        return None

    class T(ast.NodeTransformer):

        def visit_Call(self, node: ast.Call):
            self.generic_visit(node)
            if node.args or node.keywords or not isinstance(node.func,
                                                            ast.Attribute):
                return node
            recv = node.func.value
            if not (isinstance(recv, ast.Name) and recv.id == "self" and
                    fn.cls is not None):
                return node
            h = ctx.repo.find_method(fn.cls, node.func.attr)
            if h is None:
                return node
            r = single_return(h)
            if r is None:
                return node
            return expand_calls(ctx, h, r, depth - 1) or node

    del orig_calls
    return ast.fix_missing_locations(T().visit(_clone(e)))


def identity_validator(ctx: Context, fn: FunctionInfo, depth: int = 0) -> bool:
    """Does every `return` of fn give back fn's own (first non-cls/self)
    parameter - directly, or through a call `G(<that parameter>)` of another
    function of the package that is itself such an identity function?"""
    from sa import norm as _norm
    if depth > 3:
        return False
    params = [p for p in fn.params() if p not in ("cls", "self")]
    rets = [r for r in fn.body_nodes() if isinstance(r, ast.Return)]
    if not params or not rets:
        return False
    given = params[0]
    for r in rets:
        if r.value is None:
            return False
        if _norm.canon(fn, r.value) == given:
            continue
        v = r.value
        if isinstance(v, ast.Call):
            tg = ctx.internal_targets(fn, v)
            if len(tg) == 1:
                g = tg[0]
                gp = [p for p in g.params() if p not in ("cls", "self")]
                e = passed_expr(v, g, gp[0]) if gp else None
                if e is not None and _norm.canon(fn, e) == given and \
                        identity_validator(ctx, g, depth + 1):
                    continue
        return False
    return True
