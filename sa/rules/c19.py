"""C19 - repeating iteration cycles through the whole split forever."""
from __future__ import annotations

import ast

from sa.cfg import CFG, TRUTHY
from sa.context import Context, names_in
from sa.dataflow import EMPTY, TagFlow
from sa.model import AnalysisError, dotted, parent, short
from sa.rules import common as C, rustrules
from sa.rules.c12 import selection_functions

OPTIONS = ["repeat", "split", "shuffle"]
EXCEPTIONS = {
    ("RustGenerator.*", "DatasetIteration.as_numpy_common",
     "repeat"): "one finite epoch per call; RustGenerator.__call__ loops "
                "`while self._repeat` around it (checked by C19.inf)",
}


def run(ctx: Context, rep) -> None:
    rep.not_decided = (
        "periodicity and per-epoch permutation of the stream at run time, "
        "tf.data repeat semantics; decided: the common shard stream is "
        "infinite iff repeat and built from the complete selected list, "
        "repeat/split/shuffle are forwarded on every call edge, the Rust "
        "epoch loop re-creates a finite iterator")
    rep.assumptions += [
        "itertools.cycle(list) repeats the complete list in order forever",
        "tf.data.Dataset.repeat() without a count repeats forever",
    ]
    com = ctx.fn(C.COMMON)
    rep.rule(
        "C19.inf",
        "as_numpy_common specialised with repeat=True returns "
        "itertools.cycle of the complete list selected by "
        "shard_paths_dataset (shuffle buffer applied after the cycle), with "
        "repeat=False the finite list; the TFRecord path applies tf "
        "repeat() to the path dataset iff repeat, before shuffling and "
        "interleaving; RustGenerator.__call__ runs one epoch and then loops "
        "`while self._repeat` around further finite epochs; every interface "
        "defaults to repeat=True")
    for rpt in (True, False):
        cfg = CFG(com, env={"repeat": rpt})

        def hook(e, state, rec):
            if isinstance(e, ast.Call) and ctx.is_call(
                    com, e, method="shard_paths_dataset"):
                return frozenset({"paths"})
            if isinstance(e, ast.Call) and ctx.is_call(com, e,
                                                       "itertools.cycle"):
                inner = rec(e.args[0]) if e.args else EMPTY
                whole = bool(e.args) and isinstance(e.args[0], ast.Name)
                return frozenset(inner | {"cycled" if whole else
                                          "cycled-part"})
            if isinstance(e, ast.Call) and ast.unparse(e.func).endswith(
                    "chain.from_iterable") and len(e.args) == 1 and isinstance(
                        e.args[0], ast.Call) and ctx.is_call(
                            com, e.args[0], "itertools.repeat") and len(
                                e.args[0].args) == 1 and isinstance(
                                    e.args[0].args[0], ast.Name):
                return frozenset(rec(e.args[0].args[0]) | {"cycled"})
            if isinstance(e, ast.Subscript) and isinstance(e.slice, ast.Slice):
                return frozenset(rec(e.value) | {"sliced"})
            if isinstance(e, ast.Call) and ctx.is_call(com, e,
                                                       "itertools.islice"):
                return frozenset((rec(e.args[0]) if e.args else EMPTY) |
                                 {"sliced"})
            return None

        tf = TagFlow(cfg, {}, hook=hook)
        rets = [n for n in cfg.live_nodes() if n.kind == "stmt" and isinstance(
            n.ast, ast.Return)]
        tags = frozenset().union(*[tf.tags_at(r, r.ast.value) for r in rets]) \
            if rets else frozenset()
        want = {"paths", "cycled"} if rpt else {"paths"}
        rep.ob("C19.inf", set(tags) == want, loc=com.loc(), where=com.qualname,
               construct=f"repeat={rpt}: returns {sorted(tags)}",
               message=f"required {sorted(want)}")
    # order: cycle before shuffle
    cfg = ctx.cfg(com)
    cyc = cfg.calls(lambda c: ctx.is_call(com, c, "itertools.cycle",
                                          "itertools.repeat"))
    shf = cfg.calls(lambda c: ctx.is_call(com, c, "itertools.shuffle_buffer"))
    after_shuffle = cfg.reachable(shf, strict=True)
    rep.ob("C19.inf", bool(cyc) and not any(c in after_shuffle for c in cyc),
           loc=com.loc(), where=com.qualname,
           construct="cycle(paths) then shuffle_buffer(...)",
           message="the path list is cycled before it is shuffled, so every "
           "pass of the cycle contains every shard")
    # tf path
    tfd = ctx.fn(C.INTERFACES[0])
    for rpt in (True, False):
        cfg = CFG(tfd, env={"repeat": rpt,
                            "self.dataset_structure.shard_file_type": "tfrec"})
        reps = [n for n in cfg.calls() if isinstance(n.ast.func, ast.Attribute)
                and n.ast.func.attr == "repeat"]
        ok = (len(reps) == 1 and not reps[0].ast.args and
              not reps[0].ast.keywords) if rpt else not reps
        rep.ob("C19.inf", ok, loc=tfd.loc(reps[0].ast) if reps else tfd.loc(),
               where=tfd.qualname,
               construct=f"repeat={rpt}: {len(reps)} tf repeat() call(s) on "
               "the tfrec path",
               message="tf.data repeat() is applied exactly when repeat is "
               "requested, without a count")
        if rpt and reps:
            later = cfg.reachable(reps, strict=True)
            fts = [n for n in cfg.calls() if ast.unparse(n.ast.func).endswith(
                "from_tensor_slices")]
            rd = [n for n in cfg.calls() if ctx.is_call(
                tfd, n.ast, method="read_and_decode")]
            sh = [n for n in cfg.calls() if isinstance(
                n.ast.func, ast.Attribute) and n.ast.func.attr == "shuffle"]
            ok = bool(fts) and bool(rd) and all(r in later for r in rd) and \
                all(s in later for s in sh) and all(
                    f not in later for f in fts) and dotted(
                        fts[0].ast.args[0]) == "shard_paths"
            rep.ob("C19.inf", ok, loc=tfd.loc(reps[0].ast), where=tfd.qualname,
                   construct="from_tensor_slices(shard_paths).repeat() -> "
                   "shuffle -> read_and_decode",
                   message="the complete path dataset is repeated before "
                   "shuffling and reading")
    # the non-tfrec branch delegates with repeat forwarded (C19.forward)
    call = ctx.fn(f"{C.RUST_GEN}.__call__")
    # evaluated on the CFG specialised on self._repeat (any loop shape):
    #   repeat False: exactly one epoch on every path to the exit
    #   repeat True : the exit is unreachable and no cycle avoids an epoch
    from sa.cfg import CFG as _CFG
    nf = lambda a, b, lab: lab not in ("exc", "raise")  # noqa: E731

    def epochs(cfg_):
        return [n for n in cfg_.nodes if n.kind == "yield" and
                "_single_iter" in ast.unparse(n.ast)]

    c0 = _CFG(call, env={"self._repeat": False})
    e0 = [n for n in epochs(c0) if n in c0.reachable([c0.entry], follow=nf)]
    once = bool(e0) and c0.exit not in c0.reachable(
        [c0.entry], avoiding=e0, follow=nf) and not any(
            m in c0.reachable([n], follow=nf, strict=True) for n in e0
            for m in e0)
    c1 = _CFG(call, env={"self._repeat": True})
    live1 = c1.reachable([c1.entry], follow=nf)
    e1 = [n for n in epochs(c1) if n in live1]
    forever = bool(e1) and c1.exit not in live1
    heads = [n for n in c1.nodes if n in live1 and n.kind in ("loop", "for")]
    for h in heads:
        nxt = [m for m, lab in h.succ if nf(h, m, lab)]
        if h in c1.reachable(nxt, avoiding=e1, follow=nf):
            forever = False  # a cycle that yields nothing
    ok, alt = once and forever, False
    rep.ob("C19.inf", ok or alt, loc=call.loc(), where=call.qualname,
           construct=f"repeat=False: exactly one epoch={once}; repeat=True: "
           f"endless epochs={forever}",
           message="one epoch always, further complete epochs while repeat "
           "is set")
    for fq in C.INTERFACES + [f"{C.RUST_GEN}.__init__", C.COMMON]:
        fn = ctx.fn(fq)
        d = fn.param_default("repeat")
        rep.ob("C19.inf", isinstance(d, ast.Constant) and d.value is True,
               loc=fn.loc(), where=fn.qualname,
               construct=f"repeat: bool = {short(d)}",
               message="repetition is the default of every interface",
               sample=False)

    rep.rule(
        "C19.forward",
        "for every call edge among the functions that reach the selection "
        "routine and every option in {repeat, split, shuffle} both accept, "
        "the call passes an expression derived from the caller's option; the "
        "one table exception is RustGenerator._single_iter -> "
        "as_numpy_common with the literal repeat=False (the epoch loop "
        "implements repetition)")
    funcs = selection_functions(ctx)
    edges = C.check_forwarding(ctx, rep, "C19.forward", funcs, OPTIONS,
                               EXCEPTIONS)
    rep.floor("C19.forward", rep.count("C19.forward"), 18, "instances")
    # constructor stores the options
    init = ctx.fn(f"{C.RUST_GEN}.__init__")
    for p in OPTIONS:
        stored = any(isinstance(n, (ast.Assign, ast.AnnAssign)) and (dotted(
            n.targets[0] if isinstance(n, ast.Assign) else n.target) or
                                                                      "").startswith("self.") and dotted(n.value) == p
                     for n in init.body_nodes())
        rep.ob("C19.forward", stored, loc=init.loc(), where=init.qualname,
               construct=f"self._{p} = {p}",
               message=f"constructor option `{p}` is kept for the epoch loop")
    # epoch: the native iterator is finite and re-created (C15.repeat)
    from sa.rules.c02 import check_batch
    check_batch(ctx, rep, "C19.batch")
    # the batch size is a positive integer: islice(<endless paths>, None)
    # never returns, islice(.., 0) yields an empty batch and ends the stream
    from sa.rules import shared as _sh19
    conc_ = ctx.fn(C.INTERFACES[2])
    for c_ in conc_.calls():
        if not ctx.is_call(conc_, c_, "itertools.islice") or len(c_.args) < 2:
            continue
        stop = c_.args[1]
        lb = _sh19.lower_bound(conc_, stop)
        maybe_none = False
        for nm in {x.id for x in ast.walk(stop) if isinstance(x, ast.Name)}:
            if nm not in conc_.params():
                continue
            a_ = next((a for a in conc_.node.args.args +
                       conc_.node.args.kwonlyargs if a.arg == nm), None)
            ann = ast.unparse(a_.annotation) if a_ is not None and \
                a_.annotation is not None else ""
            dflt = conc_.param_default(nm)
            d_lb = _sh19.lower_bound(conc_, dflt) if dflt is not None else 1
            if "None" in ann or "Optional" in ann or d_lb is None:
                # a bare use; `x or k` / `max(..)` around it is evaluated by
                # lower_bound on the whole expression instead
                if isinstance(stop, ast.Name):
                    maybe_none = True
        rep.ob("C19.batch", lb is not None and lb >= 1 and not maybe_none,
               loc=conc_.loc(c_), where=conc_.qualname,
               construct=f"islice(.., {short(stop, 40)})",
               message="the batch size must be an integer >= 1 (lower bound "
               f"{lb}; may be None: {maybe_none}): with None the batch of an "
               "endless stream never completes")
    rep.rule(
        "C19.batch",
        "unshuffled periodicity: the concurrent reader's batches are plain "
        "consecutive islices of the (cycled) shard stream, mapped whole and "
        "in order - no de-duplication or reordering inside a batch, which "
        "would shift the phase of the cycle (same check as C02.batch)")
    from sa.rules.c15 import check_epoch, check_release
    check_release(ctx, rep, "C19.rust-stream")
    rep.rule(
        "C19.rust-stream",
        "as_numpy_iterator_rust yields the generator's epochs unchanged "
        "(`yield from g()` inside the generator's `with` block): no extra "
        "buffering or reordering is wrapped around the endless stream, which "
        "would carry examples across epoch boundaries (same check as "
        "C15.release)")
    check_epoch(ctx, rep, "C19.epoch")
    rep.rule(
        "C19.epoch",
        "every epoch of the Rust generator builds a fresh finite native "
        "iterator from a freshly computed, complete shard path list "
        "(list(as_numpy_common(..., repeat=False))) and releases it at the "
        "end of the epoch; nothing one-shot is cached across epochs")
    rustrules.check_repeat_assert(ctx, rep, "C19.rust")
    rep.rule("C19.rust",
             "the native iterator refuses repeat=true, so each epoch is "
             "finite and the Python loop decides repetition")
    # an endless stream must not be closed behind the helper's back: an
    # asyncstdlib tool that closes its source ends the repetition after the
    # first refill (same rule as C02.borrow)
    from sa.rules.c02 import check_borrow, stream_scope
    check_borrow(ctx, rep, "C19.borrow", stream_scope(ctx)[1])
    from sa.rules import shared as _shared
    _shared.check_fresh_pass(ctx, rep, "C19.fresh-pass")
    # an endless stream does not end by accident: workers leave their loop
    # only on a sentinel (no idle timeout), and the shuffle helpers recognise
    # the end of their input by the iterator protocol only (no in-band None)
    from sa.rules import c13 as _c13
    from sa.rules.c02 import check_value_buffer, stream_scope as _ss
    _c13.check_sentinel(ctx, rep, "C19.pool-sentinel")
    _c13.check_owner(ctx, rep, "C19.pool-owner")
    rep.rule("C19.end-protocol", "shuffle_buffer / shuffle_buffer_async end "
             "only when their source raises StopIteration (same rule as "
             "C02.own for the value buffers)")
    _helpers = _ss(ctx)[0]
    check_value_buffer(ctx, rep, "C19.end-protocol", _helpers[0])
    check_value_buffer(ctx, rep, "C19.end-protocol", _helpers[1])
    # nothing read from the dataset's files / the environment is memoised
    from sa.rules import shared as _shm
    _shm.check_no_memo(ctx, rep, "C19.memo")
    # every epoch walks the lists as they are on disk (same check as C02.walk)
    from sa.rules import shared as _sh19w
    _sh19w.share_rules(ctx, rep, "c02", {"C02.walk": "C19.walk"})
    # two native streams never share a registry slot (same check as
    # C15.static-map)
    rustrules.check_static_map(ctx, rep, "C19.rust-map")
    _shm.check_log_args_pure(ctx, rep, "C19.log")
    _shm.check_assert_pure(ctx, rep, "C19.assert")
    # two streams of one dataset object do not share a pool: every pool /
    # executor / native generator managed by a `with` of an iteration
    # interface is constructed there (a cached pool is still busy with the
    # first repeating stream when the second one enters it)
    rep.rule(
        "C19.pool-fresh",
        "in the iteration interfaces every `with` item whose value is a "
        "LazyPool / ThreadPoolExecutor / RustGenerator is a constructor call "
        "written in the `with` (type-resolved), not an object kept between "
        "calls")
    n_pf = 0
    POOLS = ("LazyPool", "ThreadPoolExecutor", "RustGenerator",
             "ProcessPoolExecutor", "Pool")
    for q in C.INTERFACES:
        f_ = ctx.fn(q)
        for w_ in [x for x in f_.body_nodes()
                   if isinstance(x, (ast.With, ast.AsyncWith))]:
            for it in w_.items:
                e_ = it.context_expr
                t_ = ctx.res.infer(f_, e_)
                tname = (t_.name.rsplit(".", 1)[-1].rsplit(":", 1)[-1]
                         if t_ is not None else "")
                is_ctor = isinstance(e_, ast.Call) and any(
                    tg.kind == "class" or (tg.kind == "external" and (
                        getattr(tg, "name", "") or "").rsplit(".", 1)[-1]
                        in POOLS)
                    for tg in ctx.res.resolve_call(f_, e_, count=False))
                named_pool = isinstance(e_, ast.Call) and (
                    dotted(e_.func) or "").rsplit(".", 1)[-1] in POOLS
                if tname in POOLS or named_pool:
                    n_pf += 1
                    rep.ob("C19.pool-fresh", named_pool or (is_ctor and
                                                            tname in POOLS),
                           loc=f_.loc(e_), where=f_.qualname,
                           construct="with " + short(e_, 60),
                           message="the pool of a stream is created for that "
                           "stream")
    rep.floor("C19.pool-fresh", n_pf, 3, "pool contexts")

_DI = "src/sedpack/io/dataset_iteration.py"
SELFTESTS = [
    dict(rule="C19.inf", name="cycle-dropped", expect="fire", path=_DI,
         old="        if repeat:\n            shard_paths_iterator = itertools.cycle(shard_paths)\n        else:\n            shard_paths_iterator = shard_paths  # type: ignore\n",
         new="        shard_paths_iterator = shard_paths  # type: ignore\n"),
    dict(rule="C19.inf", name="cycle-inverted", expect="fire", path=_DI,
         old="        if repeat:\n            shard_paths_iterator = itertools.cycle(shard_paths)",
         new="        if not repeat:\n            shard_paths_iterator = itertools.cycle(shard_paths)"),
    dict(rule="C19.inf", name="cycle-partial", expect="fire", path=_DI,
         old="            shard_paths_iterator = itertools.cycle(shard_paths)",
         new="            shard_paths_iterator = itertools.cycle(shard_paths[:len(shard_paths) // 2 * 2])"),
    dict(rule="C19.inf", name="chain-repeat-twin", expect="silent", path=_DI,
         old="            shard_paths_iterator = itertools.cycle(shard_paths)",
         new="            shard_paths_iterator = itertools.chain.from_iterable(itertools.repeat(shard_paths))"),
    dict(rule="C19.inf", name="tf-repeat-after-read", expect="fire", path=_DI,
         old="        # Infinite loop over the shard paths\n        if repeat:\n            tf_dataset = tf_dataset.repeat()\n\n        # Randomize only if > 0 -- no shuffle in test/validation\n        if shuffle:\n            tf_dataset = tf_dataset.shuffle(len(shard_paths))\n",
         new="        # Randomize only if > 0 -- no shuffle in test/validation\n        if shuffle:\n            tf_dataset = tf_dataset.shuffle(len(shard_paths))\n        if repeat:\n            tf_dataset = tf_dataset.repeat()\n"),
    dict(rule="C19.inf", name="tf-repeat-count", expect="fire", path=_DI,
         old="            tf_dataset = tf_dataset.repeat()\n", new="            tf_dataset = tf_dataset.repeat(1000)\n"),
    dict(rule="C19.inf", name="rust-call-single-epoch", expect="fire", path=_DI,
         old="        yield from self._single_iter()\n        while self._repeat:\n            yield from self._single_iter()\n",
         new="        yield from self._single_iter()\n"),
    dict(rule="C19.epoch", name="paths-cached-across-epochs", expect="fire", path=_DI,
         edits=[dict(path=_DI, old="        self._rust_iter: _sedpack_rs.RustIter | None = None\n\n        self._dataset: DatasetIteration = dataset",
                     new="        self._rust_iter: _sedpack_rs.RustIter | None = None\n        self._shard_paths = None\n\n        self._dataset: DatasetIteration = dataset"),
                dict(path=_DI, old="            shard_paths: list[str] = list(\n                self._dataset.as_numpy_common(\n                    split=self._split,\n                    shards=self._shards,\n                    shard_filter=self._shard_filter,\n                    repeat=False,\n                    shuffle=self._shuffle,\n                ))\n",
                     new="            if self._shard_paths is None:\n                self._shard_paths = self._dataset.as_numpy_common(\n                    split=self._split,\n                    shards=self._shards,\n                    shard_filter=self._shard_filter,\n                    repeat=False,\n                    shuffle=self._shuffle,\n                )\n            shard_paths: list[str] = list(self._shard_paths)\n")]),
    dict(rule="C19.forward", name="repeat-hardcoded", expect="fire", path=_DI,
         old="        shard_paths_iterator: Iterable[str] = self.as_numpy_common(\n            split=split,\n            shards=shards,\n            shard_filter=shard_filter,\n            repeat=repeat,\n            shuffle=shuffle,\n        )\n\n        # Decode the files.\n        supported_file_types",
         new="        shard_paths_iterator: Iterable[str] = self.as_numpy_common(\n            split=split,\n            shards=shards,\n            shard_filter=shard_filter,\n            repeat=True,\n            shuffle=shuffle,\n        )\n\n        # Decode the files.\n        supported_file_types"),
    dict(rule="C19.forward", name="tfdataset-drops-repeat", expect="fire", path=_DI,
         old="                    shard_filter=shard_filter,\n                    repeat=repeat,\n                    file_parallelism=file_parallelism or 1,",
         new="                    shard_filter=shard_filter,\n                    file_parallelism=file_parallelism or 1,"),
    dict(rule="C19.forward", name="rust-epoch-repeat-true", expect="fire", path=_DI,
         old="                    repeat=False,\n                    shuffle=self._shuffle,\n                ))",
         new="                    repeat=self._repeat,\n                    shuffle=self._shuffle,\n                ))"),
]
