"""C16 - recorded checksums are the standard digests of the exact file bytes."""
from __future__ import annotations

import ast

from sa.cfg import case_literals
from sa.context import Context, const_str, names_in
from sa.dataflow import TagFlow
from sa.model import AnalysisError, dotted, parent, short
from sa.rules.c01 import literal_members
from sa.rules.common import calls_with_lambdas, node_of, passed_expr

UT = "sedpack.io.utils"
HASHLIB_NAMES = {"md5", "sha1", "sha224", "sha256", "sha384", "sha512",
                 "sha3_224", "sha3_256", "sha3_384", "sha3_512", "blake2b",
                 "blake2s", "shake_128", "shake_256"}
XXHASH_CTORS = {"xxh32", "xxh64", "xxh128", "xxh3_64", "xxh3_128"}


def produced(body: list[ast.stmt] | None):
    """What one dispatch arm produces: ("return", call, None) for
    `return CALL`, ("append", call, acc) for `ACC.append(CALL)`; the arm must
    be that single statement."""
    if not body or len(body) != 1:
        return None, None, None
    st = body[0]
    if isinstance(st, ast.Return) and isinstance(st.value, ast.Call):
        return "return", st.value, None
    if isinstance(st, ast.Expr) and isinstance(st.value, ast.Call) and \
            isinstance(st.value.func, ast.Attribute) and \
            st.value.func.attr == "append" and len(st.value.args) == 1 and \
            isinstance(st.value.args[0], ast.Call):
        return "append", st.value.args[0], dotted(st.value.func.value)
    return None, None, None


def find_name_dispatch(ctx: Context):
    """The literal dispatch (match or if/elif) of the checksum module whose
    fall-through arm hands the subject to hashlib.new."""
    from sa.dispatch import literal_dispatches
    found = []
    for f in ctx.repo.module(UT).functions.values():
        for d in literal_dispatches(f.body_nodes()):
            if d.default is None or not isinstance(d.subject, ast.Name):
                continue
            k, call, acc = produced(d.default)
            if call is not None and ctx.is_call(f, call, "hashlib.new"):
                found.append((f, d, k, acc))
    if not found:
        # table form: C = TABLE.get(name); if C is None: <fall-through>;
        # return C()  - one arm per literal key of the module-level table
        from sa.dispatch import Dispatch
        mod = ctx.repo.module(UT)
        for f in mod.functions.values():
            if isinstance(f.node, ast.Lambda):
                continue
            body = [s for s in f.node.body if not (isinstance(
                s, ast.Expr) and isinstance(s.value, ast.Constant))]
            for i, s in enumerate(body):
                tgt = s.targets[0] if isinstance(s, ast.Assign) and len(
                    s.targets) == 1 else (s.target if isinstance(
                        s, ast.AnnAssign) else None)
                v = getattr(s, "value", None)
                if not (isinstance(tgt, ast.Name) and isinstance(
                        v, ast.Call) and isinstance(
                            v.func, ast.Attribute) and v.func.attr == "get"
                        and isinstance(v.func.value, ast.Name) and isinstance(
                            mod.globals.get(v.func.value.id), ast.Dict) and
                        len(v.args) == 1 and isinstance(v.args[0], ast.Name)):
                    continue
                table = mod.globals[v.func.value.id]
                rest = body[i + 1:]
                if len(rest) != 2 or not isinstance(rest[0], ast.If) or \
                        rest[0].orelse or not isinstance(rest[1], ast.Return):
                    continue
                t = rest[0].test
                is_none = isinstance(t, ast.Compare) and len(t.ops) == 1 and \
                    isinstance(t.ops[0], ast.Is) and dotted(t.left) == tgt.id \
                    and isinstance(t.comparators[0], ast.Constant) and \
                    t.comparators[0].value is None
                rv = rest[1].value
                calls_it = isinstance(rv, ast.Call) and dotted(
                    rv.func) == tgt.id and not rv.args and not rv.keywords
                if not (is_none and calls_it and all(
                        isinstance(k, ast.Constant) for k in table.keys)):
                    continue
                arms = []
                for k, val in zip(table.keys, table.values):
                    ret = ast.Return(value=ast.Call(func=val, args=[],
                                                    keywords=[]))
                    ast.copy_location(ret, rest[1])
                    ast.fix_missing_locations(ret)
                    arms.append(([k.value], [ret]))
                d = Dispatch(rest[0], v.args[0], arms, rest[0].body)
                k_, call, acc = produced(d.default)
                if call is not None and ctx.is_call(f, call, "hashlib.new"):
                    found.append((f, d, k_, acc))
    if len(found) != 1:
        raise AnalysisError("C16.names: the name -> hash object dispatch "
                            f"(fall-through hashlib.new) was found "
                            f"{len(found)} times")
    return found[0]


def ordered_hash_objects(ctx: Context, hc, hf_var, gf, disp, kind, acc_name):
    """Is `hf_var` of hash_checksums one hash object per entry of the
    `hashes` parameter, in order?"""
    if hf_var is None:
        return False, None
    hashes = hc.params()[1]
    subject = dotted(disp.subject)

    def defs_of(name):
        return [n for n in hc.body_nodes() if isinstance(n, (ast.Assign,
                                                             ast.AnnAssign))
                and dotted(n.targets[0] if isinstance(n, ast.Assign)
                           else n.target) == name]

    def element_ok(e: ast.AST, var: str | None) -> bool:
        # gf(var): the by-name function applied to this entry
        return kind == "return" and isinstance(e, ast.Call) and any(
            t is gf for t in ctx.internal_targets(hc, e)) and len(
                e.args) + len(e.keywords) == 1 and dotted(
                    (e.args + [k.value for k in e.keywords])[0]) == var and \
            gf.params()[:1] == [subject]

    ds = defs_of(hf_var)
    if len(ds) != 1 or ds[0].value is None:
        return False, ds[0] if ds else None
    d = ds[0]
    v = d.value
    if isinstance(v, ast.Call) and isinstance(v.func, ast.Name) and \
            v.func.id in ("tuple", "list") and len(v.args) == 1:
        v = v.args[0]
    if isinstance(v, (ast.GeneratorExp, ast.ListComp)):
        if len(v.generators) != 1:
            return False, d
        g = v.generators[0]
        return (dotted(g.iter) == hashes and not g.ifs and not g.is_async and
                element_ok(v.elt, dotted(g.target))), d
    if not isinstance(v, ast.Name):
        return False, d
    acc = v.id
    ads = defs_of(acc)
    if len(ads) != 1 or not ((isinstance(ads[0].value, ast.List) and
                              not ads[0].value.elts) or
                             (isinstance(ads[0].value, ast.Call) and
                              dotted(ads[0].value.func) == "list" and
                              not ads[0].value.args)):
        return False, d
    # every use of the accumulator: its definition, appends inside the one
    # loop over `hashes`, and the final read
    loops = [n for n in hc.body_nodes() if isinstance(n, ast.For) and
             dotted(n.iter) == hashes and not n.orelse and
             isinstance(n.target, ast.Name)]
    uses = [n for n in hc.body_nodes() if isinstance(n, ast.Name) and
            n.id == acc and isinstance(n.ctx, ast.Load)]
    if len(loops) != 1:
        return False, d
    lp = loops[0]
    if any(isinstance(a, (ast.For, ast.While, ast.If, ast.Try))
           for a in __import__("sa.model", fromlist=["ancestors"]).ancestors(lp)
           if a is not hc.node and not isinstance(a, (ast.FunctionDef,
                                                      ast.AsyncFunctionDef))):
        return False, d
    inside = [u for u in uses if any(x is u for x in ast.walk(lp))]
    outside = [u for u in uses if u not in inside]
    if len(outside) != 1 or len(lp.body) != 1:
        return False, d
    body = lp.body[0]
    if isinstance(body, ast.Expr):
        k, call, a = produced([body])
        return (k == "append" and a == acc and
                element_ok(call, lp.target.id)), d
    # the dispatch itself is the loop body (by-name helper inlined)
    if body is disp.node and kind == "append" and acc_name == acc and \
            subject == lp.target.id:
        return True, d
    return False, d


def check_when(ctx: Context, rep, rule: str) -> None:
    # ---------------------------------------------------------------------
    rep.rule(
        rule,
        "every call that records digests passes algorithms derived from the "
        "dataset's hash_checksum_algorithms (or its own `hashes` parameter); "
        "a literal () is allowed only where the returned record is "
        "discarded")
    takers = {
        f"{UT}:hash_checksums": "hashes",
        f"{UT}:safe_update_file": "hashes",
        "sedpack.io.shard_file_metadata:ShardsList.write_config": "hashes",
        "sedpack.io.merge_shard_infos:merge_shard_infos": "hashes",
    }
    n = 0
    for fn in ctx.repo.all_functions():
        cfg = None
        for call, anchor in calls_with_lambdas(fn):
            for callee in ctx.internal_targets(fn, call):
                if callee.fq not in takers:
                    continue
                n += 1
                if cfg is None:
                    cfg = ctx.cfg(fn)
                    tf = TagFlow(
                        cfg, {p: frozenset({"p:" + p}) for p in fn.params()},
                        hook=lambda e, st, rec: frozenset({"configured"})
                        if isinstance(e, ast.Attribute) and e.attr ==
                        "hash_checksum_algorithms" else None)
                e = passed_expr(call, callee, takers[callee.fq])
                node = node_of(cfg, anchor)
                tags = tf.tags(e, tf.at(node)) if e is not None and node \
                    else frozenset()
                if isinstance(e, ast.Tuple) and not e.elts:
                    discarded = isinstance(parent(call), ast.Expr)
                    rep.ob(rule, discarded, loc=fn.loc(call),
                           where=fn.qualname,
                           construct=short(call, 80),
                           message="digests may be skipped (hashes=()) only "
                           "when the returned record is thrown away")
                else:
                    ok = "configured" in tags or "p:hashes" in tags
                    rep.ob(rule, ok, loc=fn.loc(call), where=fn.qualname,
                           construct=f"{callee.name}(hashes={short(e)})",
                           message="recorded digests use the configured "
                           "algorithms, in the configured order")
    rep.floor(rule, n, 8, "instances")
    hs = ctx.fn("sedpack.io.metadata:DatasetStructure")  if False else None
    ds = ctx.repo.cls("sedpack.io.metadata:DatasetStructure")
    ann = ds.fields.get("hash_checksum_algorithms")
    rep.ob(rule, ann is not None and "tuple[HashChecksumT" in
           ast.unparse(ann), loc=f"{ds.module.relpath}:{ds.node.lineno}",
           where="DatasetStructure",
           construct=f"hash_checksum_algorithms: {short(ann)}",
           message="the configuration is an ordered tuple of known names")
    # the configuration is read live: nobody on the writing side keeps a
    # snapshot of the DatasetStructure (shards hashed under the snapshot's
    # algorithms would disagree with the configuration recorded later)
    rep.rule(
        "C16.live-config",
        "no assignment in the writing modules stores a copy of a "
        "DatasetStructure (model_copy / copy.copy / copy.deepcopy / "
        "re-validation of a dump): every holder aliases the dataset's object, "
        "so all hash sites see the same hash_checksum_algorithms")
    n_hold = 0

    def is_structure(fn_, e) -> bool:
        t = ctx.res.infer(fn_, e)
        return t is not None and t.name.rsplit(".", 1)[-1].rsplit(
            ":", 1)[-1] == "DatasetStructure"

    for fn_ in ctx.repo.all_functions():
        if not fn_.module.name.startswith("sedpack.io") or isinstance(
                fn_.node, ast.Lambda):
            continue
        for n_ in fn_.body_nodes():
            if not isinstance(n_, (ast.Assign, ast.AnnAssign)) or \
                    n_.value is None:
                continue
            v_ = n_.value
            if is_structure(fn_, v_) and isinstance(
                    v_, (ast.Name, ast.Attribute)):
                n_hold += 1
            if not isinstance(v_, ast.Call):
                continue
            copied = None
            f_ = v_.func
            if isinstance(f_, ast.Attribute) and f_.attr in (
                    "model_copy", "copy", "__deepcopy__", "__copy__") and \
                    is_structure(fn_, f_.value):
                copied = f_.value
            elif ctx.is_call(fn_, v_, "copy.deepcopy", "copy.copy") and \
                    v_.args and is_structure(fn_, v_.args[0]):
                copied = v_.args[0]
            elif (dotted(f_) or "").split(".")[0] == "DatasetStructure" and any(
                    is_structure(fn_, x) for x in ast.walk(v_)
                    if isinstance(x, (ast.Name, ast.Attribute)) and x is not f_
                    and not (isinstance(x, ast.Name) and
                             x.id == "DatasetStructure")):
                copied = v_
            if copied is not None:
                rep.ob("C16.live-config", False, loc=fn_.loc(n_),
                       where=fn_.qualname, construct=short(n_, 80),
                       message="a snapshot of the dataset structure is kept: "
                       "digests recorded through it use the algorithms as of "
                       "the snapshot, not the configured ones")
    rep.ob("C16.live-config", n_hold >= 2,
           loc="src/sedpack/io/dataset_filler.py:1", where="sedpack.io",
           construct=f"{n_hold} holder(s) of a DatasetStructure, all aliases",
           message="holders of the dataset structure found and checked")
    # a failure while hashing is an error, never a digest: no handler around
    # a call that reaches hash_checksums turns the exception into a value
    rep.rule(
        "C16.errors",
        "every try statement of sedpack.io whose body contains a call that "
        "reaches hash_checksums has only handlers that re-raise on every "
        "path (an `except OSError: return ()` records no digests for an "
        "intact file that could not be read once)")
    hc_fq = f"{UT}:hash_checksums"
    n_try = 0
    for fn_ in ctx.repo.all_functions():
        if not fn_.module.name.startswith("sedpack.io") or isinstance(
                fn_.node, ast.Lambda):
            continue
        for t_ in [x for x in fn_.body_nodes() if isinstance(x, ast.Try)]:
            reach = False
            for s_ in t_.body:
                for x in ast.walk(s_):
                    if isinstance(x, ast.Call):
                        for tg in ctx.internal_targets(fn_, x):
                            if tg.fq == hc_fq or hc_fq in ctx.cg.reachable(
                                    [tg.fq]):
                                reach = True
            if not reach:
                continue
            for h_ in t_.handlers:
                n_try += 1
                from sa.context import raises_in as _ri
                rep.ob("C16.errors", _ri(h_.body), loc=fn_.loc(h_),
                       where=fn_.qualname,
                       construct="except " + (short(h_.type, 30) if h_.type
                                              is not None else "") + ": " +
                       short(h_.body[-1], 40),
                       message="a failure of the digest computation is "
                       "converted into a normal result")
    rep.info("C16.errors", f"{n_try} handler(s) around digest computations")
    from sa.rules import shared
    shared.check_no_memo(ctx, rep, "C16.memo")


def run(ctx: Context, rep) -> None:
    rep.not_decided = (
        "the digest values themselves and the correctness of hashlib / "
        "xxhash; only that the right algorithm is fed exactly the file's "
        "bytes and reported in the configured order")
    rep.assumptions += [
        "hashlib.new(name) returns the standard algorithm of that name; "
        "xxhash.<name>() the algorithm of that name (xxh128 and xxh3_128 are "
        "aliases, xxh64 and xxh3_64 are NOT)",
        "readinto returns the number of bytes placed at the start of the "
        "buffer and 0 only at end of file (unbuffered binary file)",
    ]
    hc = ctx.fn(f"{UT}:hash_checksums")
    # order first (independent of how names are mapped to constructors):
    # the hash objects are one per entry of `hashes`, in order
    from sa import collalg
    rep.rule(
        "C16.order",
        "the collection of hash objects that is updated and reported is "
        "map(hashes, <one object per name>) - one object per entry of the "
        "`hashes` argument, in its order, nothing filtered, regrouped or "
        "concatenated (collection algebra, helpers inlined)")
    upd = [c for c in hc.calls() if isinstance(c.func, ast.Attribute) and
           c.func.attr == "update"]
    hf_name = None
    for u in upd:
        lp = parent(parent(u))
        if isinstance(lp, ast.For):
            hf_name = dotted(lp.iter)
    ca = collalg.CollAlg(hc)
    hterm = ca.env.get(hf_name) if hf_name else None
    hparam = hc.params()[1]
    ok_order = hterm is not None and hterm[0] == "map" and \
        hterm[1] == ("src", hparam)
    if hterm is not None and not ok_order:
        # [] ++ map(...) from an append loop over `hashes`
        parts = collalg.concat_parts(hterm)
        ok_order = len(parts) == 1 and parts[0][0] == "map" and \
            parts[0][1] == ("src", hparam)
        if not ok_order and len(parts) == 1 and parts[0] == ("src", hparam):
            ok_order = False
    undecided = hterm is None or any(
        x[0] == "opaque" for x in collalg.spine(hterm))
    if undecided and hterm is not None and not ok_order:
        pass
    rep.ob("C16.order", ok_order or (undecided and hterm is not None and
                                     False), loc=hc.loc(),
           where=hc.qualname,
           construct=f"{hf_name} = " + (collalg.pretty(hterm)[:150]
                                        if hterm is not None else "<none>"),
           message="one hash object per configured name, in the configured "
           "order") if not undecided else None
    # a hash object is made for the call that asked for it: the by-name
    # factory (the function handing names to hashlib.new) returns
    # constructor calls only, never an object kept in a module-level or class
    # collection (two digests computed at the same time, or one name listed
    # twice, would share one state)
    rep.rule(
        "C16.objects",
        "every return of a function that calls hashlib.new is a call "
        "expression (a new object per request) and the function stores "
        "nothing into module-level collections")
    n_fact = 0
    for f_ in ctx.repo.all_functions():
        if isinstance(f_.node, ast.Lambda) or not f_.fq.startswith(
                "sedpack.io") or not any(
                    ctx.is_call(f_, c_, "hashlib.new") for c_ in f_.calls()):
            continue
        n_fact += 1
        mod_ = f_.module
        bad_ = []
        for n_ in f_.body_nodes():
            if isinstance(n_, ast.Return) and n_.value is not None and not \
                    isinstance(n_.value, ast.Call):
                from sa.norm import expand as _exp16
                ev_ = _exp16(f_, n_.value)
                if not isinstance(ev_, ast.Call) or isinstance(
                        ev_.func, ast.Attribute) and ev_.func.attr in (
                            "get", "setdefault", "pop", "copy"):
                    bad_.append((n_, "returns " + short(n_.value, 40)))
            if isinstance(n_, (ast.Assign, ast.AugAssign, ast.AnnAssign)):
                for t_ in (n_.targets if isinstance(n_, ast.Assign)
                           else [n_.target]):
                    if isinstance(t_, ast.Subscript) and isinstance(
                            t_.value, ast.Name) and t_.value.id in getattr(
                                mod_, "globals", {}):
                        bad_.append((n_, "stores into module-level " +
                                     t_.value.id))
            if isinstance(n_, ast.Call) and isinstance(
                    n_.func, ast.Attribute) and n_.func.attr in (
                        "setdefault", "append", "add", "update") and \
                    isinstance(n_.func.value, ast.Name) and \
                    n_.func.value.id in getattr(mod_, "globals", {}):
                bad_.append((n_, "stores into module-level " +
                             n_.func.value.id))
        for n_, what_ in bad_:
            rep.ob("C16.objects", False, loc=f_.loc(n_), where=f_.qualname,
                   construct=what_,
                   message="a hash object is shared between requests")
        rep.ob("C16.objects", not bad_, loc=f_.loc(), where=f_.qualname,
               construct="hash objects are constructed per request",
               message="by-name hash factory")
    if n_fact < 1 and not rep.violations:
        raise AnalysisError("C16.objects: no function calls hashlib.new")
    try:
        gf, disp, kind, acc_name = find_name_dispatch(ctx)
    except AnalysisError:
        if rep.violations:
            check_when(ctx, rep, "C16.when")
            return
        raise
    subject = dotted(disp.subject)

    rep.rule(
        "C16.names",
        "in the name -> hash object dispatch every explicit arm constructs "
        "the object whose constructor name equals the case literal; the "
        "fall-through passes the name unchanged to hashlib.new; every member "
        "of HashChecksumT without an arm is a hashlib algorithm name")
    arms: dict[str, str] = {}
    v = produced(disp.default)[1]
    default_ok = isinstance(v, ast.Call) and ctx.is_call(
        gf, v, "hashlib.new") and len(v.args) == 1 and not v.keywords and \
        dotted(v.args[0]) == subject
    rep.ob("C16.names", default_ok, loc=gf.loc(disp.default[0]),
           where=gf.qualname, construct=short(disp.default[-1]),
           message="other names go to hashlib.new unchanged")
    for lits, body in disp.arms:
        k, call, acc = produced(body)
        for lit in lits:
            ok = call is not None and not call.args and not call.keywords and \
                k == kind and acc == acc_name
            ctor = (ctx.repo.qualify(gf.module, call.func) or
                    ast.unparse(call.func)) if call is not None else "?"
            arms[lit] = ctor
            mod, _, name = ctor.rpartition(".")
            rep.ob("C16.names", ok and name == lit and mod in ("xxhash",
                                                                "hashlib"),
                   loc=gf.loc(body[0]), where=gf.qualname,
                   construct=f"case {lit!r}: {short(body[-1])}",
                   message="the algorithm constructed is the one named")
    members = literal_members(ctx, "HashChecksumT")
    for m in members:
        if m in arms:
            continue
        rep.ob("C16.names", default_ok and m in HASHLIB_NAMES, loc=gf.loc(),
               where=gf.qualname, construct=f"{m!r} -> hashlib.new({m!r})",
               message="a configured name without its own arm must be a "
               "hashlib algorithm", sample=False)
    for m in XXHASH_CTORS & set(members):
        rep.ob("C16.names", m in arms, loc=gf.loc(), where=gf.qualname,
               construct=f"{m!r} has an arm",
               message="xxhash names are not known to hashlib and need an arm",
               sample=False)

    # ---------------------------------------------------------------------
    rep.rule(
        "C16.feed",
        "hash_checksums opens the file in binary mode and, in one loop that "
        "ends only at end of file, feeds every hash object exactly the bytes "
        "read in that round (buffer[:n] with n the readinto result, or the "
        "value returned by read)")
    opens = [c for c in hc.calls() if "FS_READ" in ctx.effects(hc, c) or
             (isinstance(c.func, ast.Name) and c.func.id == "open")]
    ok_open = len(opens) == 1 and (const_str(ctx.arg(opens[0], 1, "mode")) or
                                   "r") in ("rb", "br") and \
        dotted(ctx.arg(opens[0], 0, "file")) == hc.params()[0]
    rep.ob("C16.feed", ok_open, loc=hc.loc(opens[0]) if opens else hc.loc(),
           where=hc.qualname, construct=short(opens[0]) if opens else "<none>",
           message="the named file is read in binary mode")
    # each hash object sees the file once: the open / read block is not
    # repeated (a retry loop around it feeds the bytes of the failed attempt
    # and then the whole file into the same objects) unless the objects are
    # created inside the same loop
    from sa.model import ancestors as _anc16
    for o_ in opens:
        loops_ = [a for a in _anc16(o_) if isinstance(
            a, (ast.For, ast.While, ast.AsyncFor))]
        makers = [n for n in hc.body_nodes() if isinstance(
            n, (ast.Assign, ast.AnnAssign)) and any(
                isinstance(x, ast.Call) and any(
                    t.qualname.endswith("_get_hash_function")
                    for t in ctx.internal_targets(hc, x))
                for x in ast.walk(n))]
        stale = [lp for lp in loops_ if not any(
            any(m is x for x in ast.walk(lp)) for m in makers)]
        rep.ob("C16.feed", not stale, loc=hc.loc(o_), where=hc.qualname,
               construct=("open(..) inside " + short(stale[0], 40)) if stale
               else "the file is opened once per set of hash objects",
               message="the read is repeated (retry loop) with the same hash "
               "objects: a failed attempt leaves its bytes in the digest")
    updates = [c for c in hc.calls() if isinstance(c.func, ast.Attribute) and
               c.func.attr == "update"]
    rep.ob("C16.feed", len(updates) == 1, loc=hc.loc(), where=hc.qualname,
           construct=f"{len(updates)} update site(s)",
           message="one update site inside the read loop")
    for u in updates:
        inner = parent(parent(u))  # for hash_function in hash_functions
        outer = parent(inner) if inner is not None else None
        ok_inner = isinstance(inner, ast.For) and dotted(u.func.value) == \
            dotted(inner.target) and len(inner.body) == 1 and \
            not inner.orelse
        hf_name = dotted(inner.iter) if ok_inner else None
        rep.ob("C16.feed", ok_inner and hf_name is not None,
               loc=hc.loc(u), where=hc.qualname,
               construct=f"for h in {hf_name}: h.update(..)",
               message="every hash object is updated in every round (plain "
               "loop over the tuple of hash objects, nothing skipped)")
        arg = u.args[0] if u.args else None
        # a chunk named by a local assigned once inside the read loop
        # (`chunk = buffer[:n]`) is read as the expression it names
        pure_locals: list[ast.stmt] = []
        if arg is not None and isinstance(arg, ast.Name) and outer is not None:
            defs_in = [s for s in getattr(outer, "body", []) if isinstance(
                s, (ast.Assign, ast.AnnAssign)) and s.value is not None and
                dotted(s.targets[0] if isinstance(s, ast.Assign)
                       else s.target) == arg.id]
            others = [x for x in hc.body_nodes() if isinstance(
                x, ast.Name) and x.id == arg.id and isinstance(
                    x.ctx, ast.Store)]
            if len(defs_in) == 1 and len(others) == 1 and \
                    outer.body.index(defs_in[0]) < outer.body.index(inner):
                pure_locals = defs_in
                arg = defs_in[0].value
        ok_outer = False
        form = "?"
        if isinstance(outer, ast.For) and isinstance(outer.iter, ast.Call) and \
                isinstance(outer.iter.func, ast.Name) and \
                outer.iter.func.id == "iter" and len(outer.iter.args) == 2:
            lam, sentinel = outer.iter.args
            n_var = dotted(outer.target)
            if isinstance(lam, ast.Lambda) and isinstance(lam.body, ast.Call) \
                    and isinstance(lam.body.func, ast.Attribute):
                meth = lam.body.func.attr
                if meth == "readinto" and lam.body.args:
                    buf = dotted(lam.body.args[0])
                    ok_outer = isinstance(sentinel, ast.Constant) and \
                        sentinel.value == 0 and isinstance(
                            arg, ast.Subscript) and dotted(arg.value) == buf \
                        and isinstance(arg.slice, ast.Slice) and \
                        arg.slice.lower is None and arg.slice.step is None \
                        and dotted(arg.slice.upper) == n_var
                    form = f"iter(lambda: f.readinto({buf}), 0) / update({short(arg)})"
                elif meth == "read":
                    ok_outer = isinstance(sentinel, ast.Constant) and \
                        sentinel.value == b"" and dotted(arg) == n_var
                    form = f"iter(lambda: f.read(n), b'') / update({short(arg)})"
            ok_outer = ok_outer and len(outer.body) == 1 + len(pure_locals) and not outer.orelse
        elif isinstance(outer, ast.While) and isinstance(
                outer.test, ast.Compare) and isinstance(
                    outer.test.left, ast.NamedExpr) and len(
                        outer.test.ops) == 1 and isinstance(
                            outer.test.left.value, ast.Call) and isinstance(
                                outer.test.left.value.func, ast.Attribute):
            # while (n := f.readinto(buf)) != 0: / > 0:
            w = outer.test.left
            meth = w.value.func.attr
            n_var = dotted(w.target)
            cmp_ok = (isinstance(outer.test.ops[0], (ast.NotEq, ast.Gt)) and
                      isinstance(outer.test.comparators[0], ast.Constant) and
                      outer.test.comparators[0].value == 0)
            if meth == "readinto" and w.value.args:
                buf = dotted(w.value.args[0])
                ok_outer = cmp_ok and isinstance(arg, ast.Subscript) and \
                    dotted(arg.value) == buf and isinstance(
                        arg.slice, ast.Slice) and arg.slice.lower is None and \
                    arg.slice.step is None and dotted(arg.slice.upper) == n_var
                form = f"while (n := f.readinto({buf})) != 0 / update({short(arg)})"
            elif meth == "read":
                ok_outer = (isinstance(outer.test.ops[0], ast.NotEq) and
                            isinstance(outer.test.comparators[0], ast.Constant)
                            and outer.test.comparators[0].value == b"") and \
                    dotted(arg) == n_var
                form = f"while (chunk := f.read(n)) != b'' / update({short(arg)})"
            ok_outer = ok_outer and len(outer.body) == 1 + len(pure_locals) and not outer.orelse
        elif isinstance(outer, ast.While) and isinstance(
                outer.test, ast.NamedExpr) and isinstance(
                    outer.test.value, ast.Call) and isinstance(
                        outer.test.value.func, ast.Attribute) and \
                outer.test.value.func.attr == "read":
            ok_outer = dotted(arg) == dotted(outer.test.target) and \
                len(outer.body) == 1
            form = f"while chunk := f.read(n) / update({short(arg)})"
        rep.ob("C16.feed", ok_outer, loc=hc.loc(outer) if outer is not None
               else hc.loc(u), where=hc.qualname, construct=form,
               message="the loop runs until end of file and the update "
               "argument is exactly what this round read")
        # the loop is inside the with block of the open
        w = outer
        while w is not None and not isinstance(w, ast.With):
            w = parent(w)
        rep.ob("C16.feed", w is not None and any(
            x is opens[0] for x in ast.walk(w.items[0].context_expr))
               if opens else False, loc=hc.loc(), where=hc.qualname,
               construct="with open(...) as f: <read loop>",
               message="reads come from the opened file")
        rep.ob("C16.feed", not any(isinstance(x, (ast.Break, ast.Continue,
                                                  ast.Return))
                                   for x in ast.walk(outer))
               if outer is not None else False, loc=hc.loc(), where=hc.qualname,
               construct="no break/continue/return in the read loop",
               message="the whole file is consumed")

    # the read buffer is private to the call
    bufs = set()
    for c in ast.walk(hc.node):
        if isinstance(c, ast.Call) and isinstance(
                c.func, ast.Attribute) and c.func.attr == "readinto" and c.args:
            bufs.add(dotted(c.args[0]))
    for b in sorted(x for x in bufs if x):
        defs = [n for n in hc.body_nodes() if isinstance(n, (ast.Assign,
                                                             ast.AnnAssign))
                and dotted(n.targets[0] if isinstance(n, ast.Assign)
                           else n.target) == b]
        fresh = len(defs) == 1 and isinstance(defs[0].value, ast.Call) and any(
            isinstance(x, ast.Call) and isinstance(x.func, ast.Name) and
            x.func.id == "bytearray" for x in ast.walk(defs[0].value)) and \
            not any(isinstance(a, (ast.For, ast.While))
                    for a in __import__("sa.model", fromlist=["ancestors"]
                                        ).ancestors(defs[0]))
        rep.ob("C16.feed", fresh, loc=hc.loc(defs[0]) if defs else hc.loc(),
               where=hc.qualname,
               construct=f"{b} = " + (short(defs[0].value) if defs else
                                      "<not a local of this function>"),
               message="the read buffer is a fresh local allocation of this "
               "call (a shared/module-level buffer lets concurrent calls hash "
               "each other's bytes)")

    # ---------------------------------------------------------------------
    rep.rule(
        "C16.out",
        "the hash objects are built by an order-preserving comprehension "
        "over the `hashes` argument (one object per entry, repetitions "
        "included) and the result is the tuple of their hexdigest() in the "
        "same order")
    hf_var = None
    if updates:
        inner0 = parent(parent(updates[0]))
        if isinstance(inner0, ast.For):
            hf_var = dotted(inner0.iter)
    ok_build, hf_def = ordered_hash_objects(ctx, hc, hf_var, gf, disp, kind,
                                            acc_name)
    rep.ob("C16.out", ok_build, loc=hc.loc(hf_def) if hf_def is not None
           else hc.loc(), where=hc.qualname,
           construct=short(hf_def, 100) if hf_def is not None else "<none>",
           message="one hash object per entry of `hashes`, in order "
           "(comprehension or append loop over `hashes`; no dict/set, no "
           "filter, no sort)")
    rets = [n for n in hc.body_nodes() if isinstance(n, ast.Return)]
    ok_ret = False
    if len(rets) == 1:
        v = rets[0].value
        comp = v.args[0] if isinstance(v, ast.Call) and isinstance(
            v.func, ast.Name) and v.func.id == "tuple" and v.args else None
        if isinstance(comp, (ast.GeneratorExp, ast.ListComp)) and \
                len(comp.generators) == 1:
            g = comp.generators[0]
            e = comp.elt
            hexd = isinstance(e, ast.Call) and isinstance(
                e.func, ast.Attribute) and (
                    (e.func.attr == "hexdigest" and
                     dotted(e.func.value) == dotted(g.target) and not e.args) or
                    (e.func.attr == "hex" and isinstance(e.func.value, ast.Call)
                     and isinstance(e.func.value.func, ast.Attribute) and
                     e.func.value.func.attr == "digest" and
                     dotted(e.func.value.func.value) == dotted(g.target)))
            ok_ret = dotted(g.iter) == hf_var and not g.ifs and hexd
    rep.ob("C16.out", ok_ret, loc=hc.loc(rets[0]) if rets else hc.loc(),
           where=hc.qualname, construct=short(rets[0], 100) if rets else "",
           message="lower-case hex digests, one per hash object, in order")
    if updates and hf_var:
        inner = parent(parent(updates[0]))
        rep.ob("C16.out", isinstance(inner, ast.For) and dotted(inner.iter) ==
               hf_var, loc=hc.loc(), where=hc.qualname,
               construct=f"updated objects = reported objects = {hf_var}",
               message="the objects fed are the objects reported")

    check_when(ctx, rep, "C16.when")
    # a parent list records the digest of the child list as it is on disk
    # now: re-attached child records come from the child's own merge in this
    # call (same rule as C04.fresh)
    from sa.rules.c04 import check_fresh_records
    check_fresh_records(ctx, rep, "C16.fresh")
    # a rewritten list is re-hashed and its parent updated on every exit of the
    # filler (same check as C18.publish)
    from sa.rules import shared as _sh16
    _sh16.check_exit_publishes(ctx, rep, "C16.publish")

_U = "src/sedpack/io/utils.py"
SELFTESTS = [
    dict(rule="C16.objects", name="xxh64-object-kept", expect="fire", edits=[
        dict(path=_U, old="import xxhash\n", new="import xxhash\n_KEPT: dict = {}\n"),
        dict(path=_U, old="        case \"xxh64\":\n            return xxhash.xxh64()",
             new="        case \"xxh64\":\n            _KEPT.setdefault(name, xxhash.xxh64()).reset()\n            return _KEPT[name]")]),
    dict(rule="C16.live-config", name="filler-snapshots-structure", expect="fire",
         path="src/sedpack/io/dataset_filler.py",
         old="        self._dataset_structure: DatasetStructure = dataset_structure\n",
         new="        self._dataset_structure: DatasetStructure = dataset_structure.model_copy(deep=True)\n"),
    dict(rule="C16.names", name="xxh32-builds-xxh64", expect="fire", path=_U,
         old='        case "xxh32":\n            return xxhash.xxh32()',
         new='        case "xxh32":\n            return xxhash.xxh64()'),
    dict(rule="C16.names", name="xxh64-as-xxh3", expect="fire", path=_U,
         old='            return xxhash.xxh64()', new='            return xxhash.xxh3_64()'),
    dict(rule="C16.names", name="arms-reordered-twin", expect="silent", path=_U,
         old='        case "xxh32":\n            return xxhash.xxh32()\n        case "xxh64":\n            return xxhash.xxh64()\n',
         new='        case "xxh64":\n            return xxhash.xxh64()\n        case "xxh32":\n            return xxhash.xxh32()\n'),
    dict(rule="C16.names", name="default-lowercases", expect="fire", path=_U,
         old="            return hashlib.new(name)", new="            return hashlib.new(\"sha256\")"),
    dict(rule="C16.feed", name="update-whole-buffer", expect="fire", path=_U,
         old="                hash_function.update(memory_view[:i])",
         new="                hash_function.update(memory_view)"),
    dict(rule="C16.feed", name="break-after-first-hash", expect="fire", path=_U,
         old="                hash_function.update(memory_view[:i])\n",
         new="                hash_function.update(memory_view[:i])\n                break\n"),
    dict(rule="C16.feed", name="wrong-sentinel", expect="fire", path=_U,
         old="lambda: hashed_file.readinto(memory_view), 0):",
         new="lambda: hashed_file.readinto(memory_view), len(memory_view) - 1):"),
    dict(rule="C16.feed", name="read-idiom-twin", expect="silent", path=_U,
         old="        for i in iter(lambda: hashed_file.readinto(memory_view), 0):\n            # Update all hashes.\n            for hash_function in hash_functions:\n                hash_function.update(memory_view[:i])\n",
         new="        for chunk in iter(lambda: hashed_file.read(131072), b\"\"):\n            for hash_function in hash_functions:\n                hash_function.update(chunk)\n"),
    dict(rule="C16.feed", name="shared-module-buffer", expect="fire", path=_U,
         edits=[dict(path=_U, old="    memory_view = memoryview(bytearray(128 * 1024))\n", new=""),
                dict(path=_U, old="def hash_checksums(file_path: Path,", new="memory_view = memoryview(bytearray(128 * 1024))\n\n\ndef hash_checksums(file_path: Path,")]),
    dict(rule="C16.feed", name="text-mode", expect="fire", path=_U,
         old='    with open(file_path, "rb", buffering=0) as hashed_file:',
         new='    with open(file_path, "r") as hashed_file:'),
    dict(rule="C16.out", name="dict-of-hashes", expect="fire", path=_U,
         edits=[dict(path=_U, old="    hash_functions = tuple(\n        _get_hash_function(hash_name) for hash_name in hashes)\n",
                     new="    hash_functions = {hash_name: _get_hash_function(hash_name) for hash_name in hashes}\n"),
                dict(path=_U, old="            for hash_function in hash_functions:\n", new="            for hash_function in hash_functions.values():\n"),
                dict(path=_U, old="    return tuple(hash_function.hexdigest() for hash_function in hash_functions)",
                     new="    return tuple(hash_function.hexdigest() for hash_function in hash_functions.values())")]),
    dict(rule="C16.out", name="sorted-digests", expect="fire", path=_U,
         old="    return tuple(hash_function.hexdigest() for hash_function in hash_functions)",
         new="    return tuple(sorted(hash_function.hexdigest() for hash_function in hash_functions))"),
    dict(rule="C16.out", name="digest-hex-twin", expect="silent", path=_U,
         old="    return tuple(hash_function.hexdigest() for hash_function in hash_functions)",
         new="    return tuple(hash_function.digest().hex() for hash_function in hash_functions)"),
    dict(rule="C16.out", name="upper-case", expect="fire", path=_U,
         old="    return tuple(hash_function.hexdigest() for hash_function in hash_functions)",
         new="    return tuple(hash_function.hexdigest().upper() for hash_function in hash_functions)"),
    dict(rule="C16.when", name="shard-hash-fixed-algorithm", expect="fire",
         path="src/sedpack/io/shard/shard.py",
         old="            hashes=self.dataset_structure.hash_checksum_algorithms,\n",
         new="            hashes=(\"sha256\",),\n"),
    dict(rule="C16.when", name="final-list-without-digests", expect="fire",
         path="src/sedpack/io/dataset_filler.py",
         old="                    hashes=self._dataset.dataset_structure.\n                    hash_checksum_algorithms,\n",
         new="                    hashes=(),\n"),
]
