"""Cross-cutting rules that are necessary conditions of several properties
(each property's module calls them under its own rule id)."""
from __future__ import annotations

import ast

from sa.cfg import CFG, TRUTHY
from sa.context import Context
from sa.model import AnalysisError, FunctionInfo, dotted, short
from sa.rules import common as C

MEMO_DECORATORS = ("lru_cache", "cache", "cached_property", "memoize",
                   "memoized", "cachedmethod", "alru_cache")


# ---------------------------------------------------------------------------
def check_exit_propagates(ctx: Context, rep, rule: str,
                          modules: tuple[str, ...] | None = None,
                          floor: int = 3) -> None:
    """No context manager of the package swallows an exception: evaluated
    with "an exception is in flight" (all three parameters truthy), every
    reachable return of __exit__ / __aexit__ is None / False."""
    rep.rule(
        rule,
        "every __exit__ / __aexit__ of the package, specialised on 'an "
        "exception is in flight', returns only None / False (or raises): a "
        "truthy return suppresses the error of the with-block, turning a "
        "failed pass into a normal end")
    n = 0
    for fn in ctx.repo.all_functions():
        if fn.name not in ("__exit__", "__aexit__") or fn.cls is None:
            continue
        if modules is not None and fn.module.name not in modules:
            continue
        n += 1
        params = fn.params()[1:4]
        cfg = CFG(fn, env={p: TRUTHY for p in params})
        live = cfg.reachable([cfg.entry], follow=lambda a, b, lab: lab != "exc")
        bad = []
        for node in cfg.nodes:
            if node in live and node.kind == "stmt" and isinstance(
                    node.ast, ast.Return) and node.ast.value is not None:
                v = node.ast.value
                if isinstance(v, ast.Constant) and not v.value:
                    continue
                bad.append(node.ast)
        rep.ob(rule, not bad, loc=fn.loc(bad[0]) if bad else fn.loc(),
               where=fn.qualname,
               construct=short(bad[0]) if bad else
               "returns None/False or raises while an exception is in flight",
               message="an exception leaving the with-block must propagate" + (
                   "; this return value may be truthy" if bad else ""))
    rep.floor(rule, n, floor, "context managers")


# ---------------------------------------------------------------------------
ENV_METHODS = {"resolve", "absolute", "expanduser", "exists", "is_file",
               "is_dir", "stat", "lstat", "iterdir", "is_symlink", "readlink",
               "cwd", "home", "samefile"}


def reads_files(ctx: Context, fn: FunctionInfo, depth: int = 3,
                seen: set | None = None) -> bool:
    seen = seen if seen is not None else set()
    if fn.fq in seen:
        return False
    seen.add(fn.fq)
    for c in fn.calls():
        if "FS_READ" in ctx.effects(fn, c):
            return True
        # ... or asks the file system / the process environment (the answer
        # changes when the working directory, a link or the tree changes)
        if isinstance(c.func, ast.Attribute) and c.func.attr in ENV_METHODS \
                and not c.args:
            return True
        if ctx.is_call(fn, c, "os.getcwd", "os.path.abspath",
                       "os.path.realpath", "os.path.exists", "os.path.isfile",
                       "os.stat", "os.listdir", "os.scandir", "pathlib.Path.cwd",
                       "pathlib.Path.home", "os.path.expanduser"):
            return True
        if depth > 0:
            for t in ctx.internal_targets(fn, c):
                if reads_files(ctx, t, depth - 1, seen):
                    return True
    return False


def check_no_memo(ctx: Context, rep, rule: str) -> None:
    """Nothing derived from the files of a dataset is memoised: a dataset is
    legitimately rewritten (continued writing, merges) between two reads."""
    rep.rule(
        rule,
        "no function of sedpack.io that (transitively, depth 3) reads files "
        "is memoised (functools.lru_cache / cache / cached_property ...): "
        "shard lists, shard files and the description change between two "
        "reads of the same path, and a cache keyed by path (or by a recorded "
        "checksum that may be empty) serves a stale version")
    n = 0
    for fn in ctx.repo.all_functions():
        if not fn.module.name.startswith("sedpack.io") or isinstance(
                fn.node, ast.Lambda):
            continue
        decos = [d for d in fn.decorators
                 if d.rsplit(".", 1)[-1].split("(")[0] in MEMO_DECORATORS]
        if not decos:
            continue
        n += 1
        bad = reads_files(ctx, fn)
        rep.ob(rule, not bad, loc=fn.loc(), where=fn.qualname,
               construct=f"@{decos[0]} on a function that reads files"
               if bad else f"@{decos[0]} (pure)",
               message="results derived from dataset files must be "
               "recomputed on every call")
    # hand-made memoisation: a container that outlives the call (module
    # global, attribute of self / cls) is stored into under a key and a value
    # looked up in the same container is returned, in a function that reads
    # files or asks the environment
    for fn in ctx.repo.all_functions():
        if not fn.module.name.startswith("sedpack.io") or isinstance(
                fn.node, ast.Lambda):
            continue
        stores: dict[str, ast.AST] = {}
        for x in fn.body_nodes():
            if isinstance(x, ast.Assign):
                for t in x.targets:
                    if isinstance(t, ast.Subscript):
                        d = dotted(t.value)
                        if d and (d.startswith(("self.", "cls.")) or (
                                "." not in d and d in fn.module.globals)):
                            stores[d] = x
            if isinstance(x, ast.Call) and isinstance(x.func, ast.Attribute) \
                    and x.func.attr == "setdefault":
                d = dotted(x.func.value)
                if d and (d.startswith(("self.", "cls.")) or (
                        "." not in d and d in fn.module.globals)):
                    stores[d] = x
        if not stores:
            continue
        hits = []
        for r in fn.body_nodes():
            if not isinstance(r, ast.Return) or r.value is None:
                continue
            from sa import norm as _norm
            ev = _norm.expand(fn, r.value)
            for y in ast.walk(ev):
                d = None
                if isinstance(y, ast.Subscript):
                    d = dotted(y.value)
                elif isinstance(y, ast.Call) and isinstance(
                        y.func, ast.Attribute) and y.func.attr in (
                            "get", "setdefault"):
                    d = dotted(y.func.value)
                if d in stores:
                    hits.append((r, d))
        if not hits:
            continue
        n += 1
        bad = reads_files(ctx, fn)
        rep.ob(rule, not bad, loc=fn.loc(hits[0][0]), where=fn.qualname,
               construct=f"hand-made cache `{hits[0][1]}`: stored under a key "
               f"and returned from the same container",
               message="results derived from dataset files must be "
               "recomputed on every call (hand-made memoisation in a function "
               "that reads files / asks the environment)")
    rep.info(rule, f"{n} memoised function(s) inspected")


# ---------------------------------------------------------------------------
def check_unbounded_queues(ctx: Context, rep, rule: str, module: str) -> None:
    rep.rule(
        rule,
        "the hand-over queues of the lazy pool are unbounded (queue.Queue() "
        "without maxsize): after an early exit nobody drains the results "
        "queue, so a worker blocked on a full queue could never see its stop "
        "sentinel")
    mod = ctx.repo.module(module)
    n = 0
    for fn in mod.functions.values():
        for c in fn.calls():
            names = ctx.names(fn, c)
            if any(x in ("queue.Queue", "queue.SimpleQueue", "queue.LifoQueue",
                         "queue.PriorityQueue", "multiprocessing.Queue")
                   for x in names):
                n += 1
                size = ctx.arg(c, 0, "maxsize")
                ok = size is None or (isinstance(size, ast.Constant) and
                                      size.value in (0, None))
                kind_ok = any(x in ("queue.Queue", "queue.SimpleQueue")
                              for x in names)
                rep.ob(rule, ok and kind_ok, loc=fn.loc(c), where=fn.qualname,
                       construct=short(c),
                       message="FIFO queue without capacity limit")
    rep.floor(rule, n, 2, "queue constructions")


# ---------------------------------------------------------------------------
def check_expanduser_guarded(ctx: Context, rep, rule: str) -> None:
    rep.rule(
        rule,
        "every Path.expanduser() of the package is guarded against "
        "RuntimeError (a directory literally named `~name` is a legal "
        "location of a moved dataset; expanduser raises for an unknown user)")
    from sa.model import ancestors
    n = 0
    for fn in ctx.repo.all_functions():
        if not fn.module.name.startswith("sedpack"):
            continue
        for c in fn.calls():
            if isinstance(c.func, ast.Attribute) and c.func.attr == "expanduser":
                n += 1
                ok = False
                for a in ancestors(c):
                    if isinstance(a, ast.Try) and any(
                            c is x for s in a.body for x in ast.walk(s)):
                        names = {dotted(h.type) if h.type is not None else
                                 "BaseException" for h in a.handlers}
                        for h in a.handlers:
                            if isinstance(h.type, ast.Tuple):
                                names |= {dotted(e) for e in h.type.elts}
                        if names & {"RuntimeError", "Exception",
                                    "BaseException"}:
                            ok = True
                    if isinstance(a, (ast.With, ast.AsyncWith)):
                        for it in a.items:
                            ce = it.context_expr
                            if isinstance(ce, ast.Call) and (dotted(
                                    ce.func) or "").endswith("suppress") and \
                                    any(dotted(x) in ("RuntimeError",
                                                      "Exception")
                                        for x in ce.args):
                                ok = True
                rep.ob(rule, ok, loc=fn.loc(c), where=fn.qualname,
                       construct=short(c, 60),
                       message="expanduser() must not be able to abort "
                       "opening a dataset")
    rep.floor(rule, n, 1, "expanduser sites")


# ---------------------------------------------------------------------------
def check_not_reachable(ctx: Context, rep, rule: str, entries: list[str],
                        forbidden: list[str], what: str,
                        stop: tuple[str, ...] = ()) -> None:
    """Call-graph rule: none of `forbidden` is reachable from `entries`."""
    cg = ctx.cg
    targets = {ctx.fn(f).fq for f in forbidden}
    for e in entries:
        fn = ctx.fn(e)
        seen = {fn.fq}
        work = [(fn.fq, [fn.fq])]
        hit = None
        while work and hit is None:
            cur, path = work.pop()
            for nxt in sorted(cg.callees(cur)):
                if nxt in targets:
                    hit = path + [nxt]
                    break
                if nxt in seen or any(nxt.endswith(s) for s in stop):
                    continue
                seen.add(nxt)
                work.append((nxt, path + [nxt]))
        rep.ob(rule, hit is None, loc=fn.loc(), where=fn.qualname,
               construct=" -> ".join(x.split(":")[-1] for x in hit)
               if hit else f"{len(seen)} functions reachable, none {what}",
               message=f"{fn.qualname} must not reach a function that {what}",
               path=" -> ".join(hit) if hit else "")


# ---------------------------------------------------------------------------
def check_fresh_pass(ctx: Context, rep, rule: str) -> None:
    """tf.data calls the generator argument of from_generator once per pass
    (per epoch under .repeat()): it must build a new iterator every time."""
    rep.rule(
        rule,
        "every tf.data.Dataset.from_generator in the iteration module gets a "
        "lambda / local function whose body *calls* an iteration interface "
        "(a generator function of the package): each pass over the tf "
        "dataset starts a fresh, complete pass - never a captured generator "
        "object or a shared iterator instance")
    n = 0
    for fn in ctx.repo.module(C.ITER_MOD).functions.values():
        if isinstance(fn.node, ast.Lambda):
            continue
        for c in fn.calls():
            if not (isinstance(c.func, ast.Attribute) and
                    c.func.attr == "from_generator"):
                continue
            n += 1
            g = ctx.arg(c, 0, "generator")
            ok = False
            why = "not a lambda / local function"
            body = None
            if isinstance(g, ast.Lambda) and not (
                    g.args.args or g.args.kwonlyargs or g.args.vararg):
                body = g.body
            elif isinstance(g, ast.Name):
                local = fn.module.functions.get(
                    f"{fn.qualname}.<locals>.{g.id}")
                if local is not None:
                    rets = [x for x in local.body_nodes()
                            if isinstance(x, ast.Return)]
                    if len(rets) == 1 and len(local.node.body) <= 2:
                        body = rets[0].value
                    elif local.is_generator():
                        ok, why = True, "local generator function"
            # functools.partial(<generator function>, ..) (directly or bound
            # once to a local): calling it calls the function
            pg = g
            if isinstance(pg, ast.Name):
                from sa.valuation import single_defs as _sdp
                pg = _sdp(fn).get(pg.id, pg)
            if body is None and not ok and isinstance(pg, ast.Call) and \
                    (dotted(pg.func) or "") in ("functools.partial",
                                                "partial") and pg.args:
                ref = pg.args[0]
                fake = ast.Call(func=ref, args=[], keywords=[])
                ast.copy_location(fake, pg)
                ast.fix_missing_locations(fake)
                tg = [t for t in ctx.res.resolve_ref(fn, ref)
                      if t.kind == "internal" and t.fn is not None]
                if tg and all(t.fn.is_generator() for t in tg):
                    ok, why = True, "partial of a generator function"
                else:
                    why = "partial of something that is not a generator " \
                        "function of the package"
            if body is not None:
                why = "the body is not a call of a generator function of " \
                    "the package"
                if isinstance(body, ast.Call):
                    tg = [t for t in ctx.internal_targets(fn, body)]
                    ok = bool(tg) and all(t.is_generator() for t in tg)
            rep.ob(rule, ok, loc=fn.loc(c), where=fn.qualname,
                   construct=short(g, 80) if g is not None else "<none>",
                   message="the generator argument re-creates the iterator on "
                   "every call" + ("" if ok else f" ({why})"))
    rep.floor(rule, n, 1, "from_generator sites")


# ---------------------------------------------------------------------------
def check_label_copy(ctx: Context, rep, rule: str) -> None:
    """The label stored on the open shard is compared with the caller's next
    label to decide about a rollover: the stored copy must compare equal to
    the value it was copied from (copy.deepcopy does; a JSON round trip turns
    tuples into lists and non-str keys into str, so an unchanged label looks
    changed and every example opens a new shard)."""
    from sa import norm
    rep.rule(
        rule,
        "the custom metadata attached to the open shard is the caller's "
        "value itself or copy.deepcopy of it - an equality-preserving copy - "
        "because the rollover test compares it with the next call's value")
    we = ctx.fn("sedpack.io.dataset_filler:_DatasetFillerContext.write_example")
    attach = [n for n in we.body_nodes()
              if isinstance(n, (ast.Assign, ast.AnnAssign)) and any(
                  isinstance(t, ast.Attribute) and t.attr == "custom_metadata"
                  for t in (n.targets if isinstance(n, ast.Assign)
                            else [n.target]))]
    if not attach:
        raise AnalysisError(f"{rule}: the label is never attached")
    for a in attach:
        v = norm.expand(we, a.value)
        inner = v
        ok = False
        if isinstance(v, ast.Call) and ctx.is_call(we, a.value if isinstance(
                a.value, ast.Call) else v, "copy.deepcopy") and len(v.args) == 1:
            inner = v.args[0]
            ok = True
        elif isinstance(v, ast.Call) and (dotted(v.func) or "").endswith(
                "deepcopy") and len(v.args) == 1:
            inner = v.args[0]
            ok = True
        elif isinstance(v, ast.Name):
            ok = True
        ok = ok and dotted(inner) == "custom_metadata"
        rep.ob(rule, ok, loc=we.loc(a), where=we.qualname, construct=short(a, 90),
               message="stored label == caller's label (deepcopy), so equal "
               "labels compare equal at the next write")


# ---------------------------------------------------------------------------
# Lower bounds of small integer expressions (for "this buffer is never empty")
POSITIVE_PARAMS = {"file_parallelism": 1}   # reader count: meaningful only >= 1


def lower_bound(fn: FunctionInfo, e: ast.AST, depth: int = 0):
    """A lower bound of the integer expression `e` (None: unknown), with
    single-definition locals expanded and the parameters of POSITIVE_PARAMS
    at their minimum."""
    from sa import norm
    if depth == 0:
        e = norm.expand(fn, e)
    if isinstance(e, ast.Constant) and type(e.value) is int:
        return e.value
    if isinstance(e, ast.Name):
        return POSITIVE_PARAMS.get(e.id)
    if isinstance(e, ast.Attribute) and isinstance(e.value, ast.Name) and \
            e.value.id == "self":
        return POSITIVE_PARAMS.get(e.attr.lstrip("_"))   # field of the param
    if isinstance(e, ast.Call) and isinstance(e.func, ast.Name) and \
            not e.keywords and e.args:
        lbs = [lower_bound(fn, a, depth + 1) for a in e.args]
        if e.func.id == "max" and len(e.args) >= 2:
            known = [b for b in lbs if b is not None]
            return max(known) if known else None
        if e.func.id == "min" and len(e.args) >= 2:
            return None if None in lbs else min(lbs)
        if e.func.id == "len":
            return 0
        if e.func.id == "int" and len(e.args) == 1:
            return lbs[0]
    if isinstance(e, ast.BoolOp) and isinstance(e.op, ast.Or):
        # `x or k`: x when truthy (non-zero), else k
        lbs = [lower_bound(fn, v, depth + 1) for v in e.values]
        if None in lbs:
            return lbs[-1] if lbs[-1] is not None and lbs[-1] >= 1 and all(
                b is None or b >= 0 for b in lbs) else None
        return min(max(b, 1) if i < len(lbs) - 1 else b
                   for i, b in enumerate(lbs)) if all(
                       b >= 0 for b in lbs) else min(lbs)
    if isinstance(e, ast.BinOp):
        a = lower_bound(fn, e.left, depth + 1)
        b = lower_bound(fn, e.right, depth + 1)
        if isinstance(e.op, ast.Add) and a is not None and b is not None:
            return a + b
        if isinstance(e.op, ast.Mult) and a is not None and b is not None \
                and a >= 0 and b >= 0:
            return a * b
        if isinstance(e.op, ast.Sub) and a is not None and isinstance(
                e.right, ast.Constant) and type(e.right.value) is int:
            return a - e.right.value
        if isinstance(e.op, (ast.FloorDiv, ast.RShift)) and a is not None \
                and isinstance(e.right, ast.Constant) and \
                type(e.right.value) is int and e.right.value > 0 and a >= 0:
            return a // e.right.value if isinstance(e.op, ast.FloorDiv) \
                else a >> e.right.value
    if isinstance(e, ast.IfExp):
        a = lower_bound(fn, e.body, depth + 1)
        b = lower_bound(fn, e.orelse, depth + 1)
        return None if a is None or b is None else min(a, b)
    return None


def check_interleave_nonempty(ctx: Context, rep, rule: str) -> None:
    """round_robin[_async] with an empty buffer yields nothing at all (its
    `while buffer` loop never runs and the source is never pulled): every
    call site passes a buffer size whose lower bound is >= 1."""
    rep.rule(
        rule,
        "every call of round_robin / round_robin_async passes a buffer size "
        "with lower bound >= 1 (constants, max/min, +, *, //, `or`, "
        "file_parallelism >= 1 evaluated as an interval lower bound): with "
        "an empty buffer the interleaving yields nothing and drops the pass")
    n = 0
    for fn in ctx.repo.all_functions():
        for c in fn.calls():
            if not ctx.is_call(fn, c, "itertools.round_robin",
                               "itertools.round_robin_async"):
                continue
            a = ctx.arg(c, 1, "buffer_size")
            n += 1
            if a is None:
                continue   # the callee's default (a positive constant)
            lb = lower_bound(fn, a)
            if lb is None:
                rep.info(rule, f"{fn.loc(c)}: buffer size {short(a, 40)} has "
                         "no static lower bound (not decided)")
                continue
            rep.ob(rule, lb >= 1, loc=fn.loc(c), where=fn.qualname,
                   construct=f"round_robin(buffer_size={short(a, 40)})",
                   message=f"buffer size may be {lb}: the interleaving would "
                   "yield nothing")
    rep.floor(rule, n, 2, "round_robin call sites")


# ---------------------------------------------------------------------------
# One-shot iterators are consumed once
LAZY_MAKERS = {"filter", "map", "zip", "iter", "reversed", "enumerate"}
EXHAUSTERS = {"list", "set", "tuple", "sorted", "sum", "dict", "frozenset",
              "max", "min", "any", "all", "len", "Counter", "deque"}


def one_shot_reuse(ctx: Context, fn: FunctionInfo) -> list[tuple]:
    """(first consumer, later consumer, name) for every single-definition
    local bound to a one-shot iterator (filter/map/zip/iter/... or a generator
    expression) that is exhausted (list(), set(), comprehension, sorted, ...)
    and then consumed again on some path."""
    from sa.model import parent as _parent
    from sa.valuation import single_defs
    defs = single_defs(fn)
    lazy = {}
    for name, val in defs.items():
        if isinstance(val, ast.GeneratorExp) or (
                isinstance(val, ast.Call) and isinstance(val.func, ast.Name)
                and val.func.id in LAZY_MAKERS):
            lazy[name] = val
    if not lazy:
        return []
    cfg = ctx.cfg(fn)

    def node_of(e):
        best = None
        for n in cfg.nodes:
            if n.ast is not None and n.kind in ("stmt", "test", "call") and any(
                    x is e for x in ast.walk(n.ast)):
                if best is None or sum(1 for _ in ast.walk(n.ast)) < sum(
                        1 for _ in ast.walk(best.ast)):
                    best = n
        return best

    out = []
    for name in lazy:
        uses = []   # (node, exhausting?, expr)
        for x in fn.body_nodes():
            if not (isinstance(x, ast.Name) and x.id == name and
                    isinstance(x.ctx, ast.Load)):
                continue
            p = _parent(x)
            kind = None
            if isinstance(p, ast.Call) and x in p.args and isinstance(
                    p.func, ast.Name):
                if p.func.id in EXHAUSTERS:
                    kind = "exhaust"
                elif p.func.id == "next":
                    kind = None          # explicit pull protocol
                elif p.func.id in LAZY_MAKERS:
                    kind = None          # wrapped, still lazy (not tracked)
                else:
                    kind = "partial"
            elif isinstance(p, ast.comprehension) and p.iter is x:
                gp = _parent(p)
                kind = "partial" if isinstance(gp, ast.GeneratorExp) else \
                    "exhaust"
            elif isinstance(p, (ast.For, ast.AsyncFor)) and p.iter is x:
                has_break = any(isinstance(b, (ast.Break, ast.Return))
                                for s in p.body for b in ast.walk(s))
                kind = "partial" if has_break else "exhaust"
            elif isinstance(p, (ast.YieldFrom, ast.Starred)):
                kind = "exhaust"
            if kind is None:
                continue
            n = node_of(x)
            if n is not None:
                uses.append((n, kind, x))
        for n1, k1, x1 in uses:
            if k1 != "exhaust":
                continue
            after = cfg.reachable([n1], strict=True,
                                  follow=lambda a, b, lab: lab != "exc")
            for n2, _k2, x2 in uses:
                if x2 is not x1 and n2 is not n1 and n2 in after:
                    out.append((x1, x2, name))
    return out


def check_one_shot(ctx: Context, rep, rule: str, modules: tuple[str, ...]) -> None:
    rep.rule(
        rule,
        "a local bound to a one-shot iterator (filter / map / zip / iter / "
        "generator expression) is not consumed again after something "
        "exhausted it (list, set, sorted, a comprehension, a for loop "
        "without break): the later consumer would see an empty stream")
    n = 0
    for fn in ctx.repo.all_functions():
        if not fn.module.name.startswith(modules) or isinstance(
                fn.node, ast.Lambda):
            continue
        n += 1
        for x1, x2, name in one_shot_reuse(ctx, fn):
            rep.ob(rule, False, loc=fn.loc(x2), where=fn.qualname,
                   construct=f"`{name}` exhausted at L{x1.lineno}, consumed "
                   f"again at L{x2.lineno}",
                   message="one-shot iterator consumed twice on one path")
    rep.ob(rule, n > 0, loc="src/sedpack/io/dataset_iteration.py:1",
           where="sedpack.io", construct=f"{n} function(s) scanned",
           message="functions scanned for one-shot iterator reuse")


# ---------------------------------------------------------------------------
def check_exit_publishes(ctx: Context, rep, rule: str) -> None:
    """DatasetFiller.__exit__ closes the open shards, writes the lists and
    (auto-update) publishes them into the dataset whether or not the block
    raised: what was accepted before an exception stays reachable."""
    rep.rule(
        rule,
        "DatasetFiller.__exit__: with auto-update on, every normal path to "
        "the exit passes the calls reaching close_shard (inside the loop over "
        "open shards), ShardsList.write_config and Dataset.write_config, "
        "for exc_type None AND for exc_type set (CFG specialised on both)")
    DFm = "sedpack.io.dataset_filler"
    ex = ctx.fn(f"{DFm}:DatasetFiller.__exit__")
    exc_param = [a.arg for a in ex.node.args.args][1] if len(
        ex.node.args.args) > 1 else "exc_type"
    for label, val in (("no exception", None), ("block raised", TRUTHY)):
        cfg = CFG(ex, env={"self._auto_update_dataset": True,
                           exc_param: val})
        follow = lambda a, b, lab: lab not in ("exc", "raise")  # noqa: E731
        pub = cfg.calls(lambda c: any(
            t.qualname.endswith("write_config") and
            t.module.name.endswith(("dataset_writing", "dataset"))
            for t in ctx.internal_targets(ex, c)) or (
                isinstance(c.func, ast.Attribute) and
                c.func.attr == "write_config" and
                (dotted(c.func.value) or "").endswith("_dataset")))
        lists = cfg.calls(lambda c: isinstance(c.func, ast.Attribute) and
                          c.func.attr == "write_config" and c not in
                          [p.ast for p in pub])
        for what, sites in (("Dataset.write_config", pub),
                            ("ShardsList.write_config", lists)):
            if what.startswith("Shards"):
                # sits in a comprehension / loop over the lists: present and
                # its statement on every path
                heads = [n for n in cfg.nodes if n.kind == "for" and
                         n.ast is not None and any(
                             x is s.ast for s in sites for x in ast.walk(n.ast))]
                blockers = heads or sites
            else:
                blockers = sites
            skipped = (not blockers) or cfg.exit in cfg.reachable(
                [cfg.entry], avoiding=blockers, follow=follow)
            rep.ob(rule, not skipped, loc=ex.loc(blockers[0].ast)
                   if blockers else ex.loc(), where=ex.qualname,
                   construct=f"{label}: {what} on every path",
                   message="leaving the filler publishes what was written, "
                   "also when the block raised (accepted examples must not be "
                   "lost with a rejected one)",
                   path=cfg.describe_path(cfg.path_to(cfg.exit,
                                                      avoiding=blockers))
                   if skipped and blockers else "")


# ---------------------------------------------------------------------------
def share_rules(ctx: Context, rep, module_name: str,
                mapping: dict[str, str]) -> None:
    """Run another property's rule module once (cached on the context) and
    re-emit the obligations of the selected rules under this property's rule
    names: the same structural check, claimed as a necessary condition of a
    second property. Discharged obligations are copied as such."""
    import importlib
    from sa.report import Report
    # a module that is itself being run for somebody's share does not pull
    # in further shares (no cycles; shares of shares are not claimed)
    if ctx.__dict__.get("_share_depth", 0) > 0:
        return
    cache = ctx.__dict__.setdefault("_shared_reports", {})
    sub = cache.get(module_name)
    if sub is None:
        mod = importlib.import_module(f"sa.rules.{module_name}")
        sub = Report(module_name.upper(), "selftest")
        ctx.__dict__["_share_depth"] = ctx.__dict__.get("_share_depth", 0) + 1
        try:
            mod.run(ctx, sub)
        except AnalysisError as e:
            sub.notes.append(f"analysis error: {e}")
            sub.__dict__["_error"] = str(e)
        finally:
            ctx.__dict__["_share_depth"] -= 1
        cache[module_name] = sub
    msgs = {(v.rule, v.loc, v.construct): v for v in sub.violations}
    for src, dst in mapping.items():
        if src in sub.explanation:
            rep.rule(dst, f"(same check as {src}) " + sub.explanation[src])
        n = 0
        for inst in sub.instances:
            if inst["rule"] != src:
                continue
            n += 1
            v = msgs.get((src, inst["loc"], inst["construct"]))
            ok = inst["status"] == "discharged"
            rep.ob(dst, ok, loc=inst["loc"], where=inst["where"],
                   construct=inst["construct"],
                   message=v.message if v is not None else
                   f"obligation of {src}", path=v.path if v is not None else "")
        if n == 0:
            err = sub.__dict__.get("_error")
            # fail closed, but only after this property's own rules had their
            # say (report.run_rules raises it when no violation was found)
            rep.__dict__.setdefault("_deferred_errors", []).append(
                f"{dst}: shared rule {src} produced no obligation" +
                (f" ({err})" if err else ""))


# ---------------------------------------------------------------------------
def check_bounded_buffers(ctx: Context, rep, rule: str) -> None:
    """Read-ahead outside the lazy pool's own protocol is bounded: a queue or
    deque created in the iteration modules has a capacity whose lower bound
    is >= 1 (maxsize <= 0 means unbounded for queue / asyncio queues)."""
    rep.rule(
        rule,
        "every queue.Queue / asyncio.Queue / collections.deque constructed "
        "in dataset_iteration.py and itertools.py has a capacity argument "
        "with interval lower bound >= 1 (file_parallelism >= 1); none exists "
        "on the unchanged tree (the zero is part of the claim: a positive "
        "example is kept in the self-tests)")
    mods = ("sedpack.io.dataset_iteration", "sedpack.io.itertools.itertools")
    n = 0
    for fn in ctx.repo.all_functions():
        if fn.module.name not in mods:
            continue
        for c in fn.calls():
            nm = (dotted(c.func) or "").rsplit(".", 1)[-1]
            names = ctx.names(fn, c)
            is_q = nm in ("Queue", "LifoQueue", "PriorityQueue", "SimpleQueue",
                          "deque") and any(
                              x.startswith(("queue.", "asyncio.", "collections.",
                                            "multiprocessing."))
                              for x in names)
            if not is_q:
                continue
            n += 1
            size = ctx.arg(c, 1 if nm == "deque" else 0,
                           "maxlen" if nm == "deque" else "maxsize")
            lb = lower_bound(fn, size) if size is not None else None
            rep.ob(rule, lb is not None and lb >= 1, loc=fn.loc(c),
                   where=fn.qualname, construct=short(c, 70),
                   message="a hand-over buffer on the read path needs a "
                   f"positive capacity (lower bound here: {lb}; 0 or less "
                   "means unbounded read-ahead)")
    rep.info(rule, f"{n} buffer construction(s) in the iteration modules")


# ---------------------------------------------------------------------------
PURE_CALLS = {"isinstance", "issubclass", "len", "all", "any", "callable",
              "hasattr", "getattr", "min", "max", "sum", "sorted", "tuple",
              "list", "set", "frozenset", "dict", "str", "int", "float", "bool",
              "type", "abs", "repr", "id", "range", "zip", "enumerate", "Path"}
PURE_METHODS = {"startswith", "endswith", "keys", "values", "items", "get",
                "is_file", "is_dir", "exists", "is_absolute", "is_relative_to",
                "count", "index", "lower", "upper", "strip", "split", "join",
                "resolve", "isdigit", "issubset", "issuperset", "isdisjoint",
                "copy", "cache_info"}


def _returns_literal(fn: FunctionInfo, ctx: Context | None = None,
                    depth: int = 0) -> bool:
    """A function without effects of its own: abstract / empty, or a single
    `return` of a literal expression (calls only to functions of the same
    kind)."""
    if isinstance(fn.node, ast.Lambda) or depth > 3:
        return False
    body = [s for s in fn.node.body if not (isinstance(s, ast.Expr) and
                                            isinstance(s.value, ast.Constant))]
    body = [s for s in body if not isinstance(s, ast.Pass)]
    if not body:
        return True
    if len(body) == 1 and isinstance(body[0], ast.Raise):
        return True
    if len(body) != 1 or not isinstance(body[0], ast.Return) or \
            body[0].value is None:
        return False
    for x in ast.walk(body[0].value):
        if isinstance(x, ast.Call):
            if isinstance(x.func, ast.Name) and x.func.id in PURE_CALLS:
                continue
            tg = ctx.internal_targets(fn, x) if ctx is not None else []
            if not tg or not all(_returns_literal(t, ctx, depth + 1)
                                 for t in tg):
                return False
        elif isinstance(x, (ast.Await, ast.Yield, ast.YieldFrom, ast.NamedExpr,
                            ast.Lambda)):
            return False
    return True


def check_assert_pure(ctx: Context, rep, rule: str,
                      modules: tuple[str, ...] = ("sedpack.io", )) -> None:
    """`assert` statements disappear under `python -O`: an assert whose
    condition or message performs work the program relies on (enters a
    context, pulls from an iterator, sends, pops, writes, closes ...) makes
    the behaviour depend on the interpreter flags."""
    rep.rule(
        rule,
        "no assert statement of sedpack.io contains a call other than the "
        "frozen list of pure builtins / query methods (asserts vanish under "
        "python -O; a call that the program needs must not live in one)")
    n = 0
    for fn in ctx.repo.all_functions():
        if not fn.module.name.startswith(modules) or \
                "flatbuffer.shardfile" in fn.module.name:
            continue
        for a in fn.body_nodes():
            if not isinstance(a, ast.Assert):
                continue
            n += 1
            bad = []
            for x in ast.walk(a):
                if isinstance(x, (ast.NamedExpr, ast.Await, ast.Yield,
                                  ast.YieldFrom)):
                    bad.append(x)
                if not isinstance(x, ast.Call):
                    continue
                f = x.func
                name = f.id if isinstance(f, ast.Name) else (
                    f.attr if isinstance(f, ast.Attribute) else None)
                pure = (isinstance(f, ast.Name) and name in PURE_CALLS) or (
                    isinstance(f, ast.Attribute) and name in PURE_METHODS)
                if not pure:
                    # an internal function that only returns a literal value
                    tg = ctx.internal_targets(fn, x)
                    if tg and all(_returns_literal(t, ctx) for t in tg):
                        pure = True
                if not pure:
                    bad.append(x)
            rep.ob(rule, not bad, loc=fn.loc(a), where=fn.qualname,
                   construct=short(a, 80) if bad else "assert without effects",
                   message="an assert performs work that is needed when "
                   "assertions are disabled: " + (short(bad[0], 50) if bad
                                                  else ""), sample=False)
    rep.info(rule, f"{n} assert statement(s) inspected")


# ---------------------------------------------------------------------------
LOG_METHODS = {"debug", "info", "warning", "warn", "error", "exception",
               "critical", "log"}
CONSUMERS = {"next", "list", "tuple", "set", "sorted", "sum", "max", "min",
             "any", "all", "dict", "frozenset", "deque", "Counter"}
WRAPPERS = {"islice", "iter", "enumerate", "zip", "map", "filter", "chain",
            "takewhile", "dropwhile", "reversed"}


def check_log_args_pure(ctx: Context, rep, rule: str) -> None:
    """Diagnostics do not eat data: an argument of a logging call (or print)
    must not pull from a stream that the function goes on to use."""
    from sa.valuation import single_defs
    rep.rule(
        rule,
        "no argument of a logging / print call in sedpack.io applies a "
        "consumer (next, list, sum, a comprehension ...; through islice / "
        "iter / zip wrappers) to a variable that is not provably a concrete "
        "collection (bound once to a display, a comprehension or list / "
        "sorted / tuple / set / dict of something): previewing a one-shot "
        "iterator in a log line removes the previewed items from the stream")
    n = 0
    for fn in ctx.repo.all_functions():
        if not fn.module.name.startswith("sedpack.io") or isinstance(
                fn.node, ast.Lambda):
            continue
        defs = None

        def concrete(name: str) -> bool:
            nonlocal defs
            if defs is None:
                defs = single_defs(fn)
            v = defs.get(name)
            if v is None:
                return False
            if isinstance(v, (ast.List, ast.Tuple, ast.Set, ast.Dict,
                              ast.ListComp, ast.SetComp, ast.DictComp,
                              ast.Constant, ast.JoinedStr)):
                return True
            return isinstance(v, ast.Call) and isinstance(
                v.func, ast.Name) and v.func.id in (
                    "list", "sorted", "tuple", "set", "dict", "frozenset",
                    "len", "str", "int")

        def operand_names(e) -> list[str]:
            """Names a consumer's operand pulls from (through wrappers)."""
            if isinstance(e, ast.Name):
                return [e.id]
            if isinstance(e, ast.Call):
                nm = (dotted(e.func) or "").rsplit(".", 1)[-1]
                if nm in WRAPPERS and e.args:
                    out = []
                    for a in e.args[:1] if nm in ("islice", "iter",
                                                  "enumerate", "reversed") \
                            else e.args:
                        out += operand_names(a)
                    return out
            if isinstance(e, (ast.GeneratorExp, ast.ListComp, ast.SetComp,
                              ast.DictComp)):
                out = []
                for g in e.generators:
                    out += operand_names(g.iter)
                return out
            return []

        for c in fn.calls():
            f = c.func
            is_log = (isinstance(f, ast.Attribute) and f.attr in LOG_METHODS
                      and "log" in (dotted(f.value) or "").lower()) or (
                          isinstance(f, ast.Name) and f.id == "print")
            if not is_log:
                continue
            n += 1
            bad = []
            for a in list(c.args) + [k.value for k in c.keywords]:
                for x in ast.walk(a):
                    names: list[str] = []
                    if isinstance(x, ast.Call):
                        nm = (dotted(x.func) or "").rsplit(".", 1)[-1]
                        if nm in CONSUMERS and x.args:
                            names = operand_names(x.args[0])
                        elif isinstance(x.func, ast.Attribute) and \
                                x.func.attr in ("pop", "popleft", "get_nowait",
                                                "__next__", "send", "read",
                                                "readline"):
                            names = operand_names(x.func.value)
                    elif isinstance(x, (ast.ListComp, ast.SetComp,
                                        ast.DictComp, ast.GeneratorExp)):
                        names = operand_names(x)
                    bad += [(x, nm_) for nm_ in names if not concrete(nm_)]
            rep.ob(rule, not bad, loc=fn.loc(c), where=fn.qualname,
                   construct=(f"log argument consumes `{bad[0][1]}`: " +
                              short(bad[0][0], 50)) if bad else short(c, 60),
                   message="a diagnostic pulls items out of a stream the "
                   "function still needs", sample=False)
    rep.info(rule, f"{n} logging call(s) inspected")


# ---------------------------------------------------------------------------
def check_no_shared_class_state(ctx: Context, rep, rule: str) -> None:
    """A mutable container bound in a class body is one object shared by all
    instances; pydantic models copy their defaults, plain classes do not."""
    rep.rule(
        rule,
        "no plain (non-pydantic, non-dataclass-field) class of sedpack.io "
        "binds a mutable container ({} / [] / set() / dict() / list() / "
        "defaultdict(..) / deque()) in its class body that its methods then "
        "mutate through self: two live instances (two open shards, two "
        "pools) would share it")
    n = 0
    for mod in ctx.repo.hand_written():
        if not mod.name.startswith("sedpack.io") or \
                "flatbuffer.shardfile" in mod.name:
            continue
        for ci in mod.classes.values():
            bases = {(dotted(b) or "").rsplit(".", 1)[-1]
                     for b in ci.node.bases}
            if "BaseModel" in bases or any(
                    "BaseModel" in (dotted(b) or "") for c2 in ctx.repo.mro(ci)
                    for b in c2.node.bases):
                continue
            n += 1
            for st in ci.node.body:
                t = v = None
                if isinstance(st, ast.Assign) and len(st.targets) == 1 and \
                        isinstance(st.targets[0], ast.Name):
                    t, v = st.targets[0].id, st.value
                elif isinstance(st, ast.AnnAssign) and isinstance(
                        st.target, ast.Name) and st.value is not None:
                    t, v = st.target.id, st.value
                if t is None:
                    continue
                mutable = isinstance(v, (ast.Dict, ast.List, ast.Set,
                                         ast.ListComp, ast.DictComp,
                                         ast.SetComp)) or (
                    isinstance(v, ast.Call) and (dotted(v.func) or "").rsplit(
                        ".", 1)[-1] in ("dict", "list", "set", "defaultdict",
                                        "deque", "OrderedDict", "Counter",
                                        "bytearray"))
                if not mutable:
                    continue
                # rebound per instance in __init__ ? then the class value is
                # only a default nobody mutates
                init = ci.methods.get("__init__")
                rebound = init is not None and any(
                    isinstance(x, ast.Attribute) and x.attr == t and
                    isinstance(x.ctx, ast.Store) and dotted(x.value) == "self"
                    for x in ast.walk(init.node))
                mutated = any(
                    (isinstance(x, ast.Call) and isinstance(
                        x.func, ast.Attribute) and x.func.attr in (
                            "append", "extend", "add", "update", "clear",
                            "pop", "setdefault", "insert", "remove",
                            "appendleft", "popleft") and dotted(
                                x.func.value) in (f"self.{t}", f"cls.{t}")) or
                    (isinstance(x, ast.Subscript) and isinstance(
                        x.ctx, (ast.Store, ast.Del)) and dotted(x.value) in (
                            f"self.{t}", f"cls.{t}"))
                    for m in ci.methods.values() for x in ast.walk(m.node))
                rep.ob(rule, rebound or not mutated,
                       loc=f"{mod.relpath}:{st.lineno}", where=ci.name,
                       construct=short(st, 60),
                       message="class-level mutable container mutated "
                       "through self: shared by every instance")
    rep.info(rule, f"{n} plain class(es) inspected")


# ---------------------------------------------------------------------------
def check_background_results(ctx: Context, rep, rule: str) -> None:
    """Work handed to a background executor / task on the read path reports
    its failure to the consumer: a Future's exception is only re-raised by
    result() / iteration of executor.map in the consumer (inside an
    add_done_callback it is merely logged), an asyncio task's exception only
    by awaiting the task."""
    rep.rule(
        rule,
        "in sedpack.io: no Future.add_done_callback; every "
        "asyncio.create_task / ensure_future result is awaited (or gathered) "
        "on a normal path of the function that created it - cancelling it in "
        "a finally clause is not enough")
    n = 0
    for fn in ctx.repo.all_functions():
        if not fn.module.name.startswith("sedpack.io") or isinstance(
                fn.node, ast.Lambda):
            continue
        for c in fn.calls():
            f = c.func
            if isinstance(f, ast.Attribute) and f.attr == "add_done_callback":
                n += 1
                rep.ob(rule, False, loc=fn.loc(c), where=fn.qualname,
                       construct=short(c, 60),
                       message="a failure raised inside a done-callback is "
                       "only logged by concurrent.futures: the consumer never "
                       "sees it")
            nm = (dotted(f) or "").rsplit(".", 1)[-1]
            if nm in ("create_task", "ensure_future"):
                n += 1
                from sa.model import parent as _par
                p = _par(c)
                tgt = None
                if isinstance(p, ast.Assign) and len(p.targets) == 1 and \
                        isinstance(p.targets[0], ast.Name):
                    tgt = p.targets[0].id
                elif isinstance(p, ast.AnnAssign) and isinstance(
                        p.target, ast.Name):
                    tgt = p.target.id
                awaited = isinstance(p, ast.Await)
                if tgt is not None:
                    for x in fn.body_nodes():
                        if isinstance(x, ast.Await) and any(
                                isinstance(y, ast.Name) and y.id == tgt
                                for y in ast.walk(x.value)):
                            # not only inside a finally / except block
                            from sa.model import ancestors as _anc
                            in_cleanup = any(
                                isinstance(a, ast.Try) and (any(
                                    x in ast.walk(s) for s in a.finalbody) or
                                    any(x in ast.walk(s) for h in a.handlers
                                        for s in h.body))
                                for a in _anc(x))
                            if not in_cleanup:
                                awaited = True
                rep.ob(rule, awaited, loc=fn.loc(c), where=fn.qualname,
                       construct=short(c, 60),
                       message="the background task is never awaited on the "
                       "normal path: an exception raised in it is lost and "
                       "the stream ends as if complete")
    rep.info(rule, f"{n} background hand-over site(s) inspected")
