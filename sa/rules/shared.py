"""Cross-cutting rules that are necessary conditions of several properties
(each property's module calls them under its own rule id)."""
from __future__ import annotations

import ast

from sa.cfg import CFG, TRUTHY
from sa.context import Context
from sa.model import AnalysisError, FunctionInfo, dotted, short
from sa.rules import common as C

MEMO_DECORATORS = ("lru_cache", "cache", "cached_property", "memoize",
                   "memoized", "cachedmethod", "alru_cache")


# ---------------------------------------------------------------------------
def check_exit_propagates(ctx: Context, rep, rule: str,
                          modules: tuple[str, ...] | None = None,
                          floor: int = 3) -> None:
    """No context manager of the package swallows an exception: evaluated
    with "an exception is in flight" (all three parameters truthy), every
    reachable return of __exit__ / __aexit__ is None / False."""
    rep.rule(
        rule,
        "every __exit__ / __aexit__ of the package, specialised on 'an "
        "exception is in flight', returns only None / False (or raises): a "
        "truthy return suppresses the error of the with-block, turning a "
        "failed pass into a normal end")
    n = 0
    for fn in ctx.repo.all_functions():
        if fn.name not in ("__exit__", "__aexit__") or fn.cls is None:
            continue
        if modules is not None and fn.module.name not in modules:
            continue
        n += 1
        params = fn.params()[1:4]
        cfg = CFG(fn, env={p: TRUTHY for p in params})
        live = cfg.reachable([cfg.entry], follow=lambda a, b, lab: lab != "exc")
        bad = []
        for node in cfg.nodes:
            if node in live and node.kind == "stmt" and isinstance(
                    node.ast, ast.Return) and node.ast.value is not None:
                v = node.ast.value
                if isinstance(v, ast.Constant) and not v.value:
                    continue
                bad.append(node.ast)
        rep.ob(rule, not bad, loc=fn.loc(bad[0]) if bad else fn.loc(),
               where=fn.qualname,
               construct=short(bad[0]) if bad else
               "returns None/False or raises while an exception is in flight",
               message="an exception leaving the with-block must propagate" + (
                   "; this return value may be truthy" if bad else ""))
    rep.floor(rule, n, floor, "context managers")


# ---------------------------------------------------------------------------
def reads_files(ctx: Context, fn: FunctionInfo, depth: int = 3,
                seen: set | None = None) -> bool:
    seen = seen if seen is not None else set()
    if fn.fq in seen:
        return False
    seen.add(fn.fq)
    for c in fn.calls():
        if "FS_READ" in ctx.effects(fn, c):
            return True
        if depth > 0:
            for t in ctx.internal_targets(fn, c):
                if reads_files(ctx, t, depth - 1, seen):
                    return True
    return False


def check_no_memo(ctx: Context, rep, rule: str) -> None:
    """Nothing derived from the files of a dataset is memoised: a dataset is
    legitimately rewritten (continued writing, merges) between two reads."""
    rep.rule(
        rule,
        "no function of sedpack.io that (transitively, depth 3) reads files "
        "is memoised (functools.lru_cache / cache / cached_property ...): "
        "shard lists, shard files and the description change between two "
        "reads of the same path, and a cache keyed by path (or by a recorded "
        "checksum that may be empty) serves a stale version")
    n = 0
    for fn in ctx.repo.all_functions():
        if not fn.module.name.startswith("sedpack.io") or isinstance(
                fn.node, ast.Lambda):
            continue
        decos = [d for d in fn.decorators
                 if d.rsplit(".", 1)[-1].split("(")[0] in MEMO_DECORATORS]
        if not decos:
            continue
        n += 1
        bad = reads_files(ctx, fn)
        rep.ob(rule, not bad, loc=fn.loc(), where=fn.qualname,
               construct=f"@{decos[0]} on a function that reads files"
               if bad else f"@{decos[0]} (pure)",
               message="results derived from dataset files must be "
               "recomputed on every call")
    rep.info(rule, f"{n} memoised function(s) inspected")


# ---------------------------------------------------------------------------
def check_unbounded_queues(ctx: Context, rep, rule: str, module: str) -> None:
    rep.rule(
        rule,
        "the hand-over queues of the lazy pool are unbounded (queue.Queue() "
        "without maxsize): after an early exit nobody drains the results "
        "queue, so a worker blocked on a full queue could never see its stop "
        "sentinel")
    mod = ctx.repo.module(module)
    n = 0
    for fn in mod.functions.values():
        for c in fn.calls():
            names = ctx.names(fn, c)
            if any(x in ("queue.Queue", "queue.SimpleQueue", "queue.LifoQueue",
                         "queue.PriorityQueue", "multiprocessing.Queue")
                   for x in names):
                n += 1
                size = ctx.arg(c, 0, "maxsize")
                ok = size is None or (isinstance(size, ast.Constant) and
                                      size.value in (0, None))
                kind_ok = any(x in ("queue.Queue", "queue.SimpleQueue")
                              for x in names)
                rep.ob(rule, ok and kind_ok, loc=fn.loc(c), where=fn.qualname,
                       construct=short(c),
                       message="FIFO queue without capacity limit")
    rep.floor(rule, n, 2, "queue constructions")


# ---------------------------------------------------------------------------
def check_expanduser_guarded(ctx: Context, rep, rule: str) -> None:
    rep.rule(
        rule,
        "every Path.expanduser() of the package is guarded against "
        "RuntimeError (a directory literally named `~name` is a legal "
        "location of a moved dataset; expanduser raises for an unknown user)")
    from sa.model import ancestors
    n = 0
    for fn in ctx.repo.all_functions():
        if not fn.module.name.startswith("sedpack"):
            continue
        for c in fn.calls():
            if isinstance(c.func, ast.Attribute) and c.func.attr == "expanduser":
                n += 1
                ok = False
                for a in ancestors(c):
                    if isinstance(a, ast.Try) and any(
                            c is x for s in a.body for x in ast.walk(s)):
                        names = {dotted(h.type) if h.type is not None else
                                 "BaseException" for h in a.handlers}
                        for h in a.handlers:
                            if isinstance(h.type, ast.Tuple):
                                names |= {dotted(e) for e in h.type.elts}
                        if names & {"RuntimeError", "Exception",
                                    "BaseException"}:
                            ok = True
                    if isinstance(a, (ast.With, ast.AsyncWith)):
                        for it in a.items:
                            ce = it.context_expr
                            if isinstance(ce, ast.Call) and (dotted(
                                    ce.func) or "").endswith("suppress") and \
                                    any(dotted(x) in ("RuntimeError",
                                                      "Exception")
                                        for x in ce.args):
                                ok = True
                rep.ob(rule, ok, loc=fn.loc(c), where=fn.qualname,
                       construct=short(c, 60),
                       message="expanduser() must not be able to abort "
                       "opening a dataset")
    rep.floor(rule, n, 1, "expanduser sites")


# ---------------------------------------------------------------------------
def check_not_reachable(ctx: Context, rep, rule: str, entries: list[str],
                        forbidden: list[str], what: str,
                        stop: tuple[str, ...] = ()) -> None:
    """Call-graph rule: none of `forbidden` is reachable from `entries`."""
    cg = ctx.cg
    targets = {ctx.fn(f).fq for f in forbidden}
    for e in entries:
        fn = ctx.fn(e)
        seen = {fn.fq}
        work = [(fn.fq, [fn.fq])]
        hit = None
        while work and hit is None:
            cur, path = work.pop()
            for nxt in sorted(cg.callees(cur)):
                if nxt in targets:
                    hit = path + [nxt]
                    break
                if nxt in seen or any(nxt.endswith(s) for s in stop):
                    continue
                seen.add(nxt)
                work.append((nxt, path + [nxt]))
        rep.ob(rule, hit is None, loc=fn.loc(), where=fn.qualname,
               construct=" -> ".join(x.split(":")[-1] for x in hit)
               if hit else f"{len(seen)} functions reachable, none {what}",
               message=f"{fn.qualname} must not reach a function that {what}",
               path=" -> ".join(hit) if hit else "")


# ---------------------------------------------------------------------------
def check_fresh_pass(ctx: Context, rep, rule: str) -> None:
    """tf.data calls the generator argument of from_generator once per pass
    (per epoch under .repeat()): it must build a new iterator every time."""
    rep.rule(
        rule,
        "every tf.data.Dataset.from_generator in the iteration module gets a "
        "lambda / local function whose body *calls* an iteration interface "
        "(a generator function of the package): each pass over the tf "
        "dataset starts a fresh, complete pass - never a captured generator "
        "object or a shared iterator instance")
    n = 0
    for fn in ctx.repo.module(C.ITER_MOD).functions.values():
        if isinstance(fn.node, ast.Lambda):
            continue
        for c in fn.calls():
            if not (isinstance(c.func, ast.Attribute) and
                    c.func.attr == "from_generator"):
                continue
            n += 1
            g = ctx.arg(c, 0, "generator")
            ok = False
            why = "not a lambda / local function"
            body = None
            if isinstance(g, ast.Lambda) and not (
                    g.args.args or g.args.kwonlyargs or g.args.vararg):
                body = g.body
            elif isinstance(g, ast.Name):
                local = fn.module.functions.get(
                    f"{fn.qualname}.<locals>.{g.id}")
                if local is not None:
                    rets = [x for x in local.body_nodes()
                            if isinstance(x, ast.Return)]
                    if len(rets) == 1 and len(local.node.body) <= 2:
                        body = rets[0].value
                    elif local.is_generator():
                        ok, why = True, "local generator function"
            if body is not None:
                why = "the body is not a call of a generator function of " \
                    "the package"
                if isinstance(body, ast.Call):
                    tg = [t for t in ctx.internal_targets(fn, body)]
                    ok = bool(tg) and all(t.is_generator() for t in tg)
            rep.ob(rule, ok, loc=fn.loc(c), where=fn.qualname,
                   construct=short(g, 80) if g is not None else "<none>",
                   message="the generator argument re-creates the iterator on "
                   "every call" + ("" if ok else f" ({why})"))
    rep.floor(rule, n, 1, "from_generator sites")


# ---------------------------------------------------------------------------
def check_label_copy(ctx: Context, rep, rule: str) -> None:
    """The label stored on the open shard is compared with the caller's next
    label to decide about a rollover: the stored copy must compare equal to
    the value it was copied from (copy.deepcopy does; a JSON round trip turns
    tuples into lists and non-str keys into str, so an unchanged label looks
    changed and every example opens a new shard)."""
    from sa import norm
    rep.rule(
        rule,
        "the custom metadata attached to the open shard is the caller's "
        "value itself or copy.deepcopy of it - an equality-preserving copy - "
        "because the rollover test compares it with the next call's value")
    we = ctx.fn("sedpack.io.dataset_filler:_DatasetFillerContext.write_example")
    attach = [n for n in we.body_nodes()
              if isinstance(n, (ast.Assign, ast.AnnAssign)) and any(
                  isinstance(t, ast.Attribute) and t.attr == "custom_metadata"
                  for t in (n.targets if isinstance(n, ast.Assign)
                            else [n.target]))]
    if not attach:
        raise AnalysisError(f"{rule}: the label is never attached")
    for a in attach:
        v = norm.expand(we, a.value)
        inner = v
        ok = False
        if isinstance(v, ast.Call) and ctx.is_call(we, a.value if isinstance(
                a.value, ast.Call) else v, "copy.deepcopy") and len(v.args) == 1:
            inner = v.args[0]
            ok = True
        elif isinstance(v, ast.Call) and (dotted(v.func) or "").endswith(
                "deepcopy") and len(v.args) == 1:
            inner = v.args[0]
            ok = True
        elif isinstance(v, ast.Name):
            ok = True
        ok = ok and dotted(inner) == "custom_metadata"
        rep.ob(rule, ok, loc=we.loc(a), where=we.qualname, construct=short(a, 90),
               message="stored label == caller's label (deepcopy), so equal "
               "labels compare equal at the next write")
