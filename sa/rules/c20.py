"""C20 - reopen, relocate, version gate."""
from __future__ import annotations

import ast

from sa.cfg import CFG, FALSY, TRUTHY, UNKNOWN
from sa.context import Context, const_str, names_in, raises_in
from sa.dataflow import EMPTY, TagFlow
from sa.model import AnalysisError, ClassInfo, FunctionInfo, dotted, parent, short
from sa.rules.c17 import ROOT_NAMES, is_pydantic_model, path_fields
from sa.rules.common import passed_expr
from sa.valuation import Valuation

BASE = "sedpack.io.dataset_base:DatasetBase"
ABS_METHODS = {"resolve", "absolute", "expanduser", "cwd", "home"}


def return_tags(ctx: Context, callee: FunctionInfo, call: ast.Call,
                arg_tags, depth: int) -> frozenset:
    """Tags of the value returned by `callee` at `call`, specialised on the
    constant arguments of the call (E4)."""
    env = {}
    init = {}
    for p in callee.params():
        e = passed_expr(call, callee, p)
        if e is None:
            d = callee.param_default(p)
            if isinstance(d, ast.Constant):
                env[p] = d.value
            continue
        if isinstance(e, ast.Constant):
            env[p] = e.value
        init[p] = arg_tags(e)
    if callee.cls is not None and not callee.is_static and \
            not callee.is_classmethod and isinstance(call.func, ast.Attribute) \
            and callee.params()[:1] == ["self"]:
        init["self"] = arg_tags(call.func.value)
    # recursion: least fixpoint, starting from "returns nothing tagged"
    if callee.fq in _ACTIVE:
        return _ACTIVE[callee.fq]
    cache = ctx.__dict__.setdefault("_c20_return_tags", {})
    key = (callee.fq, repr(sorted(env.items(), key=repr)),
           repr(sorted((k, sorted(v)) for k, v in init.items())),
           min(depth, 2), repr(sorted((k, sorted(v))
                                      for k, v in _ACTIVE.items())))
    if key in cache:
        return cache[key]
    _ACTIVE[callee.fq] = EMPTY
    try:
        for _ in range(4):
            cfg = CFG(callee, env=env)
            tf = TagFlow(cfg, init, hook=make_hook(ctx, callee, depth + 1))
            out = EMPTY
            live = cfg.live_nodes()
            for n in live:
                if n.kind == "stmt" and isinstance(n.ast, ast.Return) and \
                        n.ast.value is not None:
                    out |= tf.tags_at(n, n.ast.value)
            if out == _ACTIVE[callee.fq]:
                break
            _ACTIVE[callee.fq] = out
    finally:
        del _ACTIVE[callee.fq]
    cache[key] = out
    return out


_ACTIVE: dict[str, frozenset] = {}
CONTENT_READS = {"read_text", "read_bytes", "read", "readline", "readlines",
                 "readinto", "hexdigest", "digest"}


def make_hook(ctx: Context, fn: FunctionInfo, depth: int = 0):
    def hook(e, state, rec):
        d = dotted(e) if isinstance(e, (ast.Name, ast.Attribute)) else None
        if d in ROOT_NAMES:
            return frozenset({"root"})
        if isinstance(e, ast.Call):
            f = e.func
            if isinstance(f, ast.Attribute) and f.attr in ABS_METHODS:
                return frozenset(rec(f.value) | {"absolute"})
            if ctx.is_call(fn, e, "os.getcwd", "os.path.abspath",
                           "os.path.realpath", "tempfile.gettempdir"):
                return frozenset({"absolute"})
            if isinstance(f, ast.Attribute) and f.attr in CONTENT_READS:
                return EMPTY  # the content of a file is not its path
            if ctx.is_call(fn, e, "utils.hash_checksums"):
                return EMPTY  # digests are derived from content only
            targets = [t for t in ctx.internal_targets(fn, e)
                       if not isinstance(t.node, ast.Lambda) and
                       t.name != "__init__"]
            if len(targets) == 1 and (depth < 2 or
                                      targets[0].fq in _ACTIVE):
                return return_tags(ctx, targets[0], e, rec, depth)
        return None
    return hook


def model_classes(ctx: Context) -> dict[str, ClassInfo]:
    return {ci.fq: ci for mod in ctx.repo.hand_written()
            for ci in mod.classes.values() if is_pydantic_model(ctx, ci)}


class VersionVal(Valuation):
    """recorded version is r in {-1,0,1}, the running version is 0;
    Version.parse(x) has the value of x; a.compare(b) = sign(a - b)."""

    def __init__(self, fn, r: int):
        super().__init__(fn, lambda e: None, {})
        self.r = r
        self.roles_seen: set[str] = set()

    def ev(self, e):
        if isinstance(e, ast.Attribute):
            if e.attr == "sedpack_version":
                self.roles_seen.add("recorded")
                return self.r
            if e.attr == "__version__":
                self.roles_seen.add("running")
                return 0
        if isinstance(e, ast.Call) and isinstance(e.func, ast.Attribute):
            if e.func.attr == "parse" and len(e.args) == 1:
                return self.ev(e.args[0])
            if e.func.attr == "compare" and len(e.args) == 1:
                a, b = self.ev(e.func.value), self.ev(e.args[0])
                if isinstance(a, int) and isinstance(b, int):
                    return (a > b) - (a < b)
                return UNKNOWN
        if isinstance(e, ast.Call) and isinstance(e.func, ast.Name) and \
                e.func.id == "str" and len(e.args) == 1:
            return self.ev(e.args[0])
        return super().ev(e)


def check_root_resolved(ctx: Context, rep, rule: str) -> None:
    """The handle's root is resolved (absolute, symbolic links followed) from
    construction on: a relative root would be re-interpreted against the
    working directory of every later call, an unresolved one fails the
    resolved-vs-resolved containment test of the list loader."""
    init = ctx.fn(f"{BASE}.__init__")
    cfg = ctx.cfg(init)

    def target_of(n):
        if isinstance(n, ast.Assign) and len(n.targets) == 1:
            return n.targets[0]
        if isinstance(n, ast.AnnAssign) and n.value is not None:
            return n.target
        return None

    stores = [n for n in cfg.nodes if n.kind == "stmt" and
              target_of(n.ast) is not None and
              dotted(target_of(n.ast)) == "self.path"]
    # the stores whose value is the one the constructed object keeps
    last = [s for s in stores if cfg.exit in cfg.reachable(
        [s], avoiding=[o for o in stores if o is not s],
        follow=lambda a, b, lab: lab not in ("exc", "raise"))]
    unset = cfg.exit in cfg.reachable(
        [cfg.entry], avoiding=stores,
        follow=lambda a, b, lab: lab not in ("exc", "raise"))
    ok = bool(last) and not unset and all(
        isinstance(s.ast.value, ast.Call) and isinstance(
            s.ast.value.func, ast.Attribute) and
        s.ast.value.func.attr == "resolve" and not s.ast.value.args
        for s in last)
    rep.ob(rule, ok, loc=init.loc(last[0].ast) if last else init.loc(),
           where=init.qualname,
           construct="; ".join(short(s.ast, 60) for s in last) or
           "self.path never assigned",
           message="the handle's root is resolved once, at construction: "
           "the value self.path keeps is <path>.resolve() on every path")


def run(ctx: Context, rep) -> None:
    rep.not_decided = (
        "JSON fidelity of arbitrary custom metadata values (pydantic / json "
        "library behaviour); behaviour of a moved copy at run time; semver "
        "parsing of unusual version strings")
    rep.assumptions += [
        "pydantic restores a field omitted by exclude_defaults with the "
        "class's declared default",
        "semver.Version.compare returns -1/0/1",
    ]
    # -- C20.reloc ----------------------------------------------------------------
    rep.rule(
        "C20.reloc",
        "taint: the dataset root (self.path, root parameters/fields) and "
        "results of resolve/absolute/expanduser/cwd/home never reach a Path "
        "field of a persisted model or a parameter that flows into one "
        "(callees specialised on literal flags, so "
        "_get_config_path(self.path, relative=True) is clean)")
    fields = path_fields(ctx)
    field_of = {ci.fq: f for ci, f in fields}
    # summaries: parameters flowing into a persisted path field
    sink_params: dict[str, set[str]] = {}
    funcs = ctx.repo.all_functions()

    def sinks_of(fn: FunctionInfo, call: ast.Call):
        out = []
        for t in ctx.res.resolve_call(fn, call, count=False):
            if t.kind == "class" and t.cls.fq in field_of:
                f = field_of[t.cls.fq]
                e = ctx.arg(call, None, f)
                if e is None and call.args:
                    e = call.args[0] if list(t.cls.fields)[0] == f else None
                if e is not None:
                    out.append((e, f"{t.cls.name}.{f}"))
            if t.kind == "internal" and t.fn is not None:
                for p in sink_params.get(t.fn.fq, ()):
                    e = passed_expr(call, t.fn, p)
                    if e is not None:
                        out.append((e, f"{t.fn.qualname}({p})"))
        return out

    for _ in range(3):
        for fn in funcs:
            cfg = ctx.cfg(fn)
            base = make_hook(ctx, fn)
            tf = TagFlow(cfg, {p: frozenset({"p:" + p}) for p in fn.params()},
                         hook=lambda e, st, rec, base=base: None if isinstance(
                             e, (ast.Name, ast.Attribute)) else base(e, st, rec))
            for node in cfg.calls():
                for e, _label in sinks_of(fn, node.ast):
                    for t in tf.tags_at(node, e):
                        if t.startswith("p:") and t[2:] not in ("self", "cls"):
                            sink_params.setdefault(fn.fq, set()).add(t[2:])
    n = 0
    for fn in funcs:
        cfg = ctx.cfg(fn)
        tf = TagFlow(cfg, {}, hook=make_hook(ctx, fn))
        for node in cfg.calls():
            for e, label in sinks_of(fn, node.ast):
                n += 1
                tags = tf.tags_at(node, e)
                bad = tags & {"root", "absolute"}
                rep.ob("C20.reloc", not bad, loc=fn.loc(node.ast),
                       where=fn.qualname,
                       construct=f"{label} <- {short(e, 70)}",
                       message="a persisted path must be relative to the "
                       "dataset root; this value carries " + (
                           ", ".join(sorted(bad)) if bad else "no root"))
    rep.floor("C20.reloc", n, 6, "instances")
    rep.info("C20.reloc", "parameters flowing into persisted path fields: " +
             "; ".join(f"{k.split(':')[1]}({', '.join(sorted(v))})"
                       for k, v in sorted(sink_params.items())))
    check_root_resolved(ctx, rep, "C20.reloc")

    # -- C20.gate -------------------------------------------------------------------
    rep.rule(
        "C20.gate",
        "in DatasetBase._load the comparison of the recorded with the "
        "running version, evaluated under recorded {<,=,>} running, raises "
        "exactly on recorded > running; its operands are the recorded "
        "sedpack_version field and sedpack.__version__")
    load = ctx.fn(f"{BASE}._load")
    from sa.norm import canon
    gates = [n for n in load.body_nodes() if isinstance(n, ast.If) and
             "sedpack_version" in canon(load, n.test)]
    rep.ob("C20.gate", len(gates) == 1, loc=load.loc(), where=load.qualname,
           construct="if <recorded> newer than <running>: raise",
           message="a version gate exists")
    for g in gates:
        res = {}
        roles: set[str] = set()
        for r in (-1, 0, 1):
            v = VersionVal(load, r)
            t = v.truth(g.test)
            roles |= v.roles_seen
            if t is None:
                res[r] = "unknown"
            else:
                # what the function does under this scenario: the CFG
                # specialised on the gate's truth (either polarity, early
                # return or nested form)
                cfg_v = CFG(load, oracle=lambda e, g=g, t=t: t
                            if e is g.test else None)
                live_v = cfg_v.reachable(
                    [cfg_v.entry], follow=lambda a, b, lab: lab != "exc")
                gate_raises = [n for n in live_v if n.kind == "stmt" and
                               isinstance(n.ast, ast.Raise)]
                res[r] = "load" if cfg_v.exit in live_v and not gate_raises \
                    else ("raise" if gate_raises and cfg_v.exit not in live_v
                          else "mixed")
        rep.ob("C20.gate", res == {-1: "load", 0: "load", 1: "raise"} and
               roles == {"recorded", "running"}, loc=load.loc(g),
               where=load.qualname, construct=short(g.test, 100),
               message=f"older -> {res[-1]}, same -> {res[0]}, newer -> "
               f"{res[1]} (required load/load/raise); operands seen: "
               f"{sorted(roles)}")
    cfg = ctx.cfg(load)
    rets = [n for n in cfg.nodes if n.kind == "stmt" and isinstance(
        n.ast, ast.Return)]
    gate_nodes = [n for n in cfg.nodes if n.kind == "test" and any(
        n.ast is g.test for g in gates)]
    missed = cfg.always_before(gate_nodes, rets, normal_only=True)
    rep.ob("C20.gate", bool(gate_nodes) and not missed, loc=load.loc(),
           where=load.qualname, construct="gate -> return dataset_info",
           message="no description is returned without passing the gate")
    # the refusal leaves _load: no enclosing handler turns the gate's raise
    # into a normal return
    for g in gates:
        for r_ in [n for n in cfg.nodes if n.kind == "stmt" and isinstance(
                n.ast, ast.Raise) and any(x is n.ast for s in g.body + g.orelse
                                          for x in ast.walk(s))]:
            swallowed = cfg.exit in cfg.reachable([r_])
            rep.ob("C20.gate", not swallowed, loc=load.loc(r_.ast),
                   where=load.qualname, construct=short(r_.ast, 70),
                   message="the version refusal must propagate to the caller "
                   "(an enclosing except clause catches it and the "
                   "description is returned anyway)")
    mv = [c for c in load.calls() if isinstance(c.func, ast.Attribute) and
          c.func.attr == "model_validate_json"]
    p0 = [p for p in load.params() if p not in ("self", "cls")][0]

    def names_the_param(mvc) -> bool:
        # _get_config_path(<p> | Path(<p>)) of the function's own parameter
        for c in ast.walk(ast.parse(canon(load, mvc), mode="eval")):
            if isinstance(c, ast.Call) and (dotted(c.func) or "").endswith(
                    "_get_config_path") and c.args:
                a = c.args[0]
                while isinstance(a, ast.Call) and (dotted(a.func) or "") in (
                        "Path", "pathlib.Path") and len(a.args) == 1:
                    a = a.args[0]
                if isinstance(a, ast.Name) and a.id == p0:
                    return True
        return False

    rep.ob("C20.gate", len(mv) == 1 and names_the_param(mv[0]) and
           ".read_text(" in canon(load, mv[0]) and
           "DatasetInfo" in ast.unparse(mv[0].func),
           loc=load.loc(), where=load.qualname,
           construct=short(mv[0], 100) if mv else "<none>",
           message="the description is parsed from <path>/dataset_info.json "
           "with the DatasetInfo schema")

    # -- C20.persist ----------------------------------------------------------------
    rep.rule(
        "C20.persist",
        "Dataset.write_config reaches safe_update_file with the dumped "
        "description on every normal path (no 'nothing changed' shortcut: an "
        "amended description must be saved), and safe_update_file writes "
        "exactly the text it was given (its `info` parameter, never rebound, "
        "is the argument of the single write call)")
    wcf = ctx.fn("sedpack.io.dataset_writing:DatasetWriting.write_config")
    wcfg = ctx.cfg(wcf)
    suf = "sedpack.io.utils:safe_update_file"
    saves = wcfg.calls(lambda c_: any(
        t.fq == suf or suf in ctx.cg.reachable([t.fq])
        for t in ctx.internal_targets(wcf, c_)))
    skipped = not saves or wcfg.exit in wcfg.reachable(
        [wcfg.entry], avoiding=saves,
        follow=lambda a, b, lab: lab not in ("exc", "raise"))
    rep.ob("C20.persist", not skipped, loc=wcf.loc(), where=wcf.qualname,
           construct="every path: ... safe_update_file(info=<dump>)",
           message="write_config may return without saving the description",
           path=wcfg.describe_path(wcfg.path_to(wcfg.exit, avoiding=saves))
           if skipped and saves else "")
    sf = ctx.fn(suf)
    writes_ = [c_ for c_ in sf.calls() if isinstance(c_.func, ast.Attribute)
               and c_.func.attr == "write"]
    rebinds = [n for n in sf.body_nodes() if isinstance(n, ast.Name) and
               n.id == "info" and isinstance(n.ctx, (ast.Store, ast.Del))]
    ok_w = len(writes_) == 1 and len(writes_[0].args) == 1 and isinstance(
        writes_[0].args[0], ast.Name) and writes_[0].args[0].id == "info" \
        and not rebinds and "info" in sf.params()
    rep.ob("C20.persist", ok_w, loc=sf.loc(writes_[0]) if writes_ else sf.loc(),
           where=sf.qualname,
           construct=(short(writes_[0], 50) if writes_ else "<no write>") + (
               f"; info rebound at L{rebinds[0].lineno}" if rebinds else ""),
           message="the file receives exactly the text handed to "
           "safe_update_file (a normalisation of the text makes the reopened "
           "description differ from the one the writer holds)")

    # -- C20.encoding ---------------------------------------------------------------
    rep.rule(
        "C20.encoding",
        "every metadata file is written and read as text with the same "
        "explicit encoding (utf-8): the one text-mode write site and every "
        "read_text / text-mode open of a JSON metadata file pass "
        "encoding=\"utf-8\", so a description with non-ASCII text reopens "
        "under any locale")
    n_enc = 0
    for fn in funcs:
        for c in fn.calls():
            f = c.func
            is_rt = isinstance(f, ast.Attribute) and f.attr in ("read_text",
                                                                "write_text")
            is_open = isinstance(f, ast.Name) and f.id == "open" or (
                isinstance(f, ast.Attribute) and f.attr == "open" and
                ctx.effects(fn, c) & {"FS_READ", "FS_CREATE"})
            if is_open:
                mode = ctx.arg(c, 1, "mode")
                m = const_str(mode) if mode is not None else "r"
                if m is None or "b" in m:
                    continue
            if not (is_rt or is_open):
                continue
            n_enc += 1
            enc = ctx.arg(c, None, "encoding")
            rep.ob("C20.encoding", const_str(enc) in ("utf-8", "utf8", "UTF-8"),
                   loc=fn.loc(c), where=fn.qualname, construct=short(c, 90),
                   message="text I/O of metadata must name its encoding "
                   "(utf-8), otherwise it depends on the process locale")
    rep.floor("C20.encoding", n_enc, 5, "text-mode metadata I/O sites")

    from sa.rules.c06 import check_rename
    check_rename(ctx, rep, "C20.same-dir")
    rep.rule(
        "C20.same-dir",
        "relocation: metadata updates create their temporary file next to "
        "the target (same directory, hence same file system) and rename it "
        "over the target, so a dataset moved to another mount keeps "
        "accepting writes (same check as C06.rename)")

    # -- C20.only ----------------------------------------------------------------------
    rep.rule(
        "C20.only",
        "DatasetInfo is parsed from disk only in _load; Dataset.__init__ "
        "without create_dataset obtains its description from _load before "
        "the base constructor runs")
    for fn in funcs:
        for c in fn.calls():
            if isinstance(c.func, ast.Attribute) and c.func.attr in (
                    "model_validate_json", "model_validate", "parse_raw",
                    "parse_file", "parse_obj") and "DatasetInfo" in \
                    ast.unparse(c.func.value):
                rep.ob("C20.only", fn is load, loc=fn.loc(c), where=fn.qualname,
                       construct=short(c, 70),
                       message="every disk load of the description goes "
                       "through the version gate")
    dinit = ctx.fn("sedpack.io.dataset:Dataset.__init__")
    c2 = CFG(dinit, env={"create_dataset": False})
    loads = c2.calls(lambda c: ctx.is_call(dinit, c, "DatasetBase._load") or
                     any(t is load for t in ctx.internal_targets(dinit, c)))
    supers = c2.calls(lambda c: "super().__init__" in ast.unparse(c.func))
    missed = c2.always_before(loads, supers, normal_only=True)
    rep.ob("C20.only", bool(loads) and bool(supers) and not missed,
           loc=dinit.loc(), where=dinit.qualname,
           construct="create_dataset=False: _load(...) -> super().__init__",
           message="an opened handle always carries a gated description")
    sup_kw = [ast.unparse(ctx.arg(s.ast, 1, "dataset_info") or ast.Constant(0))
              for s in supers]
    rep.ob("C20.only", sup_kw == ["dataset_info"], loc=dinit.loc(),
           where=dinit.qualname, construct=f"super().__init__(dataset_info="
           f"{sup_kw})", message="the loaded description is the one installed")

    # -- C20.defaults -------------------------------------------------------------------
    rep.rule(
        "C20.defaults",
        "every model reachable from a model_dump_json(exclude_defaults=True) "
        "has only literal-constant (or empty-container) defaults, so an "
        "omitted field is restored identically; models with computed "
        "defaults are dumped in full; each file is loaded with the model "
        "class that dumped it")
    models = model_classes(ctx)

    def reachable_models(ci: ClassInfo, seen: set[str]):
        if ci.fq in seen:
            return
        seen.add(ci.fq)
        for ann in ci.fields.values():
            for x in ast.walk(ann):
                if isinstance(x, ast.Name):
                    q = ctx.repo.qualify(ci.module, x)
                    if q in models:
                        reachable_models(models[q], seen)

    def literal_default(e: ast.AST) -> bool:
        if isinstance(e, ast.Constant):
            return True
        if isinstance(e, (ast.Dict, ast.List, ast.Tuple, ast.Set)):
            return all(literal_default(x) for x in ast.walk(e)
                       if isinstance(x, ast.expr) and x is not e and
                       not isinstance(x, (ast.Load, ast.Store)))
        if isinstance(e, ast.Call) and dotted(e.func) in ("Field",
                                                          "pydantic.Field"):
            for k in e.keywords:
                if k.arg == "default_factory":
                    return dotted(k.value) in ("dict", "list", "tuple", "set")
                if k.arg == "default":
                    return literal_default(k.value)
            return not e.args or literal_default(e.args[0])
        if isinstance(e, ast.UnaryOp) and isinstance(e.operand, ast.Constant):
            return True
        return False

    dumps = []
    for fn in funcs:
        for c in fn.calls():
            if isinstance(c.func, ast.Attribute) and c.func.attr in (
                    "model_dump_json", "model_dump"):
                t = ctx.res.infer(fn, c.func.value)
                ci = ctx.res.class_of(t)
                excl = any(k.arg in ("exclude_defaults", "exclude_unset") and
                           not (isinstance(k.value, ast.Constant) and
                                k.value.value is False) for k in c.keywords)
                dumps.append((fn, c, ci, excl))
    rep.floor("C20.defaults", len(dumps), 2, "instances")
    for fn, c, ci, excl in dumps:
        if ci is None:
            raise AnalysisError(f"{fn.loc(c)}: dumped model not resolved")
        seen: set[str] = set()
        reachable_models(ci, seen)
        computed = []
        for fq in sorted(seen):
            m = models[fq]
            for name, d in m.field_defaults.items():
                if not literal_default(d):
                    computed.append(f"{m.name}.{name} = {short(d, 40)}")
        if excl:
            rep.ob("C20.defaults", not computed, loc=fn.loc(c),
                   where=fn.qualname,
                   construct=f"{ci.name}.model_dump_json(exclude_defaults) "
                   f"over {sorted(x.rsplit('.', 1)[-1] for x in seen)}",
                   message="computed defaults reachable from a dump that "
                   f"omits defaults: {computed}")
        else:
            rep.ob("C20.defaults", True, loc=fn.loc(c), where=fn.qualname,
                   construct=f"{ci.name}.model_dump_json() in full "
                   f"(computed defaults: {computed})",
                   message="a full dump keeps every field")
    # dump/load classes per file
    pairs = {"ShardsList": "ShardsList", "DatasetInfo": "DatasetInfo"}
    load_classes = set()
    for fn in funcs:
        for c in fn.calls():
            if isinstance(c.func, ast.Attribute) and c.func.attr == \
                    "model_validate_json":
                load_classes.add(ast.unparse(c.func.value))
    dump_classes = {ci.name for _f, _c, ci, _e in dumps}
    rep.ob("C20.defaults", dump_classes == load_classes == set(pairs),
           loc="src/sedpack/io/shard_file_metadata.py:1", where="models",
           construct=f"dumped {sorted(dump_classes)} / loaded "
           f"{sorted(load_classes)}",
           message="every file is read back with the schema that wrote it")
    # mutable literal defaults are copied per instance by pydantic; fields
    # typed as persisted must not be excluded from dumps
    for fq, m in sorted(models.items()):
        for item in m.node.body:
            if isinstance(item, ast.AnnAssign) and isinstance(
                    item.value, ast.Call) and dotted(item.value.func) in (
                        "Field", "pydantic.Field") and any(
                            k.arg == "exclude" for k in item.value.keywords):
                rep.ob("C20.defaults", False,
                       loc=f"{m.module.relpath}:{item.lineno}", where=m.name,
                       construct=short(item),
                       message="a field excluded from serialisation is lost "
                       "on reopen")
    from sa.rules import shared
    shared.check_expanduser_guarded(ctx, rep, "C20.expanduser")
    # ---------------------------------------------------------------------
    # what create() persists is the description it was given
    rep.rule(
        "C20.create",
        "Dataset.create assigns the given metadata and dataset_structure to "
        "the new handle before its first write_config on every path (the "
        "first persisted description is the one the caller passed, not a "
        "default one)")
    cr_ = ctx.fn("sedpack.io.dataset:Dataset.create")
    ccfg_ = ctx.cfg(cr_)
    nf__ = lambda a, b, lab: lab not in ("exc", "raise")  # noqa: E731
    wr_ = [n for n in ccfg_.calls() if ctx.is_call(cr_, n.ast,
                                                   method="write_config")]
    for par in ("metadata", "dataset_structure"):
        sets = [n for n in ccfg_.nodes if n.kind == "stmt" and isinstance(
            n.ast, ast.Assign) and any(
                isinstance(t, ast.Attribute) and t.attr == par
                for t in n.ast.targets) and dotted(n.ast.value) == par]
        before = ccfg_.reachable([ccfg_.entry], avoiding=sets, follow=nf__)
        early = [w for w in wr_ if w in before]
        rep.ob("C20.create", bool(sets) and bool(wr_) and not early,
               loc=cr_.loc(early[0].ast) if early else cr_.loc(),
               where=cr_.qualname,
               construct=f"<handle>.{par} = {par} -> write_config",
               message=f"the caller's {par} is set before the description is "
               "first written")
    # ---------------------------------------------------------------------
    # loading does not rewrite what was recorded
    rep.rule(
        "C20.validators",
        "every pydantic field / model validator of a persisted model returns "
        "the value it was given on every normal path (it may only raise): "
        "loading a description must not replace recorded values (a "
        "validator that overwrites sedpack_version defeats the version gate)")
    n_val = 0
    for ci in model_classes(ctx).values():
        for m in ci.methods.values():
            decos = [d for d in m.decorators if d.rsplit(".", 1)[-1].split(
                "(")[0] in ("field_validator", "model_validator", "validator")]
            if not decos:
                continue
            n_val += 1
            params = [p for p in m.params() if p not in ("cls", "self")]
            given = params[0] if params else ("self" if "self" in m.params()
                                              else None)
            rets = [r for r in m.body_nodes() if isinstance(r, ast.Return)]
            from sa.norm import canon as _canon
            from sa.rules.common import identity_validator
            ok = given is not None and bool(rets) and (all(
                r.value is not None and _canon(m, r.value) == given
                for r in rets) or (given != "self" and
                                   identity_validator(ctx, m)))
            rep.ob("C20.validators", ok, loc=m.loc(), where=m.qualname,
                   construct=f"@{decos[0][:40]} returns " + ", ".join(
                       short(r.value, 30) for r in rets if r.value is not None),
                   message="a validator checks, it does not rewrite")
    rep.floor("C20.validators", n_val, 2, "validators")
    # ... and the set of refusing validators is the recorded version's: a
    # validator the reference does not have (under any name: renamed ones
    # are mapped back by their body) that can raise refuses, on load,
    # descriptions this version recorded before
    from sa.inline import REFERENCE as _REF, MOVED as _MOVED
    for ci in model_classes(ctx).values():
        for m in ci.methods.values():
            if isinstance(m.node, ast.Lambda) or not any(
                    d.rsplit(".", 1)[-1].split("(")[0] in (
                        "field_validator", "model_validator", "validator")
                    for d in m.decorators):
                continue
            fq_ = f"{ci.module.name}:{m.qualname}"
            known = fq_ in _REF or fq_ in _MOVED
            raises = [n_ for n_ in m.body_nodes()
                      if isinstance(n_, (ast.Raise, ast.Assert))]
            rep.ob("C20.validators", known or not raises,
                   loc=m.loc(raises[0]) if raises and not known else m.loc(),
                   where=m.qualname,
                   construct=("validator of the recorded version" if known
                              else "new validator" + (
                                  " that raises" if raises else
                                  " that cannot refuse")),
                   message="a new refusing validator of a persisted model "
                   "makes descriptions recorded before unloadable")
    # a validator pydantic does not register is no validator; a serializer
    # rewrites what is persisted
    for ci in model_classes(ctx).values():
        for m in ci.methods.values():
            if isinstance(m.node, ast.Lambda):
                continue
            names_ = [(dotted(d.func) if isinstance(d, ast.Call) else
                       dotted(d)) or "" for d in m.node.decorator_list]
            short_ = [x.rsplit(".", 1)[-1] for x in names_]
            if any(x in ("field_validator", "model_validator", "validator")
                   for x in short_):
                rep.ob("C20.validators", short_[0] in (
                    "field_validator", "model_validator", "validator"),
                       loc=m.loc(), where=m.qualname,
                       construct="decorators: " + ", ".join(
                           "@" + x for x in short_),
                       message="the pydantic validator decorator must be the "
                       "outermost one (applied on top of @classmethod), "
                       "otherwise the validator is silently not registered")
            if any(x in ("field_serializer", "model_serializer")
                   for x in short_):
                rep.ob("C20.validators", False, loc=m.loc(), where=m.qualname,
                       construct="@" + short_[0],
                       message="a persisted model rewrites values while "
                       "serialising: what is recorded differs from what the "
                       "writer holds")
    # ... nor does the model configuration: pydantic options that transform
    # values while validating (frozen table) are off in persisted models
    TRANSFORMING = {"str_strip_whitespace", "str_to_lower", "str_to_upper",
                    "coerce_numbers_to_str", "strip_whitespace", "to_lower",
                    "to_upper", "anystr_strip_whitespace", "anystr_lower",
                    "anystr_upper"}
    n_models = 0
    for ci in model_classes(ctx).values():
        n_models += 1
        bad_opts = []
        for n_ in ast.walk(ci.node):
            if isinstance(n_, ast.keyword) and n_.arg in TRANSFORMING and not (
                    isinstance(n_.value, ast.Constant) and
                    n_.value.value in (False, None)):
                bad_opts.append((n_.value, f"{n_.arg}={short(n_.value, 20)}"))
            if isinstance(n_, ast.Dict):
                for k_, v_ in zip(n_.keys, n_.values):
                    if const_str(k_) in TRANSFORMING and not (
                            isinstance(v_, ast.Constant) and
                            v_.value in (False, None)):
                        bad_opts.append((v_, f"{const_str(k_)!r}: "
                                         f"{short(v_, 20)}"))
            if isinstance(n_, ast.Assign) and any(
                    isinstance(t_, ast.Name) and t_.id in TRANSFORMING
                    for t_ in n_.targets) and not (
                        isinstance(n_.value, ast.Constant) and
                        n_.value.value in (False, None)):
                bad_opts.append((n_, short(n_, 50)))   # class Config: x = True
        rep.ob("C20.validators", not bad_opts,
               loc=f"{ci.module.relpath}:{bad_opts[0][0].lineno}" if bad_opts
               else f"{ci.module.relpath}:{ci.node.lineno}", where=ci.name,
               construct=(bad_opts[0][1] if bad_opts else
                          "no value-transforming model / field option"),
               message="a persisted model must validate, not rewrite: the "
               "reopened text would differ from the text that was written")
    # nothing read from the dataset's files / the environment is memoised
    from sa.rules import shared as _shm
    _shm.check_no_memo(ctx, rep, "C20.memo")

_U = "src/sedpack/io/utils.py"
_DB = "src/sedpack/io/dataset_base.py"
_DS = "src/sedpack/io/dataset.py"
_DW = "src/sedpack/io/dataset_writing.py"
_SM = "src/sedpack/io/shard_file_metadata.py"
_MD = "src/sedpack/io/metadata.py"
SELFTESTS = [
    dict(rule="C20.validators", name="metadata-strips-whitespace", expect="fire", path=_MD,
         old='    description: str = ""\n    dataset_license',
         new='    model_config = {"str_strip_whitespace": True}\n    description: str = ""\n    dataset_license'),
    dict(rule="C20.validators", name="strip-off-twin", expect="silent", path=_MD,
         old='    description: str = ""\n    dataset_license',
         new='    model_config = {"str_strip_whitespace": False}\n    description: str = ""\n    dataset_license'),
    dict(rule="C20.gate", name="refusal-swallowed-by-handler", expect="fire", path=_DB,
         old="        if semver.Version.parse(dataset_info.metadata.sedpack_version).compare(\n                sedpack.__version__) > 0:\n            raise ValueError(f\"Dataset-lib module is outdated, \"\n                             f\"sedpack_version: {sedpack.__version__}, \"\n                             f\"but dataset was created using: \"\n                             f\"{dataset_info.metadata.sedpack_version}\")\n",
         new="        try:\n            if semver.Version.parse(dataset_info.metadata.sedpack_version).compare(\n                    sedpack.__version__) > 0:\n                raise ValueError(\"Dataset-lib module is outdated\")\n        except ValueError:\n            pass\n"),
    dict(rule="C20.reloc", name="fileinfo-absolute", expect="fire", path=_U,
         old="        file_path=relative_path,\n", new="        file_path=file_path,\n"),
    dict(rule="C20.reloc", name="config-path-not-relative", expect="fire", path=_DW,
         old="            relative_path=DatasetWriting._get_config_path(self.path,\n                                                          relative=True),",
         new="            relative_path=DatasetWriting._get_config_path(self.path),"),
    dict(rule="C20.reloc", name="path-wrapper-twin", expect="silent", path=_U,
         old="        file_path=relative_path,\n", new="        file_path=Path(relative_path),\n"),
    dict(rule="C20.reloc", name="shard-path-resolved", expect="fire",
         path="src/sedpack/io/dataset_filler.py",
         old="            file_path=relative_path_with_split / file_name),))",
         new="            file_path=(self._dataset_root_path / relative_path_with_split / file_name).resolve()),))"),
    dict(rule="C20.gate", name="ge-zero", expect="fire", path=_DB,
         old="                sedpack.__version__) > 0:", new="                sedpack.__version__) >= 0:"),
    dict(rule="C20.gate", name="lt-zero", expect="fire", path=_DB,
         old="                sedpack.__version__) > 0:", new="                sedpack.__version__) < 0:"),
    dict(rule="C20.gate", name="operands-swapped", expect="fire", path=_DB,
         old="        if semver.Version.parse(dataset_info.metadata.sedpack_version).compare(\n                sedpack.__version__) > 0:",
         new="        if semver.Version.parse(sedpack.__version__).compare(\n                dataset_info.metadata.sedpack_version) > 0:"),
    dict(rule="C20.gate", name="direct-compare-twin", expect="silent", path=_DB,
         old="        if semver.Version.parse(dataset_info.metadata.sedpack_version).compare(\n                sedpack.__version__) > 0:",
         new="        if semver.Version.parse(sedpack.__version__) < semver.Version.parse(\n                dataset_info.metadata.sedpack_version):"),
    dict(rule="C20.gate", name="eq-one-twin", expect="silent", path=_DB,
         old="                sedpack.__version__) > 0:", new="                sedpack.__version__) == 1:"),
    dict(rule="C20.encoding", name="description-read-locale-encoding", expect="fire", path=_DB,
         old="DatasetBase._get_config_path(path).read_text(encoding=\"utf-8\"))",
         new="DatasetBase._get_config_path(path).read_text())"),
    dict(rule="C20.same-dir", name="temp-in-system-tmp", expect="fire", path=_U,
         old="    new_file = file_path.parent / f\"update_{update_id}_of_{file_path.name}\"",
         new="    import tempfile\n    new_file = Path(tempfile.gettempdir()) / f\"update_{update_id}_of_{file_path.name}\""),
    dict(rule="C20.only", name="init-bypasses-load", expect="fire", path=_DS,
         old="            dataset_info = DatasetBase._load(Path(path))",
         new="            dataset_info = DatasetInfo.model_validate_json(\n                DatasetBase._get_config_path(Path(path)).read_text(encoding=\"utf-8\"))"),
    dict(rule="C20.defaults", name="description-excludes-defaults", expect="fire",
         path=_DW,
         old="            info=self._dataset_info.model_dump_json(indent=2),",
         new="            info=self._dataset_info.model_dump_json(indent=2, exclude_defaults=True),"),
    dict(rule="C20.defaults", name="literal-default-field-twin", expect="silent",
         path=_SM,
         old="    number_of_examples: int = 0\n    custom_metadata: dict[str, Any] = {}\n",
         new="    number_of_examples: int = 0\n    custom_metadata: dict[str, Any] = {}\n    comment: str = \"\"\n"),
    dict(rule="C20.defaults", name="computed-default-in-shard-info", expect="fire",
         path=_SM,
         old="    number_of_examples: int = 0\n    custom_metadata: dict[str, Any] = {}\n",
         new="    number_of_examples: int = 0\n    custom_metadata: dict[str, Any] = {}\n    written_by: str = utils.__name__\n"),
]
