"""C09 - parallel writers do not interfere."""
from __future__ import annotations

import ast

from sa.cfg import CFG
from sa.context import Context, names_in
from sa.dataflow import EMPTY, TagFlow
from sa.model import AnalysisError, FunctionInfo, dotted, parent, short
from sa.rules.common import passed_expr

DW = "sedpack.io.dataset_writing"
DF = "sedpack.io.dataset_filler"
WM = f"{DW}:DatasetWriting.write_multiprocessing"
ORDERED_MAPS = {"imap", "map", "starmap"}
UNORDERED = {"imap_unordered", "apply_async", "map_async", "starmap_async",
             "submit", "as_completed"}


def filler_ctor_facts(ctx: Context, fn: FunctionInfo, call: ast.Call,
                      depth: int = 0):
    """For an expression that builds a DatasetFiller (directly or through one
    helper): (auto_update literal or None, relative path expr is fresh per
    call, description)."""
    for t in ctx.res.resolve_call(fn, call, count=False):
        if t.kind == "class" and t.cls.fq == f"{DF}.DatasetFiller":
            init = t.cls.methods["__init__"]
            au = passed_expr(call, init, "auto_update_dataset")
            rp = passed_expr(call, init, "relative_path_from_split")
            return au, rp, fn, call
        if t.kind == "internal" and t.fn is not None and depth < 2:
            inner = [c for c in t.fn.calls() if any(
                tt.kind == "class" and tt.cls.fq == f"{DF}.DatasetFiller"
                for tt in ctx.res.resolve_call(t.fn, c, count=False))]
            if len(inner) == 1:
                au, rp, _f, _c = filler_ctor_facts(ctx, t.fn, inner[0],
                                                   depth + 1)

                def back(e):
                    # map a callee parameter back to the caller's argument
                    if isinstance(e, ast.Name) and e.id in t.fn.params():
                        return passed_expr(call, t.fn, e.id) or \
                            t.fn.param_default(e.id)
                    return e
                return back(au) if au is not None else None, \
                    back(rp) if rp is not None else None, t.fn, inner[0]
    return None, None, fn, call


def check_ordered(ctx: Context, rep, rule: str):
    wm = ctx.fn(WM)
    cfg = ctx.cfg(wm)
    # -- C09.ordered ------------------------------------------------------------------
    rep.rule(
        rule,
        "the worker map is order preserving (pool.imap / pool.map / builtin "
        "map over a zip that lists fillers, arguments and keyword arguments "
        "in step) and results are unpacked by order-preserving "
        "comprehensions over all outputs")
    maps = []
    for n in cfg.calls():
        f = n.ast.func
        name = f.attr if isinstance(f, ast.Attribute) else (
            f.id if isinstance(f, ast.Name) else None)
        if name in ORDERED_MAPS | UNORDERED and n.ast.args and \
                "_wrapper_func" in ast.unparse(n.ast.args[0]):
            maps.append((n, name))
    if not maps:
        raise AnalysisError("C09.ordered: worker map not found")
    for n, name in maps:
        rep.ob(rule, name in ORDERED_MAPS, loc=wm.loc(n.ast),
               where=wm.qualname, construct=short(n.ast, 70),
               message="results must come back in argument order")
        p = parent(n.ast)
        rep.ob(rule, isinstance(p, ast.Call) and isinstance(
            p.func, ast.Name) and p.func.id == "list", loc=wm.loc(n.ast),
               where=wm.qualname, construct=short(p, 70),
               message="all results are collected (list(...)) before the "
               "pool is closed")
    # element k of the worker inputs, symbolically: the mapped iterable is a
    # zip (its element is the tuple of its operands' elements; repeat(x) has
    # the constant element x) or a generator expression / map over one
    from sa import norm as _norm

    def elem(e, depth=0):
        """Symbolic k-th element of the iterable expression e."""
        if depth > 6:
            return None
        if isinstance(e, ast.Name):
            d = _norm.single_defs(wm).get(e.id) if hasattr(
                _norm, "single_defs") else None
            if d is None:
                from sa.valuation import single_defs as _sd
                d = _sd(wm).get(e.id)
            if d is not None and isinstance(d, (ast.Call, ast.GeneratorExp,
                                                ast.ListComp)) and not (
                    isinstance(d, ast.ListComp) and e.id in (
                        "dataset_fillers", )):
                r = elem(d, depth + 1)
                if r is not None:
                    return r
            return f"idx:{e.id}"
        if isinstance(e, ast.Call):
            nm = (dotted(e.func) or "").rsplit(".", 1)[-1]
            if nm == "repeat" and len(e.args) == 1:
                return f"const:{ast.unparse(e.args[0])}"
            if nm == "zip" and not e.keywords:
                parts = [elem(a, depth + 1) for a in e.args]
                return None if None in parts else tuple(parts)
            if nm in ("list", "tuple", "iter") and len(e.args) == 1:
                return elem(e.args[0], depth + 1)
        if isinstance(e, (ast.GeneratorExp, ast.ListComp)) and len(
                e.generators) == 1 and not e.generators[0].ifs:
            g = e.generators[0]
            src = elem(g.iter, depth + 1)
            if src is None:
                return None
            env = {}
            if isinstance(g.target, ast.Name):
                env[g.target.id] = src
            elif isinstance(g.target, ast.Tuple) and isinstance(
                    src, tuple) and len(src) == len(g.target.elts) and all(
                        isinstance(t, ast.Name) for t in g.target.elts):
                env = {t.id: s for t, s in zip(g.target.elts, src)}
            else:
                return None

            def sub(x):
                if isinstance(x, ast.Tuple):
                    parts = [sub(y) for y in x.elts]
                    return None if None in parts else tuple(parts)
                if isinstance(x, ast.Name):
                    return env.get(x.id, f"const:{x.id}")
                return None
            return sub(e.elt)
        return None

    want = ("const:feed_writer", "idx:dataset_fillers", "idx:custom_arguments",
            "idx:custom_kwarguments")
    got = None
    for n, _name in maps:
        if len(n.ast.args) >= 2:
            got = elem(n.ast.args[1])
    rep.ob(rule, got == want, loc=wm.loc(maps[0][0].ast), where=wm.qualname,
           construct=f"input k = {got}",
           message="writer k gets filler k, arguments k and keyword "
           "arguments k")
    wf = ctx.fn(f"{DW}:_wrapper_func")
    rets = [n for n in wf.body_nodes() if isinstance(n, ast.Return)]
    unpack = [n for n in wf.body_nodes() if isinstance(n, ast.Assign) and
              isinstance(n.targets[0], ast.Tuple)]
    ok_wf = False
    if len(rets) == 1 and isinstance(rets[0].value, ast.Tuple) and unpack:
        names = [e.id for e in unpack[0].targets[0].elts]
        calls = [c for c in wf.calls() if isinstance(c.func, ast.Name) and
                 c.func.id == names[0]]
        ok_wf = len(names) == 4 and len(calls) == 1 and \
            dotted(calls[0].args[0]) == names[1] and \
            [dotted(e) for e in rets[0].value.elts][0] == names[1] and \
            ast.unparse(calls[0]) == \
            f"{names[0]}({names[1]}, *{names[2]}, **{names[3]})"
    rep.ob(rule, ok_wf, loc=wf.loc(), where=wf.qualname,
           construct=short(rets[0]) if rets else "<none>",
           message="the worker calls feed_writer(filler, *args, **kwargs) and "
           "returns that same filler with the result")

    return maps


def check_exit_reports(ctx: Context, rep, rule: str) -> None:
    """On exit the filler writes every list it touched (with digests) and
    reports all of them, unfiltered."""
    filler = ctx.repo.cls(f"{DF}:DatasetFiller")
    gi = filler.methods["get_updated_infos"]
    # (_update_infos is read in its inlined form, see inline.FORCE_INLINE)
    from sa import collalg
    ui = filler.methods["__exit__"]
    t = collalg.CollAlg(ui).env.get("self._updated_infos", ("empty", ))
    parts = [p for p in collalg.concat_parts(t)
             if not (p[0] == "src" and p[1] == "self._updated_infos")]
    ok_ui = len(parts) == 1 and parts[0][0] == "map" and \
        parts[0][1][0] == "items" and parts[0][1][1][0] == "src" and \
        parts[0][1][1][1].endswith("shard_lists") and \
        parts[0][2].startswith("_v.write_config(") and any(
            isinstance(n, ast.Return) and dotted(n.value) ==
            "self._updated_infos" for n in gi.body_nodes())
    rep.ob(rule, ok_ui, loc=ui.loc(), where=ui.qualname,
           construct="_updated_infos = " + collalg.pretty(t)[:140],
           message="every list the worker wrote is written with digests and "
           "reported back (no filter, slice or early exit)")


def run(ctx: Context, rep) -> None:
    rep.not_decided = (
        "equivalence with the sequential run for every schedule of the "
        "worker processes and pickling fidelity at run time; decided is the "
        "isolation structure: fresh per-writer directory, no dataset-level "
        "update from a worker, ordered collection from the pool's outputs, "
        "merge after the pool")
    rep.assumptions += [
        "multiprocessing.Pool.imap / map and builtin map return results in "
        "argument order",
        "uuid4() directory names do not collide",
        "default pickling carries DatasetFiller._updated_infos back",
    ]
    wm = ctx.fn(WM)
    cfg = ctx.cfg(wm)

    # -- C09.fresh -----------------------------------------------------------------
    rep.rule(
        "C09.fresh",
        "each worker's filler is built inside a comprehension over the "
        "writers with a sub-directory containing a uuid4() call evaluated "
        "per element and with auto_update_dataset=False (followed through "
        "at most one helper)")
    comps = []
    for n in wm.body_nodes():
        if isinstance(n, (ast.ListComp, ast.GeneratorExp)) and isinstance(
                n.elt, ast.Call):
            au, rp, f2, c2 = filler_ctor_facts(ctx, wm, n.elt)
            if c2 is not n.elt or any(
                    t.kind == "class" and t.cls.fq == f"{DF}.DatasetFiller"
                    for t in ctx.res.resolve_call(wm, n.elt, count=False)):
                comps.append((n, au, rp, f2, c2))
    if not comps:
        raise AnalysisError("C09.fresh: construction of the worker fillers not "
                            "found in write_multiprocessing")
    for comp, au, rp, f2, c2 in comps:
        ok_au = isinstance(au, ast.Constant) and au.value is False
        rep.ob("C09.fresh", ok_au, loc=wm.loc(comp), where=wm.qualname,
               construct=f"auto_update_dataset={short(au)}",
               message="a worker's filler must not update the dataset itself "
               "(default is True)")
        fresh = rp is not None and any(
            isinstance(c, ast.Call) and ctx.is_call(wm, c, "uuid.uuid4")
            for c in ast.walk(rp)) and any(x is rp for x in ast.walk(comp.elt))
        rep.ob("C09.fresh", bool(fresh), loc=wm.loc(comp), where=wm.qualname,
               construct=f"relative_path_from_split={short(rp)}",
               message="every writer gets its own fresh sub-directory "
               "(uuid4() evaluated inside the comprehension element)")
        gen = comp.generators[0]
        ok_n = len(comp.generators) == 1 and not gen.ifs and \
            "custom_arguments" in ast.unparse(gen.iter)
        rep.ob("C09.fresh", ok_n, loc=wm.loc(comp), where=wm.qualname,
               construct=f"for _ in {short(gen.iter)}",
               message="one filler per writer")

    # -- C09.isolate ----------------------------------------------------------------
    rep.rule(
        "C09.isolate",
        "with auto_update_dataset=False no code reachable from the filler's "
        "API (DatasetFiller.__enter__/__exit__, the context's write_example "
        "and close_shard) reaches the dataset-level write_config or "
        "merge_shard_infos; every path the context builds for writing "
        "contains its own sub-directory")
    forbidden = {f"{DW}:DatasetWriting.write_config",
                 "sedpack.io.merge_shard_infos:merge_shard_infos"}
    filler = ctx.repo.cls(f"{DF}:DatasetFiller")
    fctx = ctx.repo.cls(f"{DF}:_DatasetFillerContext")
    init = filler.methods["__init__"]
    alias_ok = any(isinstance(n, (ast.Assign, ast.AnnAssign)) and dotted(
        n.targets[0] if isinstance(n, ast.Assign) else n.target) ==
                   "self._auto_update_dataset" and dotted(n.value) ==
                   "auto_update_dataset" for n in init.body_nodes())
    writes_flag = [f.qualname for f in filler.methods.values() if f is not init
                   for n in f.body_nodes() if isinstance(n, (ast.Assign,
                                                             ast.AugAssign))
                   and "_auto_update_dataset" in ast.unparse(
                       n.targets[0] if isinstance(n, ast.Assign) else n.target)]
    rep.ob("C09.isolate", alias_ok and not writes_flag, loc=init.loc(),
           where=init.qualname,
           construct="self._auto_update_dataset = auto_update_dataset (only "
           "assignment)", message="the flag is fixed at construction")
    roots: list[FunctionInfo] = [m for m in filler.methods.values()
                                 if m.name != "__init__"] + [
        m for m in fctx.methods.values() if m.name != "__init__"]
    reach: set[str] = set()
    for m in roots:
        c2 = CFG(m, env={"self._auto_update_dataset": False})
        for n in c2.calls():
            for t in ctx.internal_targets(m, n.ast):
                reach |= ctx.cg.reachable([t.fq])
    bad = sorted(reach & forbidden)
    rep.ob("C09.isolate", not bad, loc=filler.methods["__exit__"].loc(),
           where="DatasetFiller (auto_update_dataset=False)",
           construct=f"{len(reach)} functions reachable from the filler API; "
           f"forbidden reached: {bad}",
           message="a worker never rewrites the split lists above its "
           "directory nor the dataset description")
    # sanity: with the flag True the dataset update IS reachable
    reach_t: set[str] = set()
    ex = filler.methods["__exit__"]
    c3 = CFG(ex, env={"self._auto_update_dataset": True})
    for n in c3.calls():
        for t in ctx.internal_targets(ex, n.ast):
            reach_t |= ctx.cg.reachable([t.fq])
    if not (reach_t & forbidden):
        raise AnalysisError("C09.isolate: dataset update not reachable even "
                            "with auto_update_dataset=True (anchor changed)")
    # paths contain the sub-directory
    gns = fctx.methods["_get_new_shard"]
    cs = fctx.methods["close_shard"]
    from sa.rules.common import interproc

    def sub_hook(f):
        return lambda e, st, rec: frozenset({"subdir"}) if dotted(e) == \
            "self._relative_path_from_split" else None

    for fn, what in ((gns, "shard file"), (cs, "shard list")):
        tf = TagFlow(ctx.cfg(fn), {}, hook=interproc(ctx, sub_hook)(fn))
        sinks = []
        for n in ctx.cfg(fn).calls():
            if what == "shard file" and any(
                    t.kind == "class" and t.cls.fq ==
                    "sedpack.io.shard.shard.Shard"
                    for t in ctx.res.resolve_call(fn, n.ast, count=False)):
                sinks.append((n, ctx.arg(n.ast, 0, "shard_info")))
            if ctx.is_call(fn, n.ast, "ShardsList.load_or_create"):
                sinks.append((n, ctx.arg(n.ast, 1, "relative_path_self")))
        rep.ob("C09.isolate", bool(sinks) and all(
            e is not None and "subdir" in tf.tags_at(n, e) for n, e in sinks),
               loc=fn.loc(), where=fn.qualname,
               construct=f"{what} path = " + "; ".join(short(e, 60)
                                                       for _n, e in sinks),
               message=f"the {what} path contains the writer's own "
               "sub-directory")
    stored = any(isinstance(n, (ast.Assign, ast.AnnAssign)) and dotted(
        n.targets[0] if isinstance(n, ast.Assign) else n.target) ==
                 "self._relative_path_from_split" and dotted(n.value) ==
                 "relative_path_from_split"
                 for n in fctx.methods["__init__"].body_nodes())
    passed = any(ctx.is_call(init, c, f"{DF}._DatasetFillerContext") and dotted(
        passed_expr(c, fctx.methods["__init__"], "relative_path_from_split"))
                 == "relative_path_from_split" for c in init.calls())
    rep.ob("C09.isolate", stored and passed, loc=init.loc(), where=init.qualname,
           construct="DatasetFiller(relative_path_from_split) -> context field",
           message="the sub-directory given to the filler is the one its "
           "context uses")

    maps = check_ordered(ctx, rep, "C09.ordered")

    # -- C09.collect -------------------------------------------------------------------
    rep.rule(
        "C09.collect",
        "the shard-list infos handed to the final write_config derive from "
        "the pool's OUTPUTS (the unpickled fillers), from all of them, never "
        "from the pre-pool filler objects; write_config comes after the "
        "pool block; the returned results are the outputs' second "
        "components")
    comp_ids = {id(c[0]) for c in comps}

    def hook(e, state, rec):
        if isinstance(e, ast.Call):
            f = e.func
            name = f.attr if isinstance(f, ast.Attribute) else (
                f.id if isinstance(f, ast.Name) else None)
            if name in ORDERED_MAPS | UNORDERED and e.args and \
                    "_wrapper_func" in ast.unparse(e.args[0]):
                return frozenset({"pool-output"})
        if id(e) in comp_ids:
            return frozenset({"pre-pool"})
        return None

    tf = TagFlow(cfg, {}, hook=hook)
    wcs = cfg.calls(lambda c: ctx.is_call(wm, c, method="write_config"))
    if not wcs:
        raise AnalysisError("C09.collect: final write_config not found")
    for w in wcs:
        e = ctx.arg(w.ast, 0, "updated_infos")
        tags = tf.tags_at(w, e)
        rep.ob("C09.collect", "pool-output" in tags and "pre-pool" not in tags,
               loc=wm.loc(w.ast), where=wm.qualname,
               construct=f"write_config(updated_infos={short(e)}) carries "
               f"{sorted(tags)}",
               message="infos must come from the fillers returned by the "
               "workers (copies made in other processes), not from the "
               "parent's pre-pool objects which never saw the writes")
    # ... accumulated in sequences: a keyed or set collection on the way
    # merges the infos that share the key (two splits of one worker
    # directory, equal infos of two workers)
    def keyed_defs(e, seen, depth=0):
        out = []
        for nm in sorted(names_in(e)):
            if nm in seen or depth > 4:
                continue
            seen.add(nm)
            for d in wm.body_nodes():
                v = None
                if isinstance(d, ast.Assign) and any(
                        isinstance(t, ast.Name) and t.id == nm
                        for t in d.targets):
                    v = d.value
                elif isinstance(d, ast.AnnAssign) and isinstance(
                        d.target, ast.Name) and d.target.id == nm and d.value:
                    v = d.value
                if v is None:
                    continue
                fname = dotted(v.func).rsplit(".", 1)[-1] if isinstance(
                    v, ast.Call) and dotted(v.func) else ""
                if isinstance(v, (ast.Dict, ast.DictComp, ast.Set,
                                  ast.SetComp)) or fname in (
                                      "dict", "set", "frozenset",
                                      "defaultdict", "OrderedDict", "Counter",
                                      "fromkeys", "groupby", "unique"):
                    out.append((d, nm))
                else:
                    out += keyed_defs(v, seen, depth + 1)
        return out
    for w in wcs:
        e = ctx.arg(w.ast, 0, "updated_infos")
        kd = keyed_defs(e, set()) if e is not None else []
        rep.ob("C09.collect", not kd, loc=wm.loc(kd[0][0]) if kd else
               wm.loc(w.ast), where=wm.qualname,
               construct=(f"`{kd[0][1]}` is a keyed / set collection: " +
                          short(kd[0][0], 50)) if kd else
               "infos accumulated in sequences only",
               message="every reported shard-list info reaches write_config "
               "(no collection that merges entries sharing a key)")
    # all outputs, in order: comprehension / loop without slice or filter
    for n in wm.body_nodes():
        if isinstance(n, (ast.ListComp, ast.For)):
            it = n.generators[0].iter if isinstance(n, ast.ListComp) else n.iter
            if dotted(it) in ("wrapper_outputs", "dataset_fillers") and \
                    id(n) not in comp_ids:
                ifs = n.generators[0].ifs if isinstance(n, ast.ListComp) else [
                    x for x in ast.walk(n) if isinstance(x, (ast.If, ast.Break,
                                                             ast.Continue))]
                rep.ob("C09.collect", not ifs, loc=wm.loc(n), where=wm.qualname,
                       construct=short(n, 70),
                       message="every worker's output is used (no filter, "
                       "slice or early exit)")
    for n in wm.body_nodes():
        if isinstance(n, ast.Subscript) and dotted(n.value) in (
                "wrapper_outputs", "dataset_fillers", "updated_infos"):
            rep.ob("C09.collect", False, loc=wm.loc(n), where=wm.qualname,
                   construct=short(n), message="outputs are sliced/indexed")
    pool_nodes = [n for n, _ in maps]
    missed = cfg.always_before(pool_nodes, wcs, normal_only=True)
    # single_process branch uses builtin map: both are in pool_nodes
    rep.ob("C09.collect", not missed, loc=wm.loc(), where=wm.qualname,
           construct="worker map -> write_config",
           message="the dataset is updated only after all workers returned")
    rets = [n for n in cfg.nodes if n.kind == "stmt" and isinstance(
        n.ast, ast.Return)]
    for r in rets:
        tags = tf.tags_at(r, r.ast.value)
        rep.ob("C09.collect", "pool-output" in tags, loc=wm.loc(r.ast),
               where=wm.qualname, construct=short(r.ast),
               message="the caller receives the workers' return values")
    res_defs = [n for n in wm.body_nodes() if isinstance(n, ast.Assign) and
                dotted(n.targets[0]) == "results"]
    # results = second component of every worker output, in output order
    # (comprehension, loop with append, named or positional access)
    from sa import collalg as _ca
    rterm = _ca.CollAlg(wm).env.get("results")
    rparts = _ca.concat_parts(rterm) if rterm is not None else []
    ok_res = len(rparts) == 1 and rparts[0][0] == "map" and \
        rparts[0][1] == ("src", "wrapper_outputs") and \
        rparts[0][2].replace(" ", "") == "_[1]"
    rep.ob("C09.collect", ok_res, loc=wm.loc(), where=wm.qualname,
           construct="results = " + (_ca.pretty(rterm)[:100]
                                     if rterm is not None else "<none>"),
           message="results are the second components, in output order")
    # the parent-side merge (grouping per split, accounting, fresh records)
    from sa.rules import c04
    c04.check_dump(ctx, rep, "C09.merge")
    c04.check_fresh_records(ctx, rep, "C09.merge")
    c04.check_delta(ctx, rep, "C09.merge")
    rep.rule(
        "C09.merge",
        "the parent-side merge of the workers' infos: all infos of a split "
        "are grouped before merging (not only adjacent ones), the merge "
        "keeps the accounting invariant and re-attaches only fresh child "
        "records (same checks as C04.dump / C04.fresh / C04.delta)")
    # pickling
    drops = [m for m in ("__getstate__", "__reduce__", "__reduce_ex__",
                         "__setstate__") if m in filler.methods]
    rep.ob("C09.collect", not drops, loc=init.loc(), where="DatasetFiller",
           construct=f"custom pickling hooks: {drops}",
           message="the filler's _updated_infos travel back with default "
           "pickling")
    gi = filler.methods["get_updated_infos"]
    check_exit_reports(ctx, rep, "C09.collect")
    # what the parent publishes after the writers ran is the description it
    # held before: the in-memory description has one writer (the base
    # constructor) and objects cross the process boundary by default pickling
    rep.rule(
        "C09.state",
        "`_dataset_info` is assigned only in DatasetBase.__init__ (the multi-"
        "writer entry point neither reloads nor replaces it), and no class of "
        "sedpack.io customises pickling / copying (__getstate__, __setstate__, "
        "__reduce__, __reduce_ex__, __copy__, __deepcopy__): the assumption "
        "that default pickling carries the state unchanged rests on it")
    n_st = 0
    for fn_ in ctx.repo.all_functions():
        if not fn_.module.name.startswith("sedpack.io"):
            continue
        for n_ in fn_.body_nodes():
            tg = []
            if isinstance(n_, ast.Assign):
                tg = n_.targets
            elif isinstance(n_, (ast.AnnAssign, ast.AugAssign)):
                tg = [n_.target]
            for t_ in tg:
                if isinstance(t_, ast.Attribute) and t_.attr == "_dataset_info":
                    n_st += 1
                    rep.ob("C09.state", fn_.qualname == "DatasetBase.__init__",
                           loc=fn_.loc(n_), where=fn_.qualname,
                           construct=short(n_, 70),
                           message="the in-memory description is replaced "
                           "outside the constructor (unsaved edits of the "
                           "caller are lost when the parent publishes)")
        if fn_.name in ("__getstate__", "__setstate__", "__reduce__",
                        "__reduce_ex__", "__copy__", "__deepcopy__") and \
                fn_.cls is not None:
            rep.ob("C09.state", False, loc=fn_.loc(), where=fn_.qualname,
                   construct=f"def {fn_.name}",
                   message="custom pickling / copying of an object that "
                   "crosses the process boundary")
    rep.floor("C09.state", n_st, 1, "stores to _dataset_info")
    # writers touch only their own fresh files (who-may-create/delete), and
    # the merge of their lists starts from the lists already on disk
    from sa.rules.c06 import check_who
    from sa.rules.c08 import check_load
    check_who(ctx, rep, "C09.who")
    check_load(ctx, rep, "C09.load")
    # "a passing integrity check": every digest recorded on the way up is
    # computed with the configured algorithms (same rule as C16.when)
    from sa.rules.c16 import check_when
    check_when(ctx, rep, "C09.hashes")
    # nothing read from the dataset's files / the environment is memoised
    from sa.rules import shared as _shm
    _shm.check_no_memo(ctx, rep, "C09.memo")
    # the merged totals count own shards plus every child (same check as
    # C04.count)
    from sa.rules import shared as _sh09
    _sh09.share_rules(ctx, rep, "c04", {"C04.count": "C09.count"})
    # the fillers travel back from the workers by pickling: a shard writer
    # that was constructed but never written to holds no OS resource (same
    # structural check as C04.lazy-file; an open TFRecordWriter cannot be
    # pickled and the whole multi-writer call fails)
    _sh09.share_rules(ctx, rep, "c04", {"C04.lazy-file": "C09.lazy-writer"})
    # every writer writes where the parent will look: the root is resolved
    # at construction (same check as C20's root part)
    from sa.rules.c20 import check_root_resolved as _crr9
    rep.rule("C09.root", "the value self.path keeps is <path>.resolve() on "
             "every path through DatasetBase.__init__")
    _crr9(ctx, rep, "C09.root")

_P = "src/sedpack/io/dataset_writing.py"
_F = "src/sedpack/io/dataset_filler.py"
SELFTESTS = [
    dict(rule="C09.state", name="parent-reloads-description", expect="fire", path=_P,
         old="        # Update\n        updated_infos: list[ShardListInfo] = []\n",
         new="        self._dataset_info = DatasetBase._load(self.path)\n        # Update\n        updated_infos: list[ShardListInfo] = []\n"),
    dict(rule="C09.fresh", name="uuid-hoisted", expect="fire", path=_P,
         old="        dataset_fillers = [\n            DatasetFiller(\n                dataset=self,\n                relative_path_from_split=Path(uuid.uuid4().hex),",
         new="        subdir = Path(uuid.uuid4().hex)\n        dataset_fillers = [\n            DatasetFiller(\n                dataset=self,\n                relative_path_from_split=subdir,"),
    dict(rule="C09.fresh", name="auto-update-true", expect="fire", path=_P,
         old="                auto_update_dataset=False,\n", new=""),
    dict(rule="C09.fresh", name="str-uuid-twin", expect="silent", path=_P,
         old="relative_path_from_split=Path(uuid.uuid4().hex),",
         new="relative_path_from_split=Path(str(uuid.uuid4())),"),
    dict(rule="C09.ordered", name="imap-unordered", expect="fire", path=_P,
         old="wrapper_outputs = list(pool.imap(_wrapper_func, wrapper_inputs))",
         new="wrapper_outputs = list(pool.imap_unordered(_wrapper_func, wrapper_inputs))"),
    dict(rule="C09.ordered", name="pool-map-twin", expect="silent", path=_P,
         old="wrapper_outputs = list(pool.imap(_wrapper_func, wrapper_inputs))",
         new="wrapper_outputs = list(pool.map(_wrapper_func, wrapper_inputs))"),
    dict(rule="C09.ordered", name="zip-misaligned", expect="fire", path=_P,
         old="            dataset_fillers,\n            custom_arguments,\n            custom_kwarguments,\n        )",
         new="            dataset_fillers,\n            reversed(custom_arguments),\n            custom_kwarguments,\n        )"),
    dict(rule="C09.collect", name="pre-pool-fillers", expect="fire", path=_P,
         old="        dataset_fillers = [\n            dataset_filler for dataset_filler, _ in wrapper_outputs\n        ]\n",
         new=""),
    dict(rule="C09.collect", name="rename-twin", expect="silent", path=_P,
         edits=[dict(path=_P, old="        dataset_fillers = [\n            dataset_filler for dataset_filler, _ in wrapper_outputs\n        ]\n",
                     new="        returned_fillers = [\n            dataset_filler for dataset_filler, _ in wrapper_outputs\n        ]\n"),
                dict(path=_P, old="        for dataset_filler in dataset_fillers:\n            # Beware",
                     new="        for dataset_filler in returned_fillers:\n            # Beware")]),
    dict(rule="C09.collect", name="skip-first-output", expect="fire", path=_P,
         old="            dataset_filler for dataset_filler, _ in wrapper_outputs\n",
         new="            dataset_filler for dataset_filler, _ in wrapper_outputs[1:]\n"),
    dict(rule="C09.isolate", name="exit-always-updates", expect="fire", path=_F,
         old="        if self._auto_update_dataset:\n            # Note",
         new="        if self._auto_update_dataset or self._updated_infos:\n            # Note"),
    dict(rule="C09.isolate", name="shard-outside-subdir", expect="fire", path=_F,
         old="        relative_path_with_split: Path = split / self._relative_path_from_split\n",
         new="        relative_path_with_split: Path = Path(split)\n"),
]
