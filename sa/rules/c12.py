"""C12 - shard selection options mean the same thing in every interface."""
from __future__ import annotations

import ast

from sa.cfg import case_literals
from sa.context import Context, names_in
from sa.dataflow import TagFlow, param_tags
from sa.model import AnalysisError, clone, dotted, short
from sa.rules import common as C

OPTIONS = ["split", "shards", "custom_metadata_type_limit", "shard_filter"]


def selection_functions(ctx: Context):
    """Functions of the iteration module from which the single selection
    routine is reachable (plus the routine itself)."""
    target = ctx.fn(C.SHARD_PATHS)
    mod = ctx.repo.module(C.ITER_MOD)
    out = []
    for f in mod.functions.values():
        if f is target or target.fq in ctx.cg.reachable([f.fq]):
            out.append(f)
    # constructors that merely store options for a later call
    for ci in mod.classes.values():
        init = ci.methods.get("__init__")
        if init is not None and any(
                m in out for m in ci.methods.values()) and init not in out:
            out.append(init)
    return out


def run(ctx: Context, rep) -> None:
    rep.not_decided = (
        "that the selected shard files contain what their ShardInfo says; "
        "tf.data internals; equality of the examples yielded by different "
        "interfaces at run time")
    rep.assumptions += [
        "annotations of the iteration mixin describe the receivers",
        "a keyword/positional argument whose expression derives from the "
        "caller's option (def-use, flow-sensitive) forwards that option",
    ]
    rep.rule(
        "C12.forward",
        "for every call edge A->B among the functions that reach the "
        "selection routine, and every option in {split, shards, "
        "custom_metadata_type_limit, shard_filter} that both A and B accept "
        "(constructor fields count as accepted), the call passes an "
        "expression derived from A's option")
    funcs = selection_functions(ctx)
    for fq in C.INTERFACES + [C.COMMON, C.SHARD_PATHS]:
        if ctx.fn(fq) not in funcs:
            raise AnalysisError(f"{fq} does not reach the selection routine")
    edges = C.check_forwarding(ctx, rep, "C12.forward", funcs, OPTIONS, {})
    rep.info("C12.forward", f"{len(funcs)} selection-carrying functions, "
             f"{edges} call edges among them: " +
             ", ".join(sorted(f.qualname for f in funcs)))
    rep.floor("C12.forward matched only", rep.count("C12.forward"), 20, "instances")

    rep.rule(
        "C12.delegate",
        "when an interface delegates its data path to another "
        "selection-carrying function (another interface, the common shard "
        "stream, the Rust generator), every selection option the delegating "
        "function accepts is accepted by the delegate as well - otherwise "
        "the option is silently dropped on that path")
    sel_fq = ctx.fn(C.SHARD_PATHS).fq
    from sa.rules.common import calls_with_lambdas
    n_del = 0
    for a in funcs:
        _state, have = C.option_sources(ctx, a)
        for call, _anchor in calls_with_lambdas(a):
            for b in ctx.internal_targets(a, call):
                if b not in funcs or b is a or b.fq == sel_fq:
                    continue
                n_del += 1
                b_init = b.cls.methods.get("__init__") if b.cls else None
                b_accepts = set(b.params()) | (
                    set(b_init.params()) if b_init is not None and
                    b.name != "__init__" else set())
                for p in OPTIONS:
                    if p in have:
                        rep.ob("C12.delegate", p in b_accepts,
                               loc=a.loc(call), where=a.qualname,
                               construct=f"{a.qualname} -> {b.qualname} "
                               f"[{p}]",
                               message=f"`{p}` is accepted by "
                               f"{a.qualname} but the delegate "
                               f"{b.qualname} has no such parameter")
    rep.floor("C12.delegate", n_del, 3, "instances")

    rep.rule(
        "C12.stored",
        "a constructor that accepts a selection option stores it in a field "
        "(so the later call can forward it)")
    for f in funcs:
        if f.name != "__init__":
            continue
        cfg = ctx.cfg(f)
        tf = TagFlow(cfg, param_tags(f))
        stored: set[str] = set()
        for n in cfg.nodes:
            a = n.ast
            if n.kind == "stmt" and isinstance(a, (ast.Assign, ast.AnnAssign)) \
                    and getattr(a, "value", None) is not None:
                tgts = a.targets if isinstance(a, ast.Assign) else [a.target]
                if any((dotted(t) or "").startswith("self.") for t in tgts):
                    stored |= set(tf.tags_at(n, a.value))
        for p in OPTIONS:
            if p in f.params():
                rep.ob("C12.stored", p in stored, loc=f.loc(),
                       where=f.qualname, construct=f"self.<field> = {p}",
                       message=f"constructor option `{p}` must be kept in a "
                       f"field")

    # ---------------------------------------------------------------------
    rep.rule(
        "C12.single",
        "inside the iteration module the shard-list tree is enumerated only "
        "by the selection routine (no other function calls "
        "shard_info_iterator/_shard_info_iterator or reads the split table)")
    sel = ctx.fn(C.SHARD_PATHS)
    mod = ctx.repo.module(C.ITER_MOD)
    n_sel = 0
    for f in mod.functions.values():
        for call in f.calls():
            if ctx.is_call(f, call, "DatasetBase.shard_info_iterator",
                           "DatasetBase._shard_info_iterator") or (
                               isinstance(call.func, ast.Attribute) and
                               call.func.attr in ("shard_info_iterator",
                                                  "_shard_info_iterator")):
                n_sel += 1
                rep.ob("C12.single", f is sel, loc=f.loc(call),
                       where=f.qualname, construct=short(call),
                       message="only shard_paths_dataset may enumerate shard "
                       "infos in the iteration module")
        for n in f.body_nodes():
            if isinstance(n, ast.Attribute) and n.attr == "splits" and \
                    "_dataset_info" in (dotted(n) or ""):
                rep.ob("C12.single", False, loc=f.loc(n), where=f.qualname,
                       construct=short(n),
                       message="the split table is read outside the base "
                       "class walk")
    if n_sel < 1:
        raise AnalysisError("C12.single: no enumeration call found in "
                            "shard_paths_dataset")
    # the enumeration in the selection routine is for exactly its split
    for call in sel.calls():
        if isinstance(call.func, ast.Attribute) and call.func.attr == \
                "shard_info_iterator":
            e = C.passed_expr(call, ctx.fn(
                "sedpack.io.dataset_base:DatasetBase.shard_info_iterator"),
                              "split")
            rep.ob("C12.single", e is not None and "split" in names_in(e),
                   loc=sel.loc(call), where=sel.qualname,
                   construct=short(call),
                   message="the selection routine enumerates the requested "
                   "split")

    # ---------------------------------------------------------------------
    rep.rule(
        "C12.select",
        "in the selection routine: the predicate filter, the first-k "
        "truncation (a prefix slice [:shards]) and the per-metadata limit "
        "(count <= limit, counted per metadata key) are each applied under "
        "a guard on their own option, and the returned paths derive from "
        "the list they produced")
    check_select(ctx, rep, sel)

    rep.rule(
        "C12.empty",
        "a non-emptiness test that raises follows the predicate filter on "
        "every path to the return")
    check_empty(ctx, rep, sel)
    # ... and the tf.data interface, which is not a generator, makes the
    # selection (and so the emptiness test) when it is called, on every path
    # to its return - for every shard format, like the other interfaces do at
    # their first example
    from sa.cfg import CFG as _CFG
    tfi = ctx.fn(C.INTERFACES[0])
    g_ = _CFG(tfi)
    sel_calls = g_.calls(lambda c: isinstance(c.func, ast.Attribute) and
                         c.func.attr == sel.name)
    if not sel_calls:
        rep.ob("C12.empty", False, loc=tfi.loc(), where=tfi.qualname,
               construct=f"no direct call of {sel.name}",
               message="the tf.data interface selects the shards itself")
    else:
        late = g_.always_before(sel_calls, [g_.exit], normal_only=True)
        rep.ob("C12.empty", not late, loc=tfi.loc(), where=tfi.qualname,
               construct=f"{len(sel_calls)} call(s) of {sel.name}; " + (
                   "a return is reachable without one" if late else
                   "every return passes one"),
               message="an empty or invalid selection is refused when the "
               "tf.data interface is called, for every shard format")

    rep.rule(
        "C12.formats",
        "every `match` on the shard file type names only members of "
        "ShardFileTypeT and its fall-through arm raises")
    check_formats(ctx, rep)
    from sa.rules import shared
    shared.check_exit_propagates(ctx, rep, "C12.exit", modules=(C.ITER_MOD, ), floor=1)
    shared.check_one_shot(ctx, rep, "C12.one-shot", ("sedpack.io", ))
    # the same options select the same examples on every pass over a
    # returned dataset: tf.data gets a generator factory, not one generator
    shared.check_fresh_pass(ctx, rep, "C12.fresh-pass")
    # the three restrictions compose in the documented order, for every
    # combination of options: predicate filter, then first-k, then the
    # per-metadata limit, applied to the walk of the requested split
    from sa.rules.c03 import selection_stages, selection_terms
    rep.rule(
        "C12.stages",
        "for each of the 8 combinations of {shard_filter, shards, "
        "custom_metadata_type_limit} the selection routine returns "
        "paths(limit?(first-k?(filter?(walk(split))))) - exactly the stages "
        "whose option is given, in this order (collection algebra)")
    sel_fn = ctx.fn(C.SHARD_PATHS)
    for key, t in sorted(selection_terms(ctx).items()):
        want = ["walk"] + [n for n, on in zip(("filter", "first-k", "limit"),
                                               key) if on] + ["paths"]
        got = selection_stages(t)
        rep.ob("C12.stages", got == want, loc=sel_fn.loc(),
               where=sel_fn.qualname,
               construct=f"options {key}: stages {got}",
               message=f"expected stages {want}", sample=False)
    # an option is what the caller passed, everywhere it is used: the
    # selection-carrying functions never rebind an option parameter (a late
    # binding lambda would forward the new value)
    rep.rule("C12.rebind", "no selection option parameter (split, shards, "
             "custom_metadata_type_limit, shard_filter) is assigned in a "
             "function that forwards it")
    n_opt = 0
    for f_ in selection_functions(ctx):
        for p_ in [p for p in OPTIONS if p in f_.params()]:
            n_opt += 1
            stores = [n for n in f_.body_nodes() if isinstance(n, ast.Name)
                      and n.id == p_ and isinstance(n.ctx, (ast.Store, ast.Del))]
            rep.ob("C12.rebind", not stores,
                   loc=f_.loc(stores[0]) if stores else f_.loc(),
                   where=f_.qualname, construct=f"{p_}: {len(stores)} "
                   "assignment(s)", message="the option keeps the caller's "
                   "value for the whole call", sample=False)
    rep.floor("C12.rebind", n_opt, 10, "option parameters")
    # the async interface sees the same selected stream (no source closed
    # behind the helper's back: same rule as C02.borrow)
    from sa.rules.c02 import check_borrow, stream_scope
    check_borrow(ctx, rep, "C12.borrow", stream_scope(ctx)[1])
    # nothing read from the dataset's files / the environment is memoised
    from sa.rules import shared as _shm
    _shm.check_no_memo(ctx, rep, "C12.memo")
    # the selected shards are exactly the paths computed by the selection:
    # no file-name pattern matching on the way to the readers
    rep.rule("C12.no-glob", "no call of list_files / glob / rglob / iglob / "
             "match_filenames_once / fnmatch in the iteration modules: a "
             "selected path is opened literally (a path containing * ? [ is "
             "a path, not a pattern)")
    n_glob = 0
    for f_ in ctx.repo.all_functions():
        if f_.module.name not in ("sedpack.io.dataset_iteration",
                                  "sedpack.io.dataset_base",
                                  "sedpack.io.tfrec.read"):
            continue
        for c_ in f_.calls():
            nm_ = (dotted(c_.func) or "").rsplit(".", 1)[-1]
            if nm_ in ("list_files", "glob", "rglob", "iglob",
                       "match_filenames_once", "fnmatch", "filter") and (
                           nm_ != "filter" or "fnmatch" in (dotted(c_.func)
                                                            or "")):
                n_glob += 1
                rep.ob("C12.no-glob", False, loc=f_.loc(c_), where=f_.qualname,
                       construct=short(c_, 70),
                       message="selected shard paths are treated as patterns")
    rep.info("C12.no-glob", f"{n_glob} pattern-matching call(s)")
    # the same selection yields the same shards in every interface: the
    # unshuffled concurrent batches cover the stream (same check as
    # C02.batch) and the walk that feeds the selection is the recorded order
    # (same check as C02.walk)
    from sa.rules import shared as _sh12
    _sh12.share_rules(ctx, rep, "c02", {"C02.batch": "C12.batch",
                                        "C02.walk": "C12.walk"})
    _shm.check_log_args_pure(ctx, rep, "C12.log")

def check_select(ctx: Context, rep, sel) -> None:
    cfg = ctx.cfg(sel)
    tf = TagFlow(cfg, param_tags(sel))
    # 1. the filter
    filt = [
        n for n in cfg.nodes if n.kind == "stmt" and isinstance(
            n.ast, ast.Assign) and "shard_filter" in names_in(n.ast.value)
    ]
    rep.ob("C12.select", bool(filt), loc=sel.loc(), where=sel.qualname,
           construct="shards_list = filter(shard_filter, ...)",
           message="the predicate must be applied to the shard list")
    for n in filt:
        v = n.ast.value
        ok = False
        # filter(shard_filter, X) / [s for s in X if shard_filter(s)]
        for c in ast.walk(v):
            if isinstance(c, ast.Call) and isinstance(c.func, ast.Name) and \
                    c.func.id == "filter" and c.args and \
                    "shard_filter" in names_in(c.args[0]) and \
                    not isinstance(c.args[0], ast.Lambda):
                ok = True
            if isinstance(c, ast.comprehension):
                for cond in c.ifs:
                    if isinstance(cond, ast.Call) and "shard_filter" in \
                            names_in(cond.func):
                        ok = True
        rep.ob("C12.select", ok, loc=sel.loc(n.ast), where=sel.qualname,
               construct=short(n.ast),
               message="keeps exactly the shards for which the predicate is "
               "true (filter(pred, xs) or a comprehension with `if pred(x)`)")
    # 2. truncation
    slices = [
        n for n in sel.body_nodes()
        if isinstance(n, ast.Subscript) and isinstance(n.slice, ast.Slice) and
        "shards" in names_in(n.slice)
    ]
    rep.ob("C12.select", bool(slices), loc=sel.loc(), where=sel.qualname,
           construct="shards_list[:shards]",
           message="first-k truncation must exist")
    for s in slices:
        sl = s.slice
        ok = sl.lower is None and sl.step is None and isinstance(
            sl.upper, ast.Name) and sl.upper.id == "shards"
        rep.ob("C12.select", ok, loc=sel.loc(s), where=sel.qualname,
               construct=short(s),
               message="truncation keeps the first `shards` entries: slice "
               "[:shards]")
    # 3. per metadata limit: a comparison <count of this group> <= limit
    # guarding the append, the counter being incremented for every shard
    from sa.model import parent
    import copy

    def loop_defs(loop: ast.For) -> dict[str, ast.AST]:
        """unconditional single assignments in the loop body"""
        out: dict[str, ast.AST] = {}
        seen: dict[str, int] = {}
        for st in loop.body:
            if isinstance(st, (ast.Assign, ast.AnnAssign)) and st.value is not None:
                t = st.targets[0] if isinstance(st, ast.Assign) else st.target
                if isinstance(t, ast.Name):
                    seen[t.id] = seen.get(t.id, 0) + 1
                    out[t.id] = st.value
        return {k: v for k, v in out.items() if seen[k] == 1}

    def expand_in(e: ast.AST, defs: dict[str, ast.AST], depth: int = 0) -> ast.AST:
        class T(ast.NodeTransformer):
            def visit_Name(self, n):
                if isinstance(n.ctx, ast.Load) and n.id in defs and depth < 5:
                    return expand_in(clone(defs[n.id]), defs, depth + 1)
                return n
        return T().visit(clone(e))

    cmps = [
        n for n in sel.body_nodes() if isinstance(n, ast.Compare) and
        "custom_metadata_type_limit" in names_in(n) and
        not isinstance(n.ops[0], (ast.Is, ast.IsNot))
    ]
    rep.ob("C12.select", bool(cmps), loc=sel.loc(), where=sel.qualname,
           construct="<group count> <= custom_metadata_type_limit",
           message="per-metadata limit comparison must exist")
    for c in cmps:
        left, op, right = c.left, c.ops[0], c.comparators[0]
        lim_right = "custom_metadata_type_limit" in names_in(right)
        ok = len(c.ops) == 1 and (
            (lim_right and isinstance(op, ast.LtE)) or
            (not lim_right and isinstance(op, ast.GtE)))
        rep.ob("C12.select", ok, loc=sel.loc(c), where=sel.qualname,
               construct=short(c),
               message="a shard is kept while its metadata group count "
               "(this shard included) is <= the limit")
        p = c
        while p is not None and not isinstance(p, ast.If):
            p = parent(p)
        loop = p
        while loop is not None and not isinstance(loop, (ast.For, ast.While)):
            loop = parent(loop)
        ok2 = False
        lossy: list[str] = []
        detail = "limit test is not inside a for loop over the shard list"
        if isinstance(p, ast.If) and isinstance(loop, ast.For) and p in loop.body:
            defs = loop_defs(loop)
            cnt = expand_in(left if lim_right else right, defs)
            ct = ast.unparse(cnt)
            lv = dotted(loop.target)
            # counter dictionary and key
            subs = [x for x in ast.walk(cnt) if isinstance(x, ast.Subscript)]
            gets = [x for x in ast.walk(cnt) if isinstance(x, ast.Call) and
                    isinstance(x.func, ast.Attribute) and x.func.attr == "get"
                    and len(x.args) == 2 and isinstance(
                        x.args[1], ast.Constant) and x.args[1].value == 0]
            plus1 = any(isinstance(b, ast.BinOp) and isinstance(b.op, ast.Add)
                        and any(isinstance(z, ast.Constant) and z.value == 1
                                for z in (b.left, b.right))
                        for b in ast.walk(cnt))
            cdict = key = None
            if gets and plus1:
                cdict, key = dotted(gets[0].func.value), gets[0].args[0]
                form = "get+1"
            elif subs:
                cdict, key = dotted(subs[0].value), subs[0].slice
                form = "subscript"
            if cdict is not None:
                # unconditional store / increment of counts[key] in the body
                stores = []
                for st in loop.body:
                    if isinstance(st, ast.Assign) and isinstance(
                            st.targets[0], ast.Subscript) and dotted(
                                st.targets[0].value) == cdict:
                        v = ast.unparse(expand_in(st.value, defs))
                        stores.append(("=", v, loop.body.index(st)))
                    if isinstance(st, ast.AugAssign) and isinstance(
                            st.target, ast.Subscript) and dotted(
                                st.target.value) == cdict and isinstance(
                                    st.op, ast.Add) and isinstance(
                                        st.value, ast.Constant) and \
                            st.value.value == 1:
                        stores.append(("+=", "1", loop.body.index(st)))
                idx = loop.body.index(p)
                if form == "get+1":
                    ok_store = any(k == "=" and v == ct for k, v, _i in stores)
                else:
                    ok_store = any(i < idx and (k == "+=" or (
                        ".get(" in v and "+ 1" in v)) for k, v, i in stores)
                key_e = expand_in(key, defs)
                kt = ast.unparse(key_e)
                key_ok = f"{lv}.custom_metadata" in kt
                INJECTIVE = {"tuple", "sorted", "frozenset", "items", "str",
                             "repr", "dumps", "list"}
                lossy = sorted({
                    (x.func.id if isinstance(x.func, ast.Name) else x.func.attr)
                    for x in ast.walk(key_e) if isinstance(x, ast.Call) and
                    isinstance(x.func, (ast.Name, ast.Attribute))} - INJECTIVE)
                appended = any(
                    isinstance(x, ast.Call) and isinstance(
                        x.func, ast.Attribute) and x.func.attr == "append" and
                    x.args and dotted(x.args[0]) == lv
                    for s2 in p.body for x in ast.walk(s2))
                ok2 = ok_store and key_ok and isinstance(loop.iter, ast.Name) \
                    and appended and len(stores) == 1 and not p.orelse
                detail = (f"count={ct}, stored unconditionally={ok_store}, key="
                          f"{kt} from this shard's metadata={key_ok}, kept "
                          f"shard appended={appended}")
        rep.ob("C12.select", not lossy, loc=sel.loc(c), where=sel.qualname,
               construct="group key built with " + (
                   ", ".join(lossy) if lossy else "tuple/sorted/items only"),
               message="the per-metadata counter key must distinguish "
               "distinct metadata values (hash/id/len are not injective)")
        rep.ob("C12.select", ok2, loc=sel.loc(c), where=sel.qualname,
               construct="counts[key(custom_metadata)] incremented by one for "
               "every shard, compared after the increment",
               message="per-metadata counting over the whole list: " + detail)
    # 4. guards: each stage is under a test of its own option only
    for label, opt, nodes in (("filter", "shard_filter", [n.ast for n in filt]),
                              ("truncate", "shards", slices),
                              ("limit", "custom_metadata_type_limit", cmps)):
        for node in nodes:
            from sa.model import ancestors
            from sa.cfg import TRUTHY, truth
            guards = [a for a in ancestors(node) if isinstance(a, ast.If)]
            guards = [g for g in guards
                      if not any(x is node for x in ast.walk(g.test))]
            ok = bool(guards)
            for g in guards:
                in_body = any(x is node for s in g.body for x in ast.walk(s))
                on = truth(g.test, {opt: TRUTHY})
                off = truth(g.test, {opt: None})
                ok = ok and in_body and names_in(g.test) <= {opt} and \
                    on is True and off is False
            rep.ob("C12.select", ok, loc=sel.loc(node), where=sel.qualname,
                   construct=f"guard of {label}: " +
                   " / ".join(short(g.test) for g in guards),
                   message=f"the {label} stage runs exactly when `{opt}` is "
                   f"given (guard mentions only `{opt}`, stage in its true "
                   f"branch)")
    # 5. return derives from the list variable all stages write
    rets = [n for n in cfg.nodes if n.kind == "stmt" and isinstance(n.ast, ast.Return)]
    list_vars = {dotted(n.ast.targets[0]) for n in filt if isinstance(n.ast, ast.Assign)}
    for r in rets:
        val = r.ast.value
        deps = set()
        # which list does the returned value iterate?
        tf2 = TagFlow(cfg, {}, hook=None)
        src_names = names_in(val)
        # follow one assignment back
        for n in cfg.nodes:
            if n.kind == "stmt" and isinstance(n.ast, ast.Assign) and any(
                    dotted(t) in src_names for t in n.ast.targets):
                deps |= names_in(n.ast.value)
        deps |= src_names
        ok = bool(list_vars & deps)
        rep.ob("C12.select", ok, loc=sel.loc(r.ast), where=sel.qualname,
               construct=short(r.ast),
               message="returned paths are built from the filtered/truncated "
               f"list {sorted(v for v in list_vars if v)}")
        # no slicing/filtering of the list in the final comprehension
        for n in cfg.nodes:
            if n.kind == "stmt" and isinstance(n.ast, ast.Assign) and any(
                    dotted(t) in src_names for t in n.ast.targets):
                for comp in ast.walk(n.ast.value):
                    if isinstance(comp, ast.comprehension):
                        plain = isinstance(comp.iter, ast.Name) and not comp.ifs
                        rep.ob("C12.select", plain, loc=sel.loc(n.ast),
                               where=sel.qualname, construct=short(comp.iter),
                               message="path list maps every selected shard "
                               "(no slice / filter in the final comprehension)")


def check_empty(ctx: Context, rep, sel) -> None:
    cfg = ctx.cfg(sel)
    tf = TagFlow(cfg, param_tags(sel))
    filt = [
        n for n in cfg.nodes if n.kind == "stmt" and isinstance(
            n.ast, ast.Assign) and "shard_filter" in names_in(n.ast.value)
    ]
    if not filt:
        return
    listvar = dotted(filt[0].ast.targets[0])
    tests = []
    for n in cfg.nodes:
        if n.kind != "test" or not isinstance(n.stmt, ast.If):
            continue
        t = n.ast
        form = None
        if isinstance(t, ast.UnaryOp) and isinstance(t.op, ast.Not) and \
                dotted(t.operand) == listvar:
            form = "true"
        elif isinstance(t, ast.Compare) and len(t.ops) == 1 and isinstance(
                t.left, ast.Call) and isinstance(t.left.func, ast.Name) and \
                t.left.func.id == "len" and t.left.args and dotted(
                    t.left.args[0]) == listvar and isinstance(
                        t.comparators[0], ast.Constant):
            k = t.comparators[0].value
            op = t.ops[0]
            if (isinstance(op, ast.Eq) and k == 0) or (isinstance(
                    op, ast.Lt) and k == 1) or (isinstance(op, ast.LtE) and
                                                k == 0):
                form = "true"
        elif dotted(t) == listvar:
            form = "false"
        if form is None:
            continue
        from sa.context import raises_in
        branch = n.stmt.body if form == "true" else n.stmt.orelse
        if raises_in(branch):
            tests.append(n)
    ok = bool(tests)
    rep.ob("C12.empty", ok, loc=sel.loc(), where=sel.qualname,
           construct=f"if not {listvar}: raise",
           message="an emptiness test of the selected list that raises must "
           "exist")
    if not ok:
        return
    reach = cfg.reachable(filt, avoiding=tests, strict=True,
                          follow=lambda a, b, lab: lab != "exc")
    bad = cfg.exit in reach
    path = ""
    if bad:
        path = f"filter at L{filt[0].lineno} reaches the return without the emptiness test"
    rep.ob("C12.empty", not bad, loc=sel.loc(filt[0].ast), where=sel.qualname,
           construct=f"filter -> `if not {listvar}: raise` -> return",
           message="the emptiness test must come after the predicate filter "
           "on every path to the return", path=path)


def check_formats(ctx: Context, rep) -> None:
    """Every function of the iteration module that dispatches on the shard
    file type refuses a value it has no reader for: evaluated by
    specialising the function on shard_file_type = <a name no arm knows>
    (match, if/elif chains and dict look-ups read the same)."""
    from sa import norm, pathval
    from sa.cfg import CFG
    from sa.dispatch import literal_dispatches
    types_mod = ctx.repo.module("sedpack.io.types")
    lit = types_mod.globals.get("ShardFileTypeT")
    if not isinstance(lit, ast.Subscript):
        raise AnalysisError("ShardFileTypeT is not a Literal[...] alias")
    elts = lit.slice.elts if isinstance(lit.slice, ast.Tuple) else [lit.slice]
    members = {e.value for e in elts if isinstance(e, ast.Constant)}
    subject = "self.dataset_structure.shard_file_type"
    n = 0
    for f in ctx.repo.module(C.ITER_MOD).functions.values():
        if isinstance(f.node, ast.Lambda):
            continue
        disp = [d for d in literal_dispatches(f.body_nodes())
                if norm.canon(f, d.subject).endswith("shard_file_type")]
        lookups = [x for x in f.body_nodes() if (
            isinstance(x, ast.Call) and isinstance(x.func, ast.Attribute) and
            x.func.attr == "get" and x.args and norm.canon(
                f, x.args[0]).endswith("shard_file_type")) or (
                    isinstance(x, ast.Subscript) and norm.canon(
                        f, x.slice).endswith("shard_file_type"))]
        if not disp and not lookups:
            continue
        n += 1
        arms = {x for d in disp for lits, _ in d.arms for x in lits}
        env = {subject: "<no such shard file type>"}
        cfg = CFG(f, env=env, oracle=pathval.expr_oracle(f, env))
        live = cfg.reachable([cfg.entry],
                             follow=lambda a, b, lab: lab not in ("exc", ))
        refuses = cfg.exit not in live and any(
            x.kind == "stmt" and isinstance(x.ast, ast.Raise) and x in live
            for x in cfg.nodes)
        rep.ob("C12.formats", arms <= members and refuses,
               loc=f.loc(disp[0].node if disp else lookups[0]),
               where=f.qualname,
               construct=f"dispatch on shard_file_type arms={sorted(arms)}, "
               f"unknown type refused={refuses}",
               message="arms are members of ShardFileTypeT "
               f"{sorted(members)} and an unknown type raises")
    if n < 3:
        raise AnalysisError(f"C12.formats: only {n} format dispatches found")


SELFTESTS = [
    dict(rule="C12.stages", name="first-k-after-limit", expect="fire",
         path="src/sedpack/io/dataset_iteration.py",
         edits=[dict(path="src/sedpack/io/dataset_iteration.py",
                     old="        # Truncate the shard list\n        if shards:\n            shards_list = shards_list[:shards]\n\n",
                     new=""),
                dict(path="src/sedpack/io/dataset_iteration.py",
                     old="        # Full shard file paths.\n",
                     new="        # Truncate the shard list\n        if shards:\n            shards_list = shards_list[:shards]\n\n        # Full shard file paths.\n")]),
    dict(rule="C12.forward", name="drop-limit-in-tfdataset", expect="fire",
         path="src/sedpack/io/dataset_iteration.py",
         old="                    shards=shards,\n                    custom_metadata_type_limit=custom_metadata_type_limit,\n                    shard_filter=shard_filter,\n                    repeat=repeat,\n                    file_parallelism=file_parallelism or 1,",
         new="                    shards=shards,\n                    shard_filter=shard_filter,\n                    repeat=repeat,\n                    file_parallelism=file_parallelism or 1,"),
    dict(rule="C12.forward", name="drop-shard-filter-rust", expect="fire",
         path="src/sedpack/io/dataset_iteration.py",
         old="                    shards=self._shards,\n                    shard_filter=self._shard_filter,",
         new="                    shards=self._shards,"),
    dict(rule="C12.forward", name="shards-or-none-twin", expect="silent",
         path="src/sedpack/io/dataset_iteration.py",
         old="                    shards=self._shards,\n                    shard_filter=self._shard_filter,",
         new="                    shards=self._shards or None,\n                    shard_filter=self._shard_filter,"),
    dict(rule="C12.stored", name="rust-generator-forgets-shards", expect="fire",
         path="src/sedpack/io/dataset_iteration.py",
         old="        self._shards: int | None = shards\n",
         new="        self._shards: int | None = None\n"),
    dict(rule="C12.empty", name="test-before-filter", expect="fire",
         path="src/sedpack/io/dataset_iteration.py",
         old="""        # Filter which shards to use.
        if shard_filter is not None:
            shards_list = list(filter(shard_filter, shards_list))
""",
         new="""        if not shards_list:
            raise ValueError("empty")
        # Filter which shards to use.
        if shard_filter is not None:
            shards_list = list(filter(shard_filter, shards_list))
            if shards:
                return [str(self.path / s.file_infos[0].file_path) for s in shards_list]
"""),
    dict(rule="C12.empty", name="len-eq-zero-twin", expect="silent",
         path="src/sedpack/io/dataset_iteration.py",
         old="        if not shards_list:\n            raise ValueError(\"The list of shards is empty.",
         new="        if len(shards_list) == 0:\n            raise ValueError(\"The list of shards is empty."),
    dict(rule="C12.select", name="limit-off-by-one", expect="fire",
         path="src/sedpack/io/dataset_iteration.py",
         old="if counts[k] <= custom_metadata_type_limit:",
         new="if counts[k] < custom_metadata_type_limit:"),
    dict(rule="C12.select", name="hashed-group-key", expect="fire",
         path="src/sedpack/io/dataset_iteration.py",
         old="                k = tuple(sorted(shard_info.custom_metadata.items()))",
         new="                k = hash(tuple(sorted(shard_info.custom_metadata.items())))"),
    dict(rule="C12.delegate", name="tfdataset-via-rust", expect="fire",
         path="src/sedpack/io/dataset_iteration.py",
         old="                lambda: self.as_numpy_iterator_concurrent(\n                    split=split,\n                    process_record=None,  # otherwise unknown tensorspec\n                    shards=shards,\n                    custom_metadata_type_limit=custom_metadata_type_limit,\n                    shard_filter=shard_filter,\n                    repeat=repeat,\n                    file_parallelism=file_parallelism or 1,\n                    shuffle=shuffle,\n                ),",
         new="                lambda: self.as_numpy_iterator_rust(\n                    split=split,\n                    process_record=None,\n                    shards=shards,\n                    shard_filter=shard_filter,\n                    repeat=repeat,\n                    file_parallelism=file_parallelism or 1,\n                    shuffle=shuffle,\n                ),"),
    dict(rule="C12.select", name="truncate-from-1", expect="fire",
         path="src/sedpack/io/dataset_iteration.py",
         old="shards_list = shards_list[:shards]",
         new="shards_list = shards_list[1:shards]"),
    dict(rule="C12.select", name="filter-inverted", expect="fire",
         path="src/sedpack/io/dataset_iteration.py",
         old="shards_list = list(filter(shard_filter, shards_list))",
         new="shards_list = [s for s in shards_list if not shard_filter(s)]"),
    dict(rule="C12.select", name="filter-comprehension-twin", expect="silent",
         path="src/sedpack/io/dataset_iteration.py",
         old="shards_list = list(filter(shard_filter, shards_list))",
         new="shards_list = [s for s in shards_list if shard_filter(s)]"),
    dict(rule="C12.single", name="second-enumeration", expect="fire",
         path="src/sedpack/io/dataset_iteration.py",
         old="        shard_paths_iterator: Iterable[str] = self.as_numpy_common(\n            split=split,\n            shards=shards,\n            shard_filter=shard_filter,\n            repeat=repeat,\n            shuffle=shuffle,\n        )\n\n        # Decode the files.\n        supported_file_types",
         new="        shard_paths_iterator: Iterable[str] = self.as_numpy_common(\n            split=split,\n            shards=shards,\n            shard_filter=shard_filter,\n            repeat=repeat,\n            shuffle=shuffle,\n        )\n        _ = list(self.shard_info_iterator(split))\n\n        # Decode the files.\n        supported_file_types"),
]
